#!/usr/bin/env python3
"""Runs every check against a behaviour-preserving refactoring (patch applied in its scratch worktree).
Any VIOLATION is a candidate false alarm. Usage: triage_refac.py <dir-with-patch.diff> <worktree>"""
import json, os, re, subprocess, sys, shutil, concurrent.futures
ENV = dict(os.environ, GOFLAGS="-mod=mod", GOPROXY="off", GOSUMDB="off", GOTOOLCHAIN="local")
def sh(cmd, cwd=None):
    p = subprocess.run(cmd, shell=True, cwd=cwd, env=ENV, stdout=subprocess.PIPE, stderr=subprocess.STDOUT)
    return p.returncode, p.stdout.decode(errors="replace")
d, wt = sys.argv[1], sys.argv[2]
sh("git checkout -- . && git clean -fdq src", cwd=wt)
rc, o = sh(f"git apply {d}/patch.diff", cwd=wt)
if rc != 0:
    print(json.dumps({"refac": d, "apply": "FAILED " + o[:200]})); sys.exit(0)
rc, o = sh("go build ./...", cwd=wt)
if rc != 0:
    print(json.dumps({"refac": d, "build": "FAILED " + o[:300]})); sh("git checkout -- . && git clean -fdq src", cwd=wt); sys.exit(0)
props = [c["property_id"] for c in json.load(open("/verif/MANIFEST.json"))["checks"]]
vdir = "/tmp/refac/verif_" + re.sub(r"\W", "_", d)
os.makedirs(vdir, exist_ok=True); shutil.copy("/verif/known_findings.jsonl", vdir)
def run(pid):
    rc, o = sh(f"/verif/bin/pcverif check {pid} --repo {wt} --verif {vdir}")
    viol = re.findall(r"violated (\S+)\s+at (\S*)\n\s+construct: (.*)\n\s+(.*)", o)
    brk = [l for l in o.splitlines() if "CHECK-BROKEN" in l]
    return pid, rc, viol, brk
alarms = {}
with concurrent.futures.ThreadPoolExecutor(max_workers=10) as ex:
    for pid, rc, viol, brk in ex.map(run, props):
        if viol: alarms[pid] = [f"{v[0]} | {v[2]} | {v[3][:160]}" for v in viol]
        if brk: alarms[pid] = alarms.get(pid, []) + brk
shutil.rmtree(vdir, ignore_errors=True)
sh("git checkout -- . && git clean -fdq src", cwd=wt)
note = open(f"{d}/note.txt").read()[:300] if os.path.exists(f"{d}/note.txt") else ""
print(json.dumps({"refac": d, "alarms": alarms, "note": note}))
