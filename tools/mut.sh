#!/bin/sh
# developer helper: tools/mut.sh <Cxx> <file-relative-to-repo> <perl-expr>
# applies a one-off edit to a scratch copy of /repo (under /tmp/mut), checks that it
# still compiles, runs one property check against it and restores the file.
set -u
PROP="$1"; FILE="$2"; EXPR="$3"
S=/tmp/mut/repo
[ -d "$S" ] || { mkdir -p /tmp/mut; rsync -a --exclude .git --exclude www --exclude imgs --exclude bin /repo/ "$S/"; }
rsync -a --exclude .git --exclude www --exclude imgs --exclude bin /repo/src/ "$S/src/"
perl -0pi -e "$EXPR" "$S/$FILE"
if diff -q "/repo/$FILE" "$S/$FILE" >/dev/null; then echo "MUTATION DID NOT APPLY"; exit 3; fi
(cd "$S" && GOFLAGS=-mod=mod GOPROXY=off go build ./... 2>&1 | head -5)
cp /verif/known_findings.jsonl /tmp/mut/verif/ 2>/dev/null
for P in $(echo "$PROP" | tr ',' ' '); do
PCVERIF_REPO="$S" /verif/bin/pcverif check "$P" --repo "$S" --verif /tmp/mut/verif 2>&1 | grep -E "violated|VIOLATION|BROKEN|obligations" | head -${MUT_LINES:-6}
done
cp "/repo/$FILE" "$S/$FILE"
