#!/usr/bin/env python3
"""Keeps behaviour-preserving refactorings (produced by independent sub-agents in scratch worktrees) under
/verif/refactorings/<id>/ and registers each as a 'silent' witness: every check must analyse the refactored
program without a new report (thorough tier). Usage: keep_refacs.py <src-root> [id-prefix] (expects <src-root>/Rn/out/k/)"""
import glob, json, os, shutil, sys, re
root = sys.argv[1]
prefix = sys.argv[2] if len(sys.argv) > 2 else ""
W = json.load(open("/verif/witnesses/witnesses.json"))
have = {w.get("patch") for w in W}
n = 0
for d in sorted(glob.glob(f"{root}/R*/out/*/")):
    if not os.path.exists(d + "patch.diff"):
        continue
    m = re.search(r"/(R\d+)/out/(\d+)/$", d)
    rid = f"{prefix}{m.group(1)}-{m.group(2)}"
    dst = f"/verif/refactorings/{rid}"
    os.makedirs(dst, exist_ok=True)
    shutil.copy(d + "patch.diff", dst)
    note = open(d + "note.txt").read().strip() if os.path.exists(d + "note.txt") else ""
    open(f"{dst}/note.txt", "w").write(note + "\n")
    rel = f"refactorings/{rid}/patch.diff"
    if rel not in have:
        W.append({"property": "*", "file": "", "expect": "", "silent": True, "patch": rel,
                  "note": f"refactoring {rid}: " + note.split("\n")[0][:140]})
        n += 1
json.dump(W, open("/verif/witnesses/witnesses.json", "w"), indent=1)
print("added", n, "silent witnesses; total", len(W))
