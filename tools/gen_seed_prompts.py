#!/usr/bin/env python3
"""Writes the prompt files for a round of seeded breaking changes: one per property, each naming only the property
text and a scratch worktree (created here). Usage: gen_seed_prompts.py <root-dir> [n-changes] [extra-sentence-file]"""
import json, os, subprocess, sys
root = sys.argv[1]; n = sys.argv[2] if len(sys.argv) > 2 else "TWO"
extra = open(sys.argv[3]).read().strip() if len(sys.argv) > 3 else ""
os.makedirs(root, exist_ok=True)
T = '''You are helping to evaluate a verification tool for the Go project "process-compose" (a supervisor that launches non-containerized processes from YAML: dependency ordering, restart policies, health probes, replicas, TUI, REST API). Your job is to play the role of a developer who introduces a realistic, subtle regression.

You have your own scratch git worktree of the repository at: {wt}   (work ONLY there; never touch /repo or /verif; do not read anything under /verif).
Environment: no network. Before every go command run:  export GOFLAGS=-mod=mod GOPROXY=off GOSUMDB=off GOTOOLCHAIN=local
The test-suite command is:  cd {wt} && go test -vet=off -count=1 -timeout 25m ./...   (takes ~15 s; TestSystem_TestProcListShutsDownInOrder and TestSystem_TestRestartingProcessShutDown are known to be flaky under load at ~1% - rerun if only one of those fails.)

This is the semantic property the code is supposed to satisfy:

Property {id}: {title}

Statement: {statement}

Quantifier: {quantifier}

Why the existing test-suite cannot settle it: {why}


TASK: produce up to {n} independent source changes (each a separate small patch against the worktree's HEAD, non-test Go files under src/ only) such that each change
  (a) BREAKS the property above (a user relying on the property would observe wrong behaviour),
  (b) still compiles (go build ./... and go vet is not required) and still passes the complete existing test-suite unchanged,
  (c) needs something specific to manifest - a particular interleaving, a crash or fault at a particular point, a multi-step sequence of operations, an unusual input/configuration, or two cooperating sites that each look fine alone - NOT something that ordinary use or the existing tests would expose at once,
  (d) looks like a plausible refactoring/optimisation/bug-fix gone wrong by a maintainer (no comments announcing the bug, no dead code, no obviously malicious code).
Prefer different mechanisms for the changes, and prefer sites a reviewer would not look at first: helper functions, error paths, rarely used options, interactions between two packages (e.g. one off-by-one in a condition, one dropped call on an error path, one reordering of two steps, one lock narrowed, one wrong constant/field, one check moved outside a critical section ...). {extra} Read the code that implements the property first (start in src/app, src/types, src/loader, src/pclog, src/api, src/client, src/health, src/command, src/cmd as relevant).

For EACH change also write a DEMONSTRATION: a Go test file (package-internal _test.go placed next to the code, or a small program) that FAILS with the change applied and PASSES on the unmodified HEAD. The demonstration may use sleeps, concurrency, fixtures written to a temp dir, the mock/real commands (bash is available) - whatever is needed; keep it deterministic enough to fail reliably (>90%) with the change. Verify both directions yourself: run the demo on HEAD (must pass) and with the patch (must fail), and run the full test-suite with the patch (must pass).

DELIVERABLES - create the directory {wt}/out/ and for change k the sub-directory {wt}/out/k/ containing:
  patch.diff      - output of `git diff` for the source change only (must apply with `git apply` to a clean checkout of HEAD)
  demo_test.go    - the demonstration test file (and a line at its top: `// place at: src/<pkg>/<name>_test.go`), or demo/ for a program
  meta.json       - {{"property":"{id}","summary":"what was changed","why_it_breaks":"...","needs_to_manifest":"the specific interleaving/input/sequence needed","files":["src/..."],"demo_cmd":"exact command to run the demo","verified":{{"demo_fails_with_patch":true,"demo_passes_on_head":true,"suite_passes_with_patch":true}}}}
IMPORTANT: never use `git stash` (the stash is shared between all worktrees of this repository and other people work in sibling worktrees) - to go back to HEAD use `git diff > {wt}/out/wip.diff; git checkout -- .` and `git apply` to restore. Put a one-line go.mod (`module seedout`) into out/ so that `go test ./...` ignores the demo files stored there.
When you are done, leave the worktree clean (git checkout -- . ; remove untracked test files you added under src/), keeping only out/. Fewer good changes is fine; quality (subtle, realistic, verified) matters more than quantity. Finally reply with a short summary of each change (one paragraph each).
'''
for l in open("/verif/properties.jsonl"):
    d = json.loads(l)
    wt = f"{root}/{d['id']}"
    if not os.path.exists(wt):
        subprocess.run(f"git -C /repo worktree add --detach {wt} HEAD", shell=True, stdout=subprocess.DEVNULL, stderr=subprocess.DEVNULL)
    why = d.get("why_tests_cant", "")
    open(f"{root}/{d['id']}.prompt.txt", "w").write(T.format(wt=wt, id=d["id"], title=d.get("title", ""), statement=d.get("statement", ""), quantifier=(d.get("quantifier") or {}).get("text", "") if isinstance(d.get("quantifier"), dict) else d.get("quantifier", ""), why=why, n=n, extra=extra))
print("prompts in", root)
