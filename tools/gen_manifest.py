#!/usr/bin/env python3
"""Regenerates /verif/MANIFEST.json from the table below (kept in one place so the
file is always schema-valid). Run:  python3 tools/gen_manifest.py"""
import json, os, sys
HERE = os.path.dirname(os.path.dirname(os.path.abspath(__file__)))

BASE_NOTE = ("Trusted base: Go type checker, golang.org/x/tools go/packages+go/ssa v0.29.0, the library models "
             "listed in DESIGN.md section 5, default build configuration linux/amd64. The check decides structural "
             "necessary conditions from the source of the current working tree; it never executes process-compose. ")

# property -> (technique, what is decided (level text), what is NOT decided (level note), design section)
CHECKS = {}

NOT_APPLICABLE = {}

def load_table():
    p = os.path.join(HERE, "tools", "manifest_table.json")
    with open(p) as f:
        t = json.load(f)
    return t["checks"], t["not_applicable"]

def main():
    checks_t, na_t = load_table()
    props = [json.loads(l)["id"] for l in open(os.path.join(HERE, "properties.jsonl")) if l.strip()]
    checks = []
    for pid in props:
        if pid not in checks_t:
            continue
        c = checks_t[pid]
        checks.append({
            "property_id": pid,
            "quick_cmd": "./check.sh %s quick" % pid,
            "thorough_cmd": "./check.sh %s thorough" % pid,
            "evidence_file": "/verif/evidence/%s.json" % pid,
            "replay_cmd_template": "./bin/pcverif explain {path}",
            "engine": "pcverif",
            "level_claimed": {
                "category": "other",
                "text": c["decides"],
                "design_ref": c.get("design_ref", "DESIGN.md section 6, " + pid),
            },
            "level_note": BASE_NOTE + "Not decided: " + c["not_decided"],
            "technique": c["technique"],
        })
    na = []
    for pid in props:
        if pid in checks_t:
            continue
        na.append({"property_id": pid, "reason": na_t.get(pid, "static check not built yet; no claim is made")})
    m = {
        "version": 1,
        "setup_cmd": "./check.sh --build",
        "hooks": {
            "guard": "verif",
            "enable": "none needed: static analysis reads the source; no instrumentation is compiled into /repo",
            "baseline_off_cmd": "cd /repo && go test -vet=off -count=1 -timeout 25m ./...",
            "source_commits": [],
            "add_only": True,
        },
        "engines": [{
            "name": "pcverif",
            "path": "/verif/analyzer",
            "serves_properties": [c["property_id"] for c in checks],
            "kind_free_text": "repository-specific static analyzer over go/types + go/ssa: path (dominance/post-dominance) rules, who-may-write site sets, must-locksets, decision-table extraction by finite predicate abstraction, linear-inequality abstract interpretation, sibling-table agreement",
        }],
        "checks": checks,
        "not_applicable": na,
        "notes": "All claims are level 'other': each check decides structural necessary conditions of its property (see level_claimed.text) and says what it does not decide. Known genuine defects that are recorded rather than repaired are listed in known_findings.jsonl.",
    }
    with open(os.path.join(HERE, "MANIFEST.json"), "w") as f:
        json.dump(m, f, indent=1)
        f.write("\n")
    try:
        import jsonschema
        jsonschema.validate(m, json.load(open("/root/.vp/MANIFEST.schema.json")))
        print("MANIFEST.json valid: %d checks, %d not_applicable" % (len(checks), len(na)))
    except ImportError:
        print("MANIFEST.json written (jsonschema not available to validate)")

if __name__ == "__main__":
    main()
