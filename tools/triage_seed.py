#!/usr/bin/env python3
"""Triage one seeded change delivered by a sub-agent in /tmp/seed/<Cxx>/out/<k>/.
 1. verifies the demonstration in the agent's scratch worktree: passes on HEAD, fails with
    the patch; the full suite passes with the patch;
 2. runs every registered check (quick) against the patched scratch worktree and lists the
    rules that report a violation not covered by a known finding.
Prints one JSON line with the outcome. Usage: triage_seed.py C06 1 [--skip-verify] [--props C06,C03]"""
import json, os, re, subprocess, sys, shutil, concurrent.futures
ENV = dict(os.environ, GOFLAGS="-mod=mod", GOPROXY="off", GOSUMDB="off", GOTOOLCHAIN="local")
def sh(cmd, cwd=None, timeout=1500):
    p = subprocess.run(cmd, shell=True, cwd=cwd, env=ENV, stdout=subprocess.PIPE, stderr=subprocess.STDOUT, timeout=timeout)
    return p.returncode, p.stdout.decode(errors="replace")
def main():
    prop, k = sys.argv[1], sys.argv[2]
    skip = "--skip-verify" in sys.argv
    props = None
    for i, a in enumerate(sys.argv):
        if a == "--props":
            props = sys.argv[i+1].split(",")
    root = os.environ.get("SEED_ROOT", "/tmp/seed")
    wt = f"{root}/{prop}"; out = f"{wt}/out/{k}"
    meta = json.load(open(f"{out}/meta.json"))
    res = {"seed": f"{prop}-{k}", "summary": meta.get("summary", "")[:200]}
    def clean():
        sh("git checkout -- . && git clean -fdq src", cwd=wt)
    clean()
    demo = open(f"{out}/demo_test.go").read() if os.path.exists(f"{out}/demo_test.go") else ""
    m = re.search(r"place at:\s*(\S+)", demo)
    place = m.group(1) if m else None
    demo_cmd = meta.get("demo_cmd", "")
    if not place:
        m = re.search(r"cp\s+\S*demo_test\.go\s+(\S+)", demo_cmd)
        place = m.group(1) if m else None
    # run only the go test part of the demo command
    m2 = re.search(r"(go test[^&;]*)", demo_cmd)
    gotest = m2.group(1).strip() if m2 else None
    if not skip and place and gotest:
        shutil.copy(f"{out}/demo_test.go", f"{wt}/{place}")
        rc, o = sh(gotest, cwd=wt)
        res["demo_on_head"] = "pass" if rc == 0 else "FAIL"
        rc, o = sh(f"git apply {out}/patch.diff", cwd=wt)
        if rc != 0:
            res["apply"] = "FAILED: " + o[:200]; clean(); print(json.dumps(res)); return
        rc, o = sh(gotest, cwd=wt)
        res["demo_with_patch"] = "fail" if rc != 0 else "PASSES"
        os.remove(f"{wt}/{place}")
        rc, o = sh("go build ./... && go test -vet=off -count=1 -timeout 25m ./...", cwd=wt)
        if rc != 0 and "TestSystem_TestProcListShutsDownInOrder" in o and o.count("--- FAIL") <= 2:
            rc, o = sh("go test -vet=off -count=1 -timeout 25m ./...", cwd=wt)
        res["suite_with_patch"] = "pass" if rc == 0 else "FAIL"
        if rc != 0:
            res["suite_fail_excerpt"] = "\n".join([l for l in o.splitlines() if l.startswith("--- FAIL") or l.startswith("FAIL")][:6])
    else:
        rc, o = sh(f"git apply {out}/patch.diff", cwd=wt)
        if rc != 0:
            res["apply"] = "FAILED: " + o[:200]; clean(); print(json.dumps(res)); return
    # run the checks against the patched worktree
    allprops = [c["property_id"] for c in json.load(open("/verif/MANIFEST.json"))["checks"]]
    if props: allprops = props
    vdir = f"{root}/verif_{prop}_{k}"
    os.makedirs(vdir, exist_ok=True)
    shutil.copy("/verif/known_findings.jsonl", vdir)
    def run(pid):
        rc, o = sh(f"/verif/bin/pcverif check {pid} --repo {wt} --verif {vdir}")
        rules = sorted(set(re.findall(r"violated (\S+)", o)))
        brk = "CHECK-BROKEN" in o
        return pid, rc, rules, (o.splitlines()[0][:300] if brk else "")
    fired = {}
    with concurrent.futures.ThreadPoolExecutor(max_workers=10) as ex:
        for pid, rc, rules, brk in ex.map(run, allprops):
            if rules: fired[pid] = rules
            if brk: fired[pid] = fired.get(pid, []) + ["BROKEN: " + brk]
    res["fired"] = fired
    res["own_property_fired"] = prop in fired
    shutil.rmtree(vdir, ignore_errors=True)
    clean()
    print(json.dumps(res))
main()
