#!/usr/bin/env python3
"""Re-runs the own-property check (or all checks with --all) against every kept seeded change.
Each patch is applied in a scratch worktree of /repo (created under /tmp/wt and removed afterwards).
Usage: redetect.py [--all] [dir ...]   (default: /verif/seeded/*)"""
import json, os, re, subprocess, sys, glob, shutil, concurrent.futures, threading, queue
ENV = dict(os.environ, GOFLAGS="-mod=mod", GOPROXY="off", GOSUMDB="off", GOTOOLCHAIN="local")
def sh(cmd, cwd=None):
    p = subprocess.run(cmd, shell=True, cwd=cwd, env=ENV, stdout=subprocess.PIPE, stderr=subprocess.STDOUT)
    return p.returncode, p.stdout.decode(errors="replace")
allp = "--all" in sys.argv
dirs = [a for a in sys.argv[1:] if not a.startswith("--")] or sorted(glob.glob("/verif/seeded/*/"))
dirs = [d.rstrip("/") for d in dirs if os.path.exists(os.path.join(d, "patch.diff"))]
props = [c["property_id"] for c in json.load(open("/verif/MANIFEST.json"))["checks"]]
NW = 8
wts = queue.Queue()
for i in range(NW):
    wt = f"/tmp/wt/{i}"
    if not os.path.exists(wt):
        os.makedirs("/tmp/wt", exist_ok=True)
        sh(f"git -C /repo worktree add --detach {wt} HEAD")
    sh("git checkout -q --detach $(git -C /repo rev-parse HEAD) && git checkout -- . && git clean -fdq src", cwd=wt)
    wts.put(wt)
def one(d):
    wt = wts.get()
    try:
        meta = json.load(open(f"{d}/meta.json"))
        own = meta.get("property") or meta.get("property_id") or re.search(r"(C\d\d)", os.path.basename(d)).group(1)
        rc, o = sh(f"git apply {d}/patch.diff", cwd=wt)
        if rc != 0:
            return {"seed": os.path.basename(d), "error": "apply failed " + o[:200]}
        vdir = f"{wt}-verif"; os.makedirs(vdir, exist_ok=True); shutil.copy("/verif/known_findings.jsonl", vdir)
        res = {"seed": os.path.basename(d), "own": own, "rules": {}, "broken": []}
        for pid in (props if allp else [own]):
            rc, o = sh(f"/verif/bin/pcverif check {pid} --repo {wt} --verif {vdir}")
            rules = sorted(set(re.findall(r"violated (\S+)", o)))
            if rules: res["rules"][pid] = rules
            if "CHECK-BROKEN" in o: res["broken"].append(pid + ": " + [l for l in o.splitlines() if "CHECK-BROKEN" in l][0][:200])
        res["detected"] = bool(res["rules"].get(own))
        shutil.rmtree(vdir, ignore_errors=True)
        return res
    finally:
        sh("git checkout -- . && git clean -fdq src", cwd=wt)
        wts.put(wt)
with concurrent.futures.ThreadPoolExecutor(max_workers=NW) as ex:
    results = list(ex.map(one, dirs))
for i in range(NW):
    sh(f"git -C /repo worktree remove --force /tmp/wt/{i}")
miss = [r for r in results if not r.get("detected")]
for r in results:
    print(json.dumps(r))
print(f"# {len(results)-len(miss)}/{len(results)} detected by own-property check; missed: {[r['seed'] for r in miss]}")
