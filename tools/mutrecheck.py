#!/usr/bin/env python3
"""Re-runs `pcverif checkall` (current binary) on the mutants of /tmp/mutres.jsonl that survived the tests and were
not reported when they were first evaluated (rules were added while the experiment ran). Writes /tmp/mutres2.jsonl.
Usage: mutrecheck.py <mutants.jsonl> [workers]"""
import json, os, re, subprocess, sys, shutil, threading, queue, concurrent.futures
ENV = dict(os.environ, GOFLAGS="-mod=mod", GOPROXY="off", GOSUMDB="off", GOTOOLCHAIN="local")
def sh(cmd, cwd=None):
    p = subprocess.run(cmd, shell=True, cwd=cwd, env=ENV, stdout=subprocess.PIPE, stderr=subprocess.STDOUT)
    return p.returncode, p.stdout.decode(errors="replace")
muts = {json.loads(l)["id"]: json.loads(l) for l in open(sys.argv[1])}
NW = int(sys.argv[2]) if len(sys.argv) > 2 else 8
def flagged(d):
    return any(not r.startswith("BROKEN") for v in (d.get("fired") or {}).values() for r in v)
todo = []
for l in open("/tmp/mutres.jsonl"):
    d = json.loads(l)
    if d.get("status") == "survived-tests" and not flagged(d):
        todo.append(d)
done = set()
OUT = "/tmp/mutres2.jsonl"
if os.path.exists(OUT):
    for l in open(OUT): done.add(json.loads(l)["id"])
wts = queue.Queue()
os.makedirs("/tmp/mutwt2", exist_ok=True)
for i in range(NW):
    wt = f"/tmp/mutwt2/{i}"
    if not os.path.exists(wt):
        sh(f"git -C /repo worktree add --detach {wt} HEAD")
    sh("git checkout -- . && git clean -fdq src", cwd=wt)
    wts.put(wt)
lock = threading.Lock()
def one(d):
    if d["id"] in done: return
    m = muts[d["id"]]
    wt = wts.get()
    res = dict(d)
    try:
        path = os.path.join(wt, m["file"])
        src = open(path, "rb").read()
        open(path, "wb").write(src[:m["start"]] + m["repl"].encode() + src[m["end"]:])
        vdir = wt + "-verif"; os.makedirs(vdir, exist_ok=True); shutil.copy("/verif/known_findings.jsonl", vdir)
        rc, o = sh(f"/verif/bin/pcverif checkall --repo {wt} --verif {vdir}")
        fired = {}
        for l in o.splitlines():
            m2 = re.match(r"(C\d\d) (.*)", l)
            if m2: fired.setdefault(m2.group(1), []).append(m2.group(2)[:160])
        res["fired"] = fired
        shutil.rmtree(vdir, ignore_errors=True)
    finally:
        sh("git checkout -- . && git clean -fdq src", cwd=wt)
        wts.put(wt)
        with lock:
            open(OUT, "a").write(json.dumps(res) + "\n")
with concurrent.futures.ThreadPoolExecutor(max_workers=NW) as ex:
    list(ex.map(one, todo))
for i in range(NW):
    sh(f"git -C /repo worktree remove --force /tmp/mutwt2/{i}")
print("done", len(todo))
