#!/usr/bin/env python3
"""Copies the verified seeded changes from /tmp/seed/<Cxx>/out/<k>/ into /verif/seeded/<Cxx>-<k>/ and
records, for each, the result of running the property's check against /repo with the patch applied
(git -C /repo apply; check; git -C /repo checkout -- .)."""
import json, os, re, shutil, subprocess, sys, glob
ENV = dict(os.environ, GOFLAGS="-mod=mod", GOPROXY="off", GOSUMDB="off", GOTOOLCHAIN="local")
def sh(cmd, cwd=None):
    p = subprocess.run(cmd, shell=True, cwd=cwd, env=ENV, stdout=subprocess.PIPE, stderr=subprocess.STDOUT)
    return p.returncode, p.stdout.decode(errors="replace")
ROOT = os.environ.get("SEED_ROOT", "/tmp/seed")      # round 2: SEED_ROOT=/tmp/seed2 SEED_PREFIX=r2-
PREFIX = os.environ.get("SEED_PREFIX", "")
full = {}
for f in glob.glob(f"{ROOT}/full_*.jsonl") + glob.glob(f"{ROOT}/triage/*.json"):
    for l in open(f):
        if l.strip():
            r = json.loads(l); full[r["seed"]] = r
rc, st = sh("git -C /repo status --porcelain")
assert st.strip() == "", "repo not clean: " + st
rows = []
for d in sorted(glob.glob(f"{ROOT}/C*/out/[0-9]")):
    prop = d.split("/")[3]; k = d.split("/")[-1]; sid = f"{prop}-{k}"
    v = full.get(sid, {})
    if not (v.get("demo_on_head") == "pass" and v.get("demo_with_patch") == "fail" and v.get("suite_with_patch") == "pass"):
        print("NOT CONFIRMED, not kept:", sid, v.get("demo_on_head"), v.get("demo_with_patch"), v.get("suite_with_patch")); continue
    sid = PREFIX + sid
    dst = f"/verif/seeded/{sid}"
    os.makedirs(dst, exist_ok=True)
    shutil.copy(f"{d}/patch.diff", dst)
    demo = "demo_test.go"
    if os.path.exists(f"{d}/demo_test.go"):
        # stored with a non-_test suffix so that it is never compiled from here
        shutil.copy(f"{d}/demo_test.go", f"{dst}/demo_test.go.txt")
    meta = json.load(open(f"{d}/meta.json"))
    # apply to /repo, run the check of the property, undo
    rc, o = sh(f"git -C /repo apply {dst}/patch.diff")
    if rc != 0:
        print("cannot apply", sid, o); continue
    rc, o = sh(f"./check.sh {prop} quick", cwd="/verif")
    rules = sorted(set(re.findall(r"violated (\S+)", o)))
    sh("git -C /repo checkout -- .")
    sh(f"./check.sh {prop} quick", cwd="/verif")   # restore the evidence file of the unchanged tree
    out = {
        "seed": sid, "property": prop,
        "summary": meta.get("summary"), "why_it_breaks": meta.get("why_it_breaks"),
        "needs_to_manifest": meta.get("needs_to_manifest"), "files": meta.get("files"),
        "demonstration": {"file": "demo_test.go.txt", "place_at": (re.search(r"place at:\s*(\S+)", open(f"{d}/demo_test.go").read()) or [None, None])[1] if os.path.exists(f"{d}/demo_test.go") else None,
                          "command": meta.get("demo_cmd")},
        "confirmed_by_me": {
            "how": "tools/triage_seed.py in a scratch worktree of /repo HEAD (outside /repo and /verif): demonstration on HEAD, demonstration with the patch, full test-suite with the patch; then git -C /repo apply, ./check.sh <property> quick, git -C /repo checkout -- .",
            "demo_on_head": v.get("demo_on_head"), "demo_with_patch": v.get("demo_with_patch"), "suite_with_patch": v.get("suite_with_patch"),
            "note": v.get("suite_note"),
        },
        "check_result_on_repo_with_patch": {"exit": rc, "rules_violated": rules},
        "detected": bool(rules),
        "author": "independent sub-agent given only the property text and a scratch worktree",
    }
    json.dump(out, open(f"{dst}/meta.json", "w"), indent=1)
    rows.append((sid, bool(rules), rules))
    print(sid, "DETECTED" if rules else "missed", rules)
json.dump([{"seed": a, "detected": b, "rules": c} for a, b, c in rows], open(f"/verif/seeded/SUMMARY{'-' + PREFIX.rstrip('-') if PREFIX else ''}.json", "w"), indent=1)
print(sum(1 for r in rows if r[1]), "/", len(rows))
# register as patch witnesses of the thorough tier
W = json.load(open("/verif/witnesses/witnesses.json"))
have = {w.get("patch") for w in W}
for sid, det, rules in rows:
    rel = f"seeded/{sid}/patch.diff"
    if det and rel not in have:
        prop = re.search(r"(C\d\d)", sid).group(1)
        W.append({"property": prop, "file": "", "expect": "", "patch": rel, "note": f"seeded change {sid} (independent sub-agent)"})
json.dump(W, open("/verif/witnesses/witnesses.json", "w"), indent=1)
