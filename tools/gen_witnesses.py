#!/usr/bin/env python3
"""Generates /verif/witnesses/witnesses.json: mutation witnesses used by the thorough tier
(checker self-validation). Each witness is a regexp edit (Go RE2 syntax, (?s) not implied)
of one source file that still compiles and breaks one rule; the analyzer, run on an
overlay of the edited file, must report a violation of a rule with the given suffix."""
import json, os
W = []
def w(prop, file, find, repl, expect, note=""):
    W.append({"property": prop, "file": file, "find": find, "replace": repl, "expect": expect, "note": note})

PR = "src/app/project_runner.go"; P = "src/app/process.go"
# ---- C01
w("C01", PR, r'if err = p\.waitIfNeeded\(proc\.procConf\); err != nil \{', 'if err = nil; err != nil {', "gate-dominates-run", "gate call dropped")
w("C01", PR, r'ready := proc\.waitUntilReady\(\)\n\t\t\t\tif !ready', 'ready := proc.waitForCompletion() == 0\n\t\t\t\tif !ready', "case-waits-on-right-latch", "healthy waits on completion")
w("C01", PR, r'if exitCode != 0 \{\n\t\t\t\t\treturn fmt\.Errorf\("process %s depended on %s to complete successfully', 'if exitCode < 0 {\n\t\t\t\t\treturn fmt.Errorf("process %s depended on %s to complete successfully', "case-waits-on-right-latch", "exit code test weakened")
w("C01", P, r'for !p\.done \{', 'if !p.done {', "wait-returns-only-when-released", "loop -> if")
w("C01", PR, r'if doneProc := p\.getDoneProcess\(name\); doneProc != nil \{\n\t\treturn doneProc\n\t\}\n', '', "lookup-both-registries", "done registry not consulted")
w("C01", PR, r'\tp\.addRunningProcess\(process\)\n\tp\.waitGroup\.Add\(1\)', '\tp.waitGroup.Add(1)\n\tdefer p.addRunningProcess(process)', "register-before-go", "registration after go")
w("C01", PR, r'\t\t\tproc\.wontRun\(\)\n\t\t\tp\.addDoneProcess\(proc\)\n', '\t\t\tproc.wontRun()\n', "skipped-is-findable", "F7 reintroduced")
# ---- C02
w("C02", P, r'(RestartPolicyAlways \{\n\t\tif p\.procConf\.RestartPolicy\.MaxRestarts == 0 \{\n\t\t\treturn true\n\t\t\}\n\t\treturn p\.procState\.Restarts) < ', '${1} <= ', "decision-table", "< -> <=")
w("C02", P, r'if p\.isStopped\.Swap\(false\) \{\n\t\treturn false\n\t\}', 'p.isStopped.Swap(false)', "decision-table", "stop flag ignored")
w("C02", P, r'if exitCode != 0 && p\.procConf\.RestartPolicy\.Restart == types\.RestartPolicyOnFailure', 'if p.procConf.RestartPolicy.Restart == types.RestartPolicyOnFailure', "decision-table", "on_failure restarts on success")
w("C02", P, r'backoff := 1\n', 'backoff := 0\n', "backoff-min-1s", "minimum back-off 0")
w("C02", P, r'\t\tp\.procState\.Restarts \+= 1\n', '', "restart-counter", "counter not incremented")
w("C02", P, r'case <-time\.After\(p\.getBackoff\(\)\):', 'case <-time.After(time.Second):', "wait-before-relaunch", "fixed wait")
w("C02", P, r'\tp\.prepareForShutDown\(\)\n\treturn p\.shutDown\(\)', '\treturn p.shutDown()', "stop-sets-flag-first", "flag not set by StopProcess path")
w("C02", P, r'\tif cancelReadinessFuncs \{\n\t\t// an internal stop[^\n]*\n[^\n]*\n\t\tp\.runCancelFn\(\)\n\t\}\n', '\tp.runCancelFn()\n', "internal-stop-keeps-policy", "F29 reintroduced")
# ---- C03
w("C03", P, r'\tif p\.isState\(types\.ProcessStateTerminating\) \{\n\t\treturn 0\n\t\}\n', '', "run-refuses-after-stop", "refusal removed")
w("C03", PR, r'\tp\.shutDownAndWait\(shutdownOrder\)\n\tp\.cancelAppFn\(\)', '\tp.runProcMutex.Unlock()\n\tp.shutDownAndWait(shutdownOrder)\n\tp.runProcMutex.Lock()\n\tp.cancelAppFn()', "snapshot-under-lock", "lock released during stop phase")
w("C03", PR, r'\t\t\twg\.Add\(1\)\n\t\t\tgo func\(pr \*Process\) \{\n\t\t\t\tpr\.waitForCompletion\(\)\n\t\t\t\twg\.Done\(\)\n\t\t\t\}\(proc\)', '\t\t\twg.Add(1)\n\t\t\tgo func(pr *Process) {\n\t\t\t\twg.Done()\n\t\t\t}(proc)', "every-instance-awaited", "waiter does not wait")
w("C03", P, r'if p\.isOneOfStates\(types\.ProcessStatePending\) \{', 'if p.isOneOfStates(types.ProcessStateDisabled) {', "stop-core-explicit-table", "pending not made terminal")
w("C03", PR, r'\tp\.waitGroup\.Wait\(\)\n\tlog\.Info\(\)\.Msg\("Project completed"\)', '\tlog.Info().Msg("Project completed")', "run-joins", "Run does not wait")
# ---- C04
w("C04", PR, r'\t\tp\.setExitCode\(exitCode\)\n\t\t_ = p\.ShutDownProject\(\)', '\t\t_ = p.ShutDownProject()\n\t\tp.setExitCode(exitCode)', "exitcode-first-writer", "F6 order reintroduced")
w("C04", PR, r'\tp\.exitCodeOnce\.Do\(func\(\) \{\n\t\tp\.exitCode = exitCode\n\t\}\)', '\tp.exitCode = exitCode', "exitcode-first-writer", "once guard removed")
w("C04", PR, r'p\.setExitCode\(1\)', 'p.setExitCode(0)', "trigger-table", "skip code 0")
w("C04", PR, r'\(exitCode != 0 && procConf\.RestartPolicy\.Restart == types\.RestartPolicyExitOnFailure\) \|\|', '(exitCode != 0 && procConf.RestartPolicy.Restart == types.RestartPolicyOnFailure) ||', "trigger-table", "wrong policy constant")
w("C04", P, r'\tp\.readyCancelFn\(\)\n\tp\.readyLogCancelFn\(fmt\.Errorf\("process %s ended"', '\tif p.readyProber != nil {\n\t\tp.readyCancelFn()\n\t}\n\tp.readyLogCancelFn(fmt.Errorf("process %s ended"', "latches-released-on-terminal", "F5b reintroduced")
w("C04", "src/cmd/root.go", r'os\.Exit\(exitErr\.Code\)', 'os.Exit(2)', "binary-exit-mapping", "exit code not propagated")
w("C04", PR, r'if p\.exitCode != 0 \{\n\t\terr = &ExitError\{p\.exitCode\}', 'if p.exitCode > 0 {\n\t\terr = &ExitError{p.exitCode}', "run-returns-exitcode", "negative codes dropped")
# ---- C05
w("C05", P, r'\tcase types\.ProcessStateError:\n\t\t// the command could not be started\n\t\tp\.setExitCode\(1\)\n', '', "nonzero-code-for-nonrun", "F27 reintroduced")
w("C05", PR, r'(log\.Error\(\)\.Msgf\("Error: process %s won.t run", proc\.getName\(\)\)\n)\t\t\tproc\.wontRun\(\)\n', '${1}', "error-means-skip-not-run", "skipped not marked")
# ---- C06
w("C06", "src/command/stopper_unix.go", r'syscall\.Kill\(-pgid,', 'syscall.Kill(pgid,', "kill-group", "signal to leader only")
w("C06", "src/command/stopper_unix.go", r'sig < min_sig \|\| sig > max_sig', 'sig < min_sig || sig >= max_sig', "kill-group", "signal 31 rejected")
w("C06", P, r'\tcase errors\.Is\(err, context\.Canceled\):\n\t\treturn nil\n\tcase errors\.Is\(err, context\.DeadlineExceeded\):', '\tcase errors.Is(err, context.Canceled), errors.Is(err, context.DeadlineExceeded):', "sigkill-only-after-deadline", "SIGKILL on cancel")
w("C06", P, r'time\.Duration\(p\.procConf\.ShutDownParams\.ShutDownTimeout\)\*time\.Second\)\n\tp\.mtxStopFn\.Unlock', 'time.Duration(p.procConf.ShutDownParams.ShutDownTimeout)*time.Millisecond)\n\tp.mtxStopFn.Unlock', "sigkill-only-after-deadline", "timeout unit")
w("C06", "src/command/stopper_unix.go", r'Setpgid: true', 'Setpgid: false', "pgid-before-start", "no process group")
w("C06", P, r'\tcmd\.SetEnv\(p\.getProcessEnvironment\(\)\)\n\tcmd\.SetDir', '\tcmd.SetDir', "shutdown-command-context", "shutdown command without env")
w("C06", "src/cmd/project_runner.go", r'signal\.Notify\(cancelChan, syscall\.SIGTERM, os\.Interrupt, syscall\.SIGHUP\)', 'signal.Notify(cancelChan, syscall.SIGTERM, os.Interrupt)', "signal-handlers", "SIGHUP dropped")
w("C06", P, r'p\.command\.Stop\(p\.procConf\.ShutDownParams\.Signal, p\.procConf\.ShutDownParams\.ParentOnly\)', 'p.command.Stop(p.procConf.ShutDownParams.Signal, false)', "configured-signal-used", "parent_only ignored")
# ---- C07
w("C07", "src/loader/loader.go", r'\t\tvalidateNoCircularDependencies,\n', '', "validators-registered", "cycle validator unregistered")
w("C07", "src/types/process.go", r'return p\.IsForeground \|\| p\.Disabled', 'return p.Disabled', "autostart-guard", "foreground not deferred")
w("C07", PR, r'if _, ok := newProcMap\[name\]; !ok \{', 'if _, ok := newProcMap[name]; ok {', "selection-marks-others-disabled", "selection inverted")
w("C07", "src/loader/loader.go", r'\t\t\t\tdelete\(p\.Processes, process\.ReplicaName\)\n', '', "namespace-admission", "rejected process kept")
w("C07", PR, r'\tif !proc\.IsDeferred\(\) \{\n\t\tp\.runProcess\(&proc\)\n\t\}', '\tp.runProcess(&proc)', "autostart-guard", "added process always started")
w("C07", "src/types/project.go", r'\t\tif done\[process\.ReplicaName\] \{\n\t\t\tcontinue\n\t\t\}\n', '', "traversal-postorder", "visited test removed")
# ---- C08
w("C08", PR, r'\t\tproc\.waitForCompletion\(\)\n\t\ttime\.Sleep', '\t\ttime.Sleep', "restart-awaits-exit", "F16 reintroduced")
w("C08", PR, r'ok && current == process \{', 'ok && current != nil {', "identity-guarded-removal", "F17 reintroduced")
w("C08", PR, r'(p\.runProcess\(&processConfig\)\n\t\} else \{\n\t\t)return fmt\.Errorf\("no such process: %s", name\)(\n\t\}\n\n\treturn nil)', '${1}log.Error().Msgf("no such process: %s", name)${2}', "unknown-name-no-effect", "unknown start succeeds")
# ---- C09
w("C09", P, r'return p\.isOneOfStates\(types\.ProcessStateRunning, types\.ProcessStateLaunched, types\.ProcessStateLaunching\)', 'return p.isOneOfStates(types.ProcessStateRunning, types.ProcessStateLaunched, types.ProcessStateRestarting)', "isrunning-table", "running class wrong")
w("C09", P, r'\tp\.onProcessEnd\(types\.ProcessStateCompleted\)\n\treturn p\.getExitCode\(\)', '\tp.setState(types.ProcessStateCompleted)\n\treturn p.getExitCode()', "status-assignment-contexts", "terminal state without terminal function")
w("C09", P, r'\t\t_ = p\.command\.Wait\(\)\n\t\tp\.Lock\(\)\n\t\tp\.setExitCode\(p\.command\.ExitCode\(\)\)\n\t\tp\.Unlock\(\)', '\t\tp.Lock()\n\t\tp.setExitCode(p.command.ExitCode())\n\t\tp.Unlock()\n\t\t_ = p.command.Wait()', "exitcode-provenance", "exit code before Wait")
w("C09", P, r'func \(p \*Process\) setState\(state string\) \{\n\tp\.stateMtx\.Lock\(\)\n\tdefer p\.stateMtx\.Unlock\(\)', 'func (p *Process) setState(state string) {', "status-writers", "Status without stateMtx")
w("C09", P, r'\tcase types\.ProcessStateRestarting:\n\t\tfallthrough\n', '', "health-reset", "health kept on restart")
# ---- C10
w("C10", "src/health/probe.go", r'if p\.PeriodSeconds < 1 \{', 'if p.PeriodSeconds < 0 {', "effective-params-legal", "period 0 accepted")
w("C10", "src/health/probe.go", r'p\.NumPort < 1 \|\| p\.NumPort > 65535', 'p.NumPort < 1 || p.NumPort > 65536', "effective-params-legal", "port 65536")
w("C10", "src/health/health_checks.go", r'state\.ContiguousFailures == int64\(p\.probe\.FailureThreshold\)', 'state.ContiguousFailures > int64(p.probe.FailureThreshold)', "callback-table", "fatal one failure late")
w("C10", "src/health/health_checks.go", r'\tif p\.stopped\.Load\(\) \{\n\t\treturn\n\t\}\n\tp\.onCheckEndFunc', '\tp.onCheckEndFunc', "callback-table", "delivered after Stop")
w("C10", P, r'\t\t_ = p\.internalStop\(\)\n', '', "callback-table", "fatal readiness does not stop")
w("C10", "src/health/health_checks.go", r'\tprobe\.ValidateAndSetDefaults\(\)\n\tp := &Prober\{', '\tdefer probe.ValidateAndSetDefaults()\n\tp := &Prober{', "validated-before-use", "validation after copy")
w("C10", P, r'\t\t\tp\.waitForDaemonCompletion\(\)\n\t\t\}', '\t\t\tp.waitForDaemonCompletion()\n\t\t\tbreak\n\t\t}', "liveness-ends-daemon", "no restart decision after daemon death")
# ---- C11
w("C11", P, r'\t\tp\.waitForStdOutErr\(\)\n\t\t_ = p\.command\.Wait\(\)', '\t\t_ = p.command.Wait()\n\t\tp.waitForStdOutErr()', "drain-before-wait", "Wait before drain")
w("C11", P, r'if len\(line\) > 0 \{', 'if len(line) > 1 {', "partial-line-delivered", "one-byte lines dropped")
w("C11", "src/pclog/logger_facade.go", r'\t\tl\.wg\.Wait\(\)\n\t\tl\.writer\.Flush\(\)', '\t\tl.writer.Flush()\n\t\tl.wg.Wait()', "logger-close-order", "flush before collector finished")
# ---- C12
w("C12", PR, r'\t\t\t\treverseDependencies\[runningProc\.getName\(\)\]\[process\.getName\(\)\] = process\n', '', "revdeps-complete", "dependent not recorded")
w("C12", PR, r'\t\t\t\t\t\tpr\.waitForCompletion\(\)\n\t\t\t\t\t\twaitForDepsWg\.Done\(\)', '\t\t\t\t\t\twaitForDepsWg.Done()', "wait-dependents-before-stop", "waiter does not wait")
w("C12", PR, r'\t\tslices\.Reverse\(shutdownOrder\)\n', '\t\tif len(shutdownOrder) > 5 {\n\t\t\tslices.Reverse(shutdownOrder)\n\t\t}\n', "order-source", "reverse only for long lists")
# ---- C13
w("C13", PR, r'if scale < 1 \{', 'if scale < 0 {', "validate-before-mutate", "scale 0 accepted")
w("C13", PR, r'if proc\.ReplicaNum >= scale \{', 'if proc.ReplicaNum > scale {', "remove-decision", "off by one")
w("C13", PR, r'procFromConf\.ReplicaNum = origScale \+ i\n', 'procFromConf.ReplicaNum = origScale + i + 1\n', "scale-up-numbering", "numbering off by one")
w("C13", PR, r'\t\tprocFromConf\.AssignProcessExecutableAndArgs\(p\.project\.ShellConfig, p\.project\.GetElevatedShellArg\(\)\)\n', '', "same-pipeline-as-loader", "no executable assigned")
w("C13", PR, r'\tlogs := p\.removeProcessLogs\(name\)\n\tif logs != nil \{\n\t\tp\.processLogs\[newName\] = logs\n\t\}\n', '', "maps-in-step", "rename loses logs")
w("C13", "src/types/process.go", r'math\.Log10\(float64\(p\.Replicas\)\)', 'math.Log10(float64(p.ReplicaNum+1))', "name-function-pure", "width from replica number")
# ---- C14
w("C14", "src/types/process.go", r'\t\tp\.WorkingDir != another\.WorkingDir \|\|\n', '', "compare-covers-launch-fields", "working dir not compared")
w("C14", PR, r'(equal := currentProc\.Compare\(&newProc\)\n\t\t\tif equal \{\n\t\t\t\tlog\.Debug\(\)\.Msgf\("Process %s is up to date", name\)\n)\t\t\t\tcontinue\n', '${1}', "classification", "unchanged still updated")
w("C14", PR, r'status\[name\] = types\.ProcessUpdateRemoved', 'status[name] = types.ProcessUpdateUpdated', "classification", "wrong status constant")
# ---- C15
w("C15", "src/loader/merger.go", r'kv := strings\.SplitN\(v, "=", 2\)', 'kv := strings.Split(v, "=")', "env-split-first-separator", "F3 reintroduced")
w("C15", "src/loader/merger.go", r'mergo\.Map\(&dstMap, srcMap, mergo\.WithOverride\)', 'mergo.Map(&dstMap, srcMap)', "merge-options", "env merge does not override")
w("C15", "src/loader/merger.go", r'\t\t\tcontinue\n\t\t\}\n\t\tbase\[name\] = overrideProcess\n', '\t\t\tcontinue\n\t\t}\n', "no-loss-of-base-processes", "override-only process dropped")
w("C15", "src/loader/loader.go", r'opts\.projects = slices\.Insert\(opts\.projects, index, project\)', 'opts.projects = slices.Insert(opts.projects, index+1, project)', "extends-order", "parent after child")
# ---- C16
w("C16", "src/loader/loader.go", r'\t\tassignDefaultProcessValues,\n\t\tcloneReplicas,\n', '\t\tcloneReplicas,\n\t\tassignDefaultProcessValues,\n', "pipeline-order", "clone before defaults")
w("C16", "src/loader/mutators.go", r'if proc\.Replicas < 1 \{', 'if proc.Replicas == 0 {', "defaults-ranges", "F10 reintroduced")
w("C16", "src/health/probe.go", r'\tif p\.HttpGet != nil \{\n\t\thttpGet := \*p\.HttpGet\n\t\tcp\.HttpGet = &httpGet\n\t\}\n', '', "replica-owns-references", "shallow probe copy")
w("C16", "src/templater/templater.go", r'proc\.LogLocation = t\.RenderWithExtraVars\(proc\.LogLocation, proc\.Vars\)', 'proc.LogLocation = t.RenderWithExtraVars(proc.WorkingDir, proc.Vars)', "render-coverage", "wrong template text")
# ---- C17
w("C17", "src/loader/loader.go", r'err = yaml\.Unmarshal\(yamlFile, project\)', 'err = yaml.Unmarshal([]byte(temp), project)', "escape-expand-order", "raw parse uses expanded text")
w("C17", P, r'\tenv = append\(env, p\.globalEnv\.\.\.\)\n\tenv = append\(env, p\.procConf\.Environment\.\.\.\)', '\tenv = append(env, p.procConf.Environment...)\n\tenv = append(env, p.globalEnv...)', "env-layer-order", "global overrides per-process")
w("C17", P, r'\t\tp\.command\.SetDir\(p\.procConf\.WorkingDir\)\n', '', "env-dir-before-start", "working dir not set")
# ---- C18
w("C18", "src/pclog/process_log_buffer.go", r'return b\.buffer\[start : start\+limit\]', 'return b.buffer[start : offsetFromEnd+limit]', "range-bounds", "F1 reintroduced")
w("C18", "src/pclog/process_log_buffer.go", r'limit < 1 \|\| limit > offsetFromEnd', 'limit < 0 || limit > offsetFromEnd', "range-window", "limit 0 returns nothing")
w("C18", "src/pclog/process_log_buffer.go", r'if len\(b\.buffer\) > b\.size\+slack \{', 'if len(b.buffer) > b.size*slack {', "buffer-bounded", "buffer effectively unbounded")
# ---- C19
w("C19", "src/api/routes.go", r'r\.PATCH\("/process/stop/:name"', 'r.POST("/process/stop/:name"', "route-handler-op", "verb changed")
w("C19", "src/api/pc_api.go", r'err := api\.project\.RestartProcess\(name\)', 'err := api.project.StartProcess(name)', "route-handler-op", "wrong operation")
w("C19", "src/client/restart.go", r'process/restart/%s', 'process/start/%s', "client-mirrors-route", "client path")
w("C19", "src/api/pc_api.go", r'api\.project\.GetProcessLog\(name, endOffset, limit\)', 'api.project.GetProcessLog(name, limit, endOffset)', "route-handler-op", "parameters swapped")
w("C19", "src/client/common.go", r'json:"error"', 'json:"err"', "wire-types-agree", "error tag")
w("C19", "src/api/pc_api.go", r'(err := api\.project\.StopProcess\(name\)\n\tif err != nil \{\n\t\tc\.JSON\(http\.StatusBadRequest, gin\.H\{"error": err\.Error\(\)\}\)\n)\t\treturn\n', '${1}', "errors-are-4xx", "missing return")
# ---- C20
w("C20", PR, r'(func \(p \*ProjectRunner\) getRunningProcess\(name string\) \*Process \{\n)\tp\.runProcMutex\.Lock\(\)\n\tdefer p\.runProcMutex\.Unlock\(\)\n', '${1}', "guarded-access", "registry read without lock")
w("C20", PR, r'(func \(p \*ProjectRunner\) addDoneProcess\(process \*Process\) \{\n\tp\.doneProcMutex\.Lock\(\)\n)', '${1}\tp.runProcMutex.Lock()\n\tp.runProcMutex.Unlock()\n', "lock-order-acyclic", "lock order inversion part 1 (with next witness semantics: single edit creates done->run while run->done absent)", )
os.makedirs("/verif/witnesses", exist_ok=True)
# the last C20 witness needs both edits; express as one multi-edit witness
W[-1] = {"property": "C20", "file": PR, "expect": "lock-order-acyclic", "note": "lock order inversion",
         "edits": [
            {"find": r'(func \(p \*ProjectRunner\) addDoneProcess\(process \*Process\) \{\n\tp\.doneProcMutex\.Lock\(\)\n)', "replace": '${1}\tp.runProcMutex.Lock()\n\tp.runProcMutex.Unlock()\n'},
            {"find": r'(func \(p \*ProjectRunner\) removeRunningProcess\(process \*Process\) \{\n\tp\.runProcMutex\.Lock\(\)\n)', "replace": '${1}\tp.doneProcMutex.Lock()\n\tp.doneProcMutex.Unlock()\n'}]}
# keep the seeded-change witnesses that tools/keep_seeds registered
try:
    old = json.load(open("/verif/witnesses/witnesses.json"))
    W += [x for x in old if x.get("patch")]
except Exception:
    pass
json.dump(W, open("/verif/witnesses/witnesses.json", "w"), indent=1)
print(len(W), "witnesses")
