#!/usr/bin/env python3
"""Developer experiment (DESIGN.md 12.8): applies each syntactic mutant produced by bin/mutgen in a scratch worktree
of /repo (under /tmp/mutwt, removed afterwards), keeps those that compile and pass the 211 tests, and runs all 20
checks on the survivors. Output: one JSON line per mutant in /tmp/mutres.jsonl.
Usage: mutrun.py <mutants.jsonl> [workers]"""
import json, os, re, subprocess, sys, shutil, threading, queue, concurrent.futures
ENV = dict(os.environ, GOFLAGS="-mod=mod", GOPROXY="off", GOSUMDB="off", GOTOOLCHAIN="local")
def sh(cmd, cwd=None, timeout=900):
    try:
        p = subprocess.run(cmd, shell=True, cwd=cwd, env=ENV, stdout=subprocess.PIPE, stderr=subprocess.STDOUT, timeout=timeout)
        return p.returncode, p.stdout.decode(errors="replace")
    except subprocess.TimeoutExpired:
        return 124, "timeout"
muts = [json.loads(l) for l in open(sys.argv[1])]
NW = int(sys.argv[2]) if len(sys.argv) > 2 else 6
done = set()
OUT = "/tmp/mutres.jsonl"
if os.path.exists(OUT):
    for l in open(OUT):
        done.add(json.loads(l)["id"])
props = [c["property_id"] for c in json.load(open("/verif/MANIFEST.json"))["checks"]]
wts = queue.Queue()
os.makedirs("/tmp/mutwt", exist_ok=True)
for i in range(NW):
    wt = f"/tmp/mutwt/{i}"
    if not os.path.exists(wt):
        sh(f"git -C /repo worktree add --detach {wt} HEAD")
    sh("git checkout -- . && git clean -fdq src", cwd=wt)
    wts.put(wt)
lock = threading.Lock()
def one(m):
    if m["id"] in done:
        return
    wt = wts.get()
    res = {"id": m["id"], "file": m["file"], "line": m["line"], "kind": m["kind"], "func": m["func"]}
    try:
        path = os.path.join(wt, m["file"])
        src = open(path, "rb").read()
        new = src[:m["start"]] + m["repl"].encode() + src[m["end"]:]
        res["orig"] = src[m["start"]:m["end"]].decode(errors="replace")[:120]
        open(path, "wb").write(new)
        rc, o = sh("go build ./... 2>&1 | head -3", cwd=wt)
        rc, o2 = sh("go vet ./" + os.path.dirname(m["file"]) + "/ 2>&1 | head -3", cwd=wt)
        rc, o = sh("go build ./...", cwd=wt)
        if rc != 0:
            res["status"] = "no-compile"; return
        rc, o = sh("go test -vet=off -count=1 -timeout 10m ./...", cwd=wt, timeout=700)
        if rc != 0:
            res["status"] = "killed-by-tests"; return
        res["status"] = "survived-tests"
        vdir = wt + "-verif"; os.makedirs(vdir, exist_ok=True); shutil.copy("/verif/known_findings.jsonl", vdir)
        fired = {}
        def chk(pid):
            rc, o = sh(f"/verif/bin/pcverif check {pid} --repo {wt} --verif {vdir}")
            rules = sorted(set(re.findall(r"violated (\S+)", o)))
            brk = [l[:160] for l in o.splitlines() if "CHECK-BROKEN" in l]
            return pid, rules, brk
        with concurrent.futures.ThreadPoolExecutor(max_workers=4) as ex:
            for pid, rules, brk in ex.map(chk, props):
                if rules: fired[pid] = rules
                if brk: fired.setdefault(pid, []).append("BROKEN:" + brk[0])
        res["fired"] = fired
        shutil.rmtree(vdir, ignore_errors=True)
    except Exception as e:
        res["status"] = "error"; res["err"] = str(e)[:200]
    finally:
        sh("git checkout -- . && git clean -fdq src", cwd=wt)
        wts.put(wt)
        with lock:
            with open(OUT, "a") as f:
                f.write(json.dumps(res) + "\n")
with concurrent.futures.ThreadPoolExecutor(max_workers=NW) as ex:
    list(ex.map(one, muts))
for i in range(NW):
    sh(f"git -C /repo worktree remove --force /tmp/mutwt/{i}")
print("done")
