#!/usr/bin/env python3
"""Developer experiment (DESIGN.md 12.8): applies each syntactic mutant produced by bin/mutgen in a scratch worktree
of /repo (under /tmp/mutwt, removed afterwards), keeps those that compile and pass the 211 tests, and runs all 20
checks on the survivors. Output: one JSON line per mutant in /tmp/mutres.jsonl.
Usage: mutrun.py <mutants.jsonl> [workers]"""
import json, os, re, subprocess, sys, shutil, threading, queue, concurrent.futures
ENV = dict(os.environ, GOFLAGS="-mod=mod", GOPROXY="off", GOSUMDB="off", GOTOOLCHAIN="local")
def sh(cmd, cwd=None, timeout=900):
    # own session: a mutant can make the tests signal their whole process group
    import signal
    p = subprocess.Popen(cmd, shell=True, cwd=cwd, env=ENV, stdout=subprocess.PIPE, stderr=subprocess.STDOUT, start_new_session=True)
    try:
        out, _ = p.communicate(timeout=timeout)
        return p.returncode, out.decode(errors="replace")
    except subprocess.TimeoutExpired:
        try:
            os.killpg(p.pid, signal.SIGKILL)
        except Exception:
            pass
        p.communicate()
        return 124, "timeout"
muts = [json.loads(l) for l in open(sys.argv[1])]
ORDER = {"drop-call": 0, "drop-defer": 0, "continue-to-break": 0, "swallow-error": 1, "drop-field-assign": 1, "negate-if": 2, "binop": 3}
muts.sort(key=lambda m: (ORDER.get(m["kind"], 9), m["id"]))
NW = int(sys.argv[2]) if len(sys.argv) > 2 else 6
done = set()
OUT = "/tmp/mutres.jsonl"
if os.path.exists(OUT):
    for l in open(OUT):
        done.add(json.loads(l)["id"])
props = [c["property_id"] for c in json.load(open("/verif/MANIFEST.json"))["checks"]]
wts = queue.Queue()
os.makedirs("/tmp/mutwt", exist_ok=True)
for i in range(NW):
    wt = f"/tmp/mutwt/{i}"
    if not os.path.exists(wt):
        sh(f"git -C /repo worktree add --detach {wt} HEAD")
    sh("git checkout -- . && git clean -fdq src", cwd=wt)
    wts.put(wt)
lock = threading.Lock()
def one(m):
    if m["id"] in done:
        return
    wt = wts.get()
    res = {"id": m["id"], "file": m["file"], "line": m["line"], "kind": m["kind"], "func": m["func"]}
    try:
        path = os.path.join(wt, m["file"])
        src = open(path, "rb").read()
        new = src[:m["start"]] + m["repl"].encode() + src[m["end"]:]
        res["orig"] = src[m["start"]:m["end"]].decode(errors="replace")[:120]
        open(path, "wb").write(new)
        rc, o = sh("go build ./... 2>&1 | head -3", cwd=wt)
        rc, o2 = sh("go vet ./" + os.path.dirname(m["file"]) + "/ 2>&1 | head -3", cwd=wt)
        rc, o = sh("go build ./...", cwd=wt)
        if rc != 0:
            res["status"] = "no-compile"; return
        rc, o = sh("go test -vet=off -count=1 -timeout 10m ./...", cwd=wt, timeout=700)
        if rc != 0:
            res["status"] = "killed-by-tests"; return
        res["status"] = "survived-tests"
        vdir = wt + "-verif"; os.makedirs(vdir, exist_ok=True); shutil.copy("/verif/known_findings.jsonl", vdir)
        fired = {}
        rc, o = sh(f"/verif/bin/pcverif checkall --repo {wt} --verif {vdir}")
        for l in o.splitlines():
            m2 = re.match(r"(C\d\d) (.*)", l)
            if m2:
                fired.setdefault(m2.group(1), []).append(m2.group(2)[:160])
        res["fired"] = fired
        shutil.rmtree(vdir, ignore_errors=True)
    except Exception as e:
        res["status"] = "error"; res["err"] = str(e)[:200]
    finally:
        sh("git checkout -- . && git clean -fdq src", cwd=wt)
        wts.put(wt)
        with lock:
            with open(OUT, "a") as f:
                f.write(json.dumps(res) + "\n")
with concurrent.futures.ThreadPoolExecutor(max_workers=NW) as ex:
    list(ex.map(one, muts))
for i in range(NW):
    sh(f"git -C /repo worktree remove --force /tmp/mutwt/{i}")
print("done")
