package pcv

import (
	"fmt"
	"os"
	"path/filepath"
	"regexp"
	"strings"
)

// ApplyUnifiedDiff applies a `git diff` to the files under root in memory and
// returns the new contents keyed by absolute path. Hunks must match exactly;
// otherwise an error is returned (the tree has moved on: not applicable).
func ApplyUnifiedDiff(root string, diff string) (map[string][]byte, error) {
	out := map[string][]byte{}
	lines := strings.Split(diff, "\n")
	hunkRe := regexp.MustCompile(`^@@ -(\d+)(?:,(\d+))? \+(\d+)(?:,(\d+))? @@`)
	var file string
	var src []string
	var dst []string
	pos := 0 // next source line (0-based) not yet copied
	flush := func() {
		if file == "" {
			return
		}
		dst = append(dst, src[pos:]...)
		out[filepath.Join(root, file)] = []byte(strings.Join(dst, "\n"))
	}
	for i := 0; i < len(lines); i++ {
		l := lines[i]
		switch {
		case strings.HasPrefix(l, "diff --git "):
			flush()
			file, src, dst, pos = "", nil, nil, 0
		case strings.HasPrefix(l, "+++ "):
			name := strings.TrimPrefix(l, "+++ ")
			if name == "/dev/null" {
				return nil, fmt.Errorf("file deletion not supported")
			}
			name = strings.TrimPrefix(name, "b/")
			file = name
			data, err := os.ReadFile(filepath.Join(root, file))
			if err != nil {
				if strings.HasPrefix(lines[i-1], "--- /dev/null") {
					src = nil
				} else {
					return nil, err
				}
			} else {
				src = strings.Split(string(data), "\n")
			}
			dst, pos = nil, 0
		case strings.HasPrefix(l, "@@ "):
			m := hunkRe.FindStringSubmatch(l)
			if m == nil || file == "" {
				return nil, fmt.Errorf("bad hunk header %q", l)
			}
			var start int
			fmt.Sscanf(m[1], "%d", &start)
			if start > 0 {
				start--
			}
			if start < pos || start > len(src) {
				return nil, fmt.Errorf("hunk out of order in %s", file)
			}
			dst = append(dst, src[pos:start]...)
			pos = start
			for i+1 < len(lines) {
				h := lines[i+1]
				if strings.HasPrefix(h, "@@ ") || strings.HasPrefix(h, "diff --git ") {
					break
				}
				i++
				if h == "" && i == len(lines)-1 {
					break
				}
				if strings.HasPrefix(h, "\\") {
					continue
				}
				tag, body := byte(' '), ""
				if len(h) > 0 {
					tag, body = h[0], h[1:]
				}
				switch tag {
				case ' ':
					if pos >= len(src) || src[pos] != body {
						return nil, fmt.Errorf("context mismatch in %s near line %d", file, pos+1)
					}
					dst = append(dst, body)
					pos++
				case '-':
					if pos >= len(src) || src[pos] != body {
						return nil, fmt.Errorf("removed line mismatch in %s near line %d", file, pos+1)
					}
					pos++
				case '+':
					dst = append(dst, body)
				default:
					// index / mode lines inside a hunk cannot occur
				}
			}
		}
	}
	flush()
	if len(out) == 0 {
		return nil, fmt.Errorf("no file changed by the diff")
	}
	return out, nil
}
