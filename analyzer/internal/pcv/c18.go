package pcv

import (
	"go/token"
	"fmt"
	"go/types"

	"golang.org/x/tools/go/ssa"
)

func init() {
	register(&PropCheck{
		ID: "C18",
		Explanation: "Log window and subscription, structural part: (1) for all int arguments and all buffer lengths every slice expression of the range function satisfies 0 <= lo <= hi <= len " +
			"(linear-inequality abstract interpretation with joins), and the returned window obeys lo = len - clamp(offset,0,len), hi = len when limit < 1, hi - lo = min(limit, len - lo) when limit >= 1; " +
			"(2) the buffer is stored only by the writer and the constructor, len <= size + slack is inductive over Write (assuming size >= 0) and a trim keeps at least size lines; " +
			"(3) snapshot and observer registration happen in one critical section of mx, append and fan-out in one critical section of the same mutex; " +
			"(4) no observer callback reachable under mx may block indefinitely; (5) every access to buffer/observers holds mx.",
		Assumptions: []string{
			"log_length (size) >= 0: the loader does not validate it; a negative value is outside the property",
			"exactly-once delivery over the network and behaviour of stalled clients in time are not decided",
		},
		Run: runC18,
	})
}

func runC18(c *Ctx) {
	p := c.P
	s := p.Selectors()
	lbT := p.Named("pclog", "ProcessLogBuffer")
	fBuffer := p.Field("pclog", "ProcessLogBuffer", "buffer")
	fObs := p.Field("pclog", "ProcessLogBuffer", "observers")
	fMx := p.Field("pclog", "ProcessLogBuffer", "mx")
	fSize := p.Field("pclog", "ProcessLogBuffer", "size")
	_ = fSize

	// range functions: methods (int,int) []string that slice the buffer
	var rangeFns, exported []*ssa.Function
	for _, f := range p.FuncsOfPkg("pclog") {
		if !recvIs(f, lbT) || f.Parent() != nil {
			continue
		}
		sig := f.Signature
		if sig.Params().Len() != 2 || sig.Results().Len() != 1 || !isIntType(sig.Params().At(0).Type()) || !isIntType(sig.Params().At(1).Type()) || !isSliceType(sig.Results().At(0).Type()) {
			continue
		}
		if f.Object() != nil && f.Object().Exported() {
			exported = append(exported, f)
		}
		slices := FindInstrs(f, func(in ssa.Instruction) bool {
			sl, ok := in.(*ssa.Slice)
			return ok && PathOf(sl.X).LastField() == fBuffer
		})
		if len(slices) > 0 {
			rangeFns = append(rangeFns, f)
		}
	}
	rB := c.Rule("range-bounds", "in the range function, for all int arguments and every buffer length, each slice expression over the buffer satisfies 0 <= lo <= hi <= len (so a range request can never panic)")
	rWin := c.Rule("range-window", "the slice returned by the range function is buffer[lo:hi] with lo = len - clamp(offset,0,len); hi = len when limit < 1; hi - lo = limit when 1 <= limit <= len - lo; hi = len when limit >= len - lo")
	if len(rangeFns) == 0 {
		c.Bad(rB, "range-function", "", "no range function (two int parameters, slices the buffer) found")
	}
	for _, f := range rangeFns {
		c.Touch(f)
		lenV := TVar(CellLen("p0." + fBuffer.Name()))
		off, lim := TVar("param:1"), TVar("param:2")
		base := []Lin{LE(TConst(0), lenV)}
		a := &LinAnalysis{P: p, Fn: f, Assume: base}
		a.Run()
		n := 0
		for _, o := range a.Obligations {
			n++
			c.Check(o.OK, rB, fmt.Sprintf("%s:slice#%d", p.FuncKey(f), n), p.InstrPos(o.Instr), o.What+" proved for all inputs",
				"cannot prove "+o.What+" for all (offset, limit, len): a range request can panic (index out of range) and the REST handler answers 500")
		}
		if n == 0 {
			c.Bad(rB, p.FuncKey(f)+":no-slices", FirstPos(p, f), "no slice obligations found")
		}
		// window facts, each under an entry assumption
		type fact struct {
			name   string
			assume []Lin
			check  func(st *LinState, r RetSlice) bool
		}
		facts := []fact{
			{"offset<=0 => lo=len", []Lin{LE(off, TConst(0))}, func(st *LinState, r RetSlice) bool { return st.EntailsEq(r.Lo, lenV) }},
			{"offset>=len => lo=0", []Lin{LE(lenV, off)}, func(st *LinState, r RetSlice) bool { return st.EntailsEq(r.Lo, TConst(0)) }},
			{"0<=offset<=len => lo=len-offset", []Lin{LE(TConst(0), off), LE(off, lenV)}, func(st *LinState, r RetSlice) bool { return st.EntailsEq(r.Lo, lenV.Sub(off)) }},
			{"limit<1 => hi=len", []Lin{LE(lim, TConst(0))}, func(st *LinState, r RetSlice) bool { return st.EntailsEq(r.Hi, lenV) }},
			{"1<=limit<=offset<=len => hi-lo=limit", []Lin{LE(TConst(1), lim), LE(lim, off), LE(off, lenV)}, func(st *LinState, r RetSlice) bool { return st.EntailsEq(r.Hi.Sub(r.Lo), lim) }},
			{"limit>=1, limit>=offset, 0<=offset<=len => hi=len", []Lin{LE(TConst(1), lim), LE(off, lim), LE(TConst(0), off), LE(off, lenV)}, func(st *LinState, r RetSlice) bool { return st.EntailsEq(r.Hi, lenV) }},
			{"limit>=1, offset>len, limit<=len => hi-lo=limit", []Lin{LE(TConst(1), lim), LT(lenV, off), LE(lim, lenV)}, func(st *LinState, r RetSlice) bool { return st.EntailsEq(r.Hi.Sub(r.Lo), lim) }},
		}
		for _, fc := range facts {
			fa := &LinAnalysis{P: p, Fn: f, Assume: append(append([]Lin{}, base...), fc.assume...)}
			fa.Run()
			ok := true
			nRet := 0
			var pos ssa.Instruction
			for ret, st := range fa.ReturnStates {
				if !st.Feasible() {
					continue
				}
				nRet++
				r := fa.ReturnSlices[ret]
				if !r.Known {
					// not a slice of the buffer: only acceptable when it is empty and the buffer is empty
					if !(st.EntailsEq(r.Hi, TConst(0)) && st.EntailsEq(lenV, TConst(0))) {
						ok = false
						pos = ret
					}
					continue
				}
				if !fc.check(st, r) {
					ok = false
					pos = ret
				}
			}
			ps := FirstPos(p, f)
			if pos != nil {
				ps = p.InstrPos(pos)
			}
			c.Check(ok && nRet > 0, rWin, p.FuncKey(f)+":"+fc.name, ps, "window fact proved", "cannot prove the window fact '"+fc.name+"': the range function returns the wrong window for some (offset, limit, len)")
		}
	}
	// the exported entry passes its arguments through
	for _, e := range exported {
		isRange := false
		for _, r := range rangeFns {
			if r == e {
				isRange = true
			}
		}
		if isRange {
			continue
		}
		ok := false
		AllInstrs(e, func(in ssa.Instruction) {
			call, isCall := in.(*ssa.Call)
			if !isCall {
				return
			}
			for _, r := range rangeFns {
				if call.Call.StaticCallee() == r {
					args := ArgsOf(&call.Call)
					if len(args) == 2 && args[0] == ssa.Value(e.Params[1]) && args[1] == ssa.Value(e.Params[2]) {
						ok = true
					}
				}
			}
		})
		// every returned value originates in the range function
		for _, ret := range returnsOf(e) {
			srcs, _ := p.Sources(RetVals(ret)[0])
			for _, l := range srcs {
				in, isInstr := l.(ssa.Instruction)
				from := false
				if isInstr {
					for _, r := range rangeFns {
						if in.Parent() == r {
							from = true
						}
					}
				}
				if !from {
					ok = false
				}
			}
		}
		c.Check(ok, rWin, p.FuncKey(e)+":pass-through", FirstPos(p, e), "exported range entry passes (offset, limit) through unchanged", "the exported range function does not hand (offset, limit) unchanged to the range function")
	}

	// ------------------------------------------------------------------ (2)
	rBuf := c.Rule("buffer-bounded", "buffer is stored only by the writer and the constructor; assuming size >= 0 and len <= size+slack at entry, the writer re-establishes len <= size+slack at every return, its trim keeps at least size lines and its slice expressions are in bounds")
	ctor := p.Func("pclog", "NewLogBuffer")
	var writers []*ssa.Function
	for _, f := range p.Funcs {
		if len(DirectSites(f, StoreTo("buffer", fBuffer))) == 0 {
			continue
		}
		if f == ctor {
			continue
		}
		// the writer: a method whose stores to the buffer are append(buffer, ...) or re-slices of the buffer
		isWriter := recvIs(f, lbT)
		for _, in := range DirectSites(f, StoreTo("buffer", fBuffer)) {
			v, _ := StoredValue(in, fBuffer)
			okV := false
			switch y := stripConv(v).(type) {
			case *ssa.Call:
				if b, isB := y.Call.Value.(*ssa.Builtin); isB && b.Name() == "append" && len(y.Call.Args) > 0 && PathOf(y.Call.Args[0]).LastField() == fBuffer {
					okV = true
				}
			case *ssa.Slice:
				okV = true
			}
			if !okV {
				isWriter = false
			}
		}
		c.Check(isWriter, rBuf, "buffer-writer:"+p.FuncKey(f), FirstPos(p, f), "buffer stored by the writer", "the log buffer is replaced outside the writer/constructor")
		if isWriter {
			writers = append(writers, f)
		}
	}
	if len(writers) == 0 {
		c.Bad(rBuf, "buffer-writer:none", "", "no writer method stores the buffer")
	}
	// the slack: the integer constant added to size in the writer's trim test
	var slack int64 = -1
	for _, w := range writers {
		AllInstrs(w, func(in ssa.Instruction) {
			if bo, ok := in.(*ssa.BinOp); ok && bo.Op == token.ADD {
				for _, pr := range [][2]ssa.Value{{bo.X, bo.Y}, {bo.Y, bo.X}} {
					if k, isK := ConstInt(pr[1]); isK && PathOf(pr[0]).LastField() == fSize {
						slack = k
					}
				}
			}
		})
	}
	if slack < 0 {
		c.Bad(rBuf, "trim-test", "", "the writer has no trim test of the form len(buffer) > size + <constant>: the in-memory log is not bounded by the configured length plus a constant slack")
		slack = 0
	}
	for _, w := range writers {
		c.Touch(w)
		lenV, size := TVar(CellLen("p0."+fBuffer.Name())), TVar("cell:p0."+fSize.Name())
		bound := size.Add(TConst(slack))
		a := &LinAnalysis{P: p, Fn: w, Assume: []Lin{LE(TConst(0), lenV), LE(TConst(0), size), LE(lenV, bound)}}
		trimOK, nTrim := true, 0
		a.OnInstr = func(in ssa.Instruction, st *LinState) {
			if st2, ok := in.(*ssa.Store); ok {
				if sl, isSl := st2.Val.(*ssa.Slice); isSl && PathOf(st2.Addr).LastField() == fBuffer {
					nTrim++
					if !st.Entails(LE(size, TVar("len#"+sl.Name()))) {
						trimOK = false
					}
				}
			}
		}
		a.Run()
		for i, o := range a.Obligations {
			c.Check(o.OK, rBuf, fmt.Sprintf("%s:slice#%d", p.FuncKey(w), i+1), p.InstrPos(o.Instr), o.What+" proved", "cannot prove "+o.What+" in the writer (assuming size >= 0)")
		}
		ok := true
		nRet := 0
		for _, st := range a.ReturnStates {
			if !st.Feasible() {
				continue
			}
			nRet++
			if !st.Entails(LE(lenV, bound)) {
				ok = false
			}
		}
		c.Check(ok && nRet > 0, rBuf, p.FuncKey(w)+":inductive-bound", FirstPos(p, w), "len <= size+slack re-established at every return", "cannot prove that the writer keeps len(buffer) <= size+slack: the in-memory log can grow without bound")
		c.Check(trimOK && nTrim > 0, rBuf, p.FuncKey(w)+":trim-keeps-size", FirstPos(p, w), "after a trim at least size lines remain", "the writer's trim can leave fewer than the configured number of lines (or the buffer is never trimmed)")
		// the growth is by exactly the appended message
		hasAppend := len(FindInstrs(w, func(in ssa.Instruction) bool {
			cc, ok := IsBuiltinCall(in, "append")
			return ok && PathOf(cc.Args[0]).LastField() == fBuffer
		})) > 0
		c.Check(hasAppend, rBuf, p.FuncKey(w)+":appends", FirstPos(p, w), "the writer appends the message to the buffer", "the writer does not append to the buffer")
	}

	s.checkTrimKeepsNewest(c, "trim-keeps-newest")

	// ------------------------------------------------------------------ (3)
	ls := p.Locksets(s.Runner)
	rAt := c.Rule("snapshot-subscribe-atomic", "the function that hands the snapshot to a new observer registers that observer while mx is still held (no line can be written in between); the writer appends and fans out to the observers in one critical section of mx")
	setLines := p.IfaceMethod("pclog", "LogObserver", "SetLines")
	writeString := p.IfaceMethod("pclog", "LogObserver", "WriteString")
	nSub := 0
	for _, f := range p.FuncsOfPkg("pclog") {
		if !recvIs(f, lbT) {
			continue
		}
		snaps := DirectSites(f, CallOf("SetLines", setLines))
		if len(snaps) == 0 {
			continue
		}
		nSub++
		c.Touch(f)
		regs := DirectSites(f, MapUpdateOn("register", fObs))
		ok := len(regs) > 0
		for _, x := range append(append([]ssa.Instruction{}, snaps...), regs...) {
			if !ls.Holds(x, fMx, "p0") {
				ok = false
			}
		}
		// no unlock between: every instruction between snapshot and registration holds mx
		if ok {
			for _, sn := range snaps {
				vis := Reach([]Pt{after(sn)}, func(in ssa.Instruction) bool { return isOneOf(in, regs) }, nil)
				for in := range vis {
					if _, isRet := in.(*ssa.Return); isRet {
						ok = false // a path skips the registration
					}
					if !ls.Holds(in, fMx, "p0") {
						if _, isRD := in.(*ssa.RunDefers); !isRD {
							ok = false
						}
					}
				}
			}
		}
		c.Check(ok, rAt, "subscribe:"+p.FuncKey(f), FirstPos(p, f), "snapshot and registration in one critical section", "snapshot and observer registration are not one critical section of mx: a line written in between is neither in the tail nor delivered (gap), or delivered twice")
	}
	if nSub == 0 {
		c.Bad(rAt, "subscribe:none", "", "no function hands a snapshot to an observer")
	}
	for _, w := range writers {
		fan := DirectSites(w, CallOf("WriteString", writeString))
		app := DirectSites(w, StoreTo("buffer", fBuffer))
		ok := len(fan) > 0 && len(app) > 0
		for _, x := range append(append([]ssa.Instruction{}, fan...), app...) {
			if !ls.Holds(x, fMx, "p0") {
				ok = false
			}
		}
		// fan-out iterates the observers map
		rangesObs := len(FindInstrs(w, func(in ssa.Instruction) bool {
			rg, isR := in.(*ssa.Range)
			return isR && PathOf(rg.X).LastField() == fObs
		})) > 0
		c.Check(ok && rangesObs, rAt, "write:"+p.FuncKey(w), FirstPos(p, w), "append and fan-out to all observers in one critical section", "the writer does not append and deliver to every observer inside one critical section of mx (lines can be lost, duplicated or reordered at the hand-over)")
	}

	// ------------------------------------------------------------------ (4)
	// the hand-over reaches the follower, and a follower that left is forgotten
	{
		rF := c.Rule("observer-plumbing", "every implementation of LogObserver.SetLines in pclog and api uses the lines it is given (passes them on or iterates them); the function behind IProject.UnSubscribeLogger deletes the observer from the buffer's observer map on every path on which the buffer exists")
		setLines := p.IfaceMethod("pclog", "LogObserver", "SetLines")
		nS := 0
		for _, impl := range p.implementationsOf(setLines) {
			pk := pkgOfFunc(impl)
			if pk == nil || (pk.Name() != "pclog" && pk.Name() != "api") {
				continue
			}
			nS++
			c.Touch(impl)
			used := false
			if len(impl.Params) >= 2 {
				for _, ref := range *impl.Params[1].Referrers() {
					switch r := ref.(type) {
					case *ssa.Call:
						used = true
					case *ssa.Range:
						used = true
					case *ssa.Store, *ssa.MakeInterface, *ssa.Slice:
						_ = r
						used = true
					case *ssa.Phi, *ssa.Index, *ssa.IndexAddr:
						used = true
					}
				}
			}
			c.Check(used, rF, "set-lines:"+p.FuncKey(impl), FirstPos(p, impl), "the snapshot is consumed", "SetLines drops the snapshot it is given: a follower that subscribes with a tail receives only the lines written afterwards")
		}
		c.Check(nS >= 1, rF, "floor:set-lines", "", "SetLines implementations found", "no LogObserver.SetLines implementation in pclog/api")
		s.checkObserversNeverNil(c, rF)
		if unsub := p.TryMethod("app", "ProjectRunner", "UnSubscribeLogger"); unsub != nil {
			del := p.Deep(MapDeleteOn("delete observers", fObs))
			var calls []ssa.Instruction
			AllInstrs(unsub, func(in ssa.Instruction) {
				if call, ok := in.(*ssa.Call); ok {
					if sc := call.Call.StaticCallee(); sc != nil && recvIs(sc, lbT) {
						calls = append(calls, in)
					}
				}
			})
			okU := len(calls) > 0
			for _, cl := range calls {
				if !del.Always(CallCommonOf(cl).StaticCallee()) {
					okU = false
				}
			}
			c.Touch(unsub)
			c.Check(okU, rF, "unsubscribe-deletes", FirstPos(p, unsub), "the observer is removed from the buffer", "unsubscribing does not remove the observer from the buffer's observer map: the writer keeps delivering every line to a follower that has gone (its channel is no longer drained, or is closed)")
		}
	}
	s.checkBlockingUnderLocksFiltered(c, ls, "observers-nonblocking", map[*types.Var]bool{fMx: true})
	s.checkConsumerBeforeProducer(c, "consumer-before-subscription")

	// ------------------------------------------------------------------ (5)
	rLock := c.Rule("buffer-under-lock", "every read or write of ProcessLogBuffer.buffer / observers outside the constructor holds mx of the same buffer")
	n := 0
	for _, f := range p.FuncsOfPkg("pclog") {
		if f == ctor {
			continue
		}
		for _, g := range s.guardTable() {
			if g.field != fBuffer && g.field != fObs {
				continue
			}
			verdict := map[string]bool{}
			posOf := map[string]string{}
			AllInstrs(f, func(in ssa.Instruction) {
				kind, pv, ok := accessOf(in, g)
				if !ok {
					return
				}
				key := fmt.Sprintf("%s@%s:%s", g.name, p.FuncKey(f), kind)
				held := false
				bs := baseString(pv)
				owner := bs
				if i := lastDot(bs); i >= 0 {
					owner = bs[:i]
				}
				for _, k := range ls.HeldAt(in) {
					if k.Field == fMx && k.Base == owner {
						held = true
					}
				}
				if old, ok := verdict[key]; !ok || (old && !held) {
					verdict[key] = held
					posOf[key] = p.InstrPos(in)
				}
			})
			for _, key := range SortedKeys(verdict) {
				n++
				c.Touch(f)
				c.Check(verdict[key], rLock, key, posOf[key], "mx held", "the log buffer is accessed without mx: concurrent Write (append/trim) races with this access")
			}
		}
	}
	if n < 6 {
		c.Bad(rLock, "floor:sites", "", fmt.Sprintf("expected at least 6 buffer/observers access sites, found %d", n))
	}
}

func lastDot(s string) int {
	for i := len(s) - 1; i >= 0; i-- {
		if s[i] == '.' {
			return i
		}
	}
	return -1
}

// ConstOfObj returns the integer value of a constant object.
func ConstOfObj(c *types.Const) (int64, bool) {
	v := c.Val()
	if v == nil {
		return 0, false
	}
	s := v.ExactString()
	var i int64
	if _, err := fmt.Sscanf(s, "%d", &i); err != nil {
		return 0, false
	}
	return i, true
}

// checkTrimKeepsNewest (C18, C11): the writer only ever drops the oldest lines.
func (s *Sel) checkTrimKeepsNewest(c *Ctx, ruleID string) {
	p := c.P
	rule := c.Rule(ruleID, "every value the writer stores back into the buffer is either the result of append on the buffer or a suffix slice buffer[k:] of it (no upper bound): a trim can only drop the oldest lines, never the line just written")
	fBuffer := p.Field("pclog", "ProcessLogBuffer", "buffer")
	ctor := p.Func("pclog", "NewLogBuffer")
	n := 0
	for _, f := range p.Funcs {
		if f == ctor {
			continue
		}
		for _, in := range DirectSites(f, StoreTo("buffer", fBuffer)) {
			n++
			c.Touch(f)
			v, _ := StoredValue(in, fBuffer)
			ok := false
			switch x := stripConv(v).(type) {
			case *ssa.Call:
				if b, isB := x.Call.Value.(*ssa.Builtin); isB && b.Name() == "append" && PathOf(x.Call.Args[0]).LastField() == fBuffer {
					ok = true
				}
			case *ssa.Slice:
				if PathOf(x.X).LastField() == fBuffer && x.High == nil && x.Max == nil {
					ok = true
				}
			}
			c.Check(ok, rule, p.FuncKey(f), p.InstrPos(in), "append or suffix slice", "the writer stores back something other than append(buffer, line) or a suffix buffer[k:] (e.g. a copy truncated to size): at every trim the newest line is lost from the in-memory log")
		}
	}
	if n < 2 {
		c.Bad(rule, "floor", "", "expected an append and a trim in the writer")
	}
}

// checkConsumerBeforeProducer (C18, C19, C20): in the websocket handler the
// goroutine that drains the per-process channel is started before the
// subscription that fills it under the buffer mutex.
func (s *Sel) checkConsumerBeforeProducer(c *Ctx, ruleID string) {
	p := c.P
	rule := c.Rule(ruleID, "in every function that subscribes an observer whose callbacks send on a bounded channel, the go statement starting the consumer of that channel precedes the subscription call on every path (the snapshot hand-over pushes the whole tail into the channel while the buffer mutex is held)")
	sub := p.IfaceMethod("app", "IProject", "GetLogsAndSubscribe")
	n := 0
	for _, f := range p.FuncsOfPkg("api") {
		subs := DirectSites(f, CallOf("GetLogsAndSubscribe", sub))
		if len(subs) == 0 {
			continue
		}
		// channels made in f that closures send on
		var chans []*ssa.MakeChan
		AllInstrs(f, func(in ssa.Instruction) {
			if mk, ok := in.(*ssa.MakeChan); ok {
				chans = append(chans, mk)
			}
		})
		for _, mk := range chans {
			sentByClosure := false
			for _, an := range f.AnonFuncs {
				AllInstrs(an, func(in ssa.Instruction) {
					if sd, ok := in.(*ssa.Send); ok {
						srcs, _ := p.Sources(sd.Chan)
						for _, l := range srcs {
							if l == ssa.Value(mk) {
								sentByClosure = true
							}
						}
					}
				})
			}
			if !sentByClosure {
				continue
			}
			n++
			c.Touch(f)
			consumer := p.Deep(Site{Name: "go consumer", Instr: func(in ssa.Instruction) bool {
				g, ok := in.(*ssa.Go)
				if !ok {
					return false
				}
				for _, a := range g.Call.Args {
					srcs, _ := p.Sources(a)
					for _, l := range srcs {
						if l == ssa.Value(mk) {
							return true
						}
					}
				}
				return false
			}})
			r := MustPrecede(f, consumer, func(in ssa.Instruction) bool { return isOneOf(in, subs) }, nil)
			c.PathCheck(r, rule, p.FuncKey(f), FirstPos(p, f), "the consumer is running before the subscription fills the channel", "the subscription (which pushes the whole tail into a bounded channel while the log buffer's mutex is held) can run before the goroutine that drains the channel is started: a tail longer than the channel blocks forever with the mutex held - the follower gets nothing and the process's output handling and every other log request hang")
		}
	}
	if n == 0 {
		c.Bad(rule, "none", "", "no websocket subscription with a bounded channel found")
	}
}

// checkObserversNeverNil (C18, C20): the observer map of a log buffer is always a map - a buffer is re-registered after
// Close when a scale renames its replica, and subscribing to a nil map panics.
func (s *Sel) checkObserversNeverNil(c *Ctx, rule string) {
	p := c.P
	fObs := p.Field("pclog", "ProcessLogBuffer", "observers")
	n := 0
	for _, f := range p.FuncsOfPkg("pclog") {
		for _, in := range DirectSites(f, StoreTo("observers", fObs)) {
			n++
			v, _ := StoredValue(in, fObs)
			_, isMk := stripConv(v).(*ssa.MakeMap)
			c.Check(isMk, rule, "observers-store:"+p.FuncKey(f), p.InstrPos(in), "a map is stored", "the observer map of the log buffer is set to something that is not a freshly made map (nil): the buffer stays in use after Close when a scale renames its replica, and the next subscription panics with an assignment to a nil map")
		}
	}
	if n == 0 {
		c.Bad(rule, "observers-store:none", "", "the observer map is never initialised")
	}
}
