package pcv

import (
	"fmt"
	"go/types"
	"strings"

	"golang.org/x/tools/go/ssa"
)

func init() {
	register(&PropCheck{
		ID: "C15",
		Explanation: "Config merge, structural part: (1) wherever the loader splits an element of an Environment list into key and value it splits at the first separator only (SplitN(..,2) / Cut / Index); " +
			"(2) both struct merges pass WithOverride, WithAppendSlice and the transformer table; the tables map Environment (process and project) and Processes (project) to the special merge functions; the environment merge itself overrides; every pair kept in the map is written back; " +
			"(3) the process-merge function never deletes from the base map, returns it, and inserts override-only processes; (4) an extended (parent) project is inserted before its child at the same index in both FileNames and projects, with its working directories resolved against its own directory; " +
			"(5) Load merges the projects in FileNames order, base first.",
		Assumptions: []string{"mergo's field-by-field semantics, zero-value overrides (false/0/\"\" cannot override with non-pointer fields) and multi-file+extends index arithmetic are not decided"},
		Run:         runC15,
	})
}

func runC15(c *Ctx) {
	p := c.P
	envT := p.Named("types", "Environment")

	// ------------------------------------------------------------------ (1)
	r1 := c.Rule("env-split-first-separator", "every strings.Split* call in the loader whose subject is an element of a types.Environment and whose separator is \"=\" limits the split to two parts (SplitN with n == 2) or is a Cut; the key/value pair is kept whenever a separator is present")
	n1 := 0
	for _, f := range p.FuncsOfPkg("loader") {
		AllInstrs(f, func(in ssa.Instruction) {
			call, ok := in.(*ssa.Call)
			if !ok {
				return
			}
			o := CalleeObj(&call.Call)
			if o == nil || o.Pkg() == nil || o.Pkg().Path() != "strings" {
				return
			}
			switch o.Name() {
			case "Split", "SplitN", "SplitAfter", "SplitAfterN", "Cut", "Fields", "Index":
			default:
				return
			}
			if len(call.Call.Args) < 1 || !elementOfNamedSlice(call.Call.Args[0], envT) {
				return
			}
			n1++
			c.Touch(f)
			sep := ""
			if len(call.Call.Args) >= 2 {
				sep, _ = ConstString(call.Call.Args[1])
			}
			ok2 := false
			switch o.Name() {
			case "SplitN":
				if n, okn := ConstInt(call.Call.Args[2]); okn && n == 2 && sep == "=" {
					ok2 = true
				}
			case "Cut", "Index":
				ok2 = sep == "="
			}
			c.Check(ok2, r1, p.FuncKey(f)+":"+o.Name(), p.InstrPos(call), "split at the first separator only", "an environment entry is split with strings."+o.Name()+" at every '=': a value that itself contains '=' (X=a=b) yields more than two parts and the entry is dropped from the merged environment")
			// the entry is kept when the split produced two parts: the map insertion is guarded by len == 2 (or found)
			if ok2 && o.Name() == "SplitN" {
				kept := false
				for _, b := range f.Blocks {
					ifi := IfOf(b)
					if ifi == nil {
						continue
					}
					cmp, okc := CondCmp(ifi.Cond)
					if !okc {
						continue
					}
					if lc, isL := stripConv(cmp.X).(*ssa.Call); isL {
						if bi, isB := lc.Call.Value.(*ssa.Builtin); isB && bi.Name() == "len" && lc.Call.Args[0] == ssa.Value(call) {
							if k, okk := ConstInt(cmp.Y); okk && k == 2 && cmp.Op.String() == "==" {
								region := DominatedBlocks(b.Succs[0])
								for rb := range region {
									for _, x := range rb.Instrs {
										if _, isMu := x.(*ssa.MapUpdate); isMu {
											kept = true
										}
									}
								}
							}
						}
					}
				}
				c.Check(kept, r1, p.FuncKey(f)+":kept", p.InstrPos(call), "a key=value pair is stored", "the key/value pair of an environment entry is not stored when the split has two parts")
			}
			if ok2 && o.Name() == "Cut" {
				guarded := true
				AllInstrs(f, func(x ssa.Instruction) {
					if _, isMu := x.(*ssa.MapUpdate); !isMu {
						return
					}
					g := false
					for _, gd := range GuardsOf(x) {
						if v, val := gd.BoolVal(); val {
							if ex, isEx := v.(*ssa.Extract); isEx && ex.Tuple == ssa.Value(call) && ex.Index == 2 {
								g = true
							}
						}
					}
					if !g {
						guarded = false
					}
				})
				c.Check(guarded, r1, p.FuncKey(f)+":kept", p.InstrPos(call), "only entries with a separator become key/value pairs", "entries without '=' are stored as pairs with an empty value: NAME (pass-through) and NAME= (explicitly empty) can no longer be told apart when the map is written back")
			}
			// key and value are stored exactly as split (byte for byte)
			if ok2 {
				exact := true
				nMu := 0
				AllInstrs(f, func(x ssa.Instruction) {
					mu, isMu := x.(*ssa.MapUpdate)
					if !isMu {
						return
					}
					nMu++
					for _, v := range []ssa.Value{mu.Key, mu.Value} {
						if mi, isMi := v.(*ssa.MakeInterface); isMi {
							v = mi.X
						}
						okv := false
						switch y := stripConv(v).(type) {
						case *ssa.UnOp:
							if ia, isIa := y.X.(*ssa.IndexAddr); isIa && stripConv(ia.X) == ssa.Value(call) {
								okv = true
							}
						case *ssa.Extract:
							if y.Tuple == ssa.Value(call) {
								okv = true
							}
						}
						if !okv {
							exact = false
						}
					}
				})
				c.Check(exact && nMu > 0, r1, p.FuncKey(f)+":unchanged", p.InstrPos(call), "key and value are stored exactly as split", "the key or value of an environment entry is transformed (trimmed, re-quoted ...) before it is stored: values are not preserved byte for byte, even those the later file does not mention")
			}
		})
	}
	if n1 == 0 {
		c.Bad(r1, "none", "", "the loader does not split environment entries into key and value (environment lists cannot be merged by key)")
	}
	// the way back: every pair of the merged map is written as key=value, whatever the value (an explicitly empty
	// value keeps its '='; NAME and NAME= are different entries)
	nJoin := 0
	for _, f := range p.FuncsOfPkg("loader") {
		AllInstrs(f, func(in ssa.Instruction) {
			cc, isApp := IsBuiltinCall(in, "append")
			if !isApp || len(cc.Args) != 2 {
				return
			}
			if nt, ok := cc.Args[0].Type().(*types.Named); !ok || nt != envT {
				return
			}
			// appended inside a loop over a map
			lp := InnermostLoopOf(in)
			if lp == nil {
				return
			}
			overMap := false
			for b := range lp.Blocks {
				for _, x := range b.Instrs {
					if nx, isNext := x.(*ssa.Next); isNext && !nx.IsString {
						overMap = true
					}
				}
			}
			if !overMap {
				return
			}
			nJoin++
			c.Touch(f)
			elems := variadicValues(cc.Args[1])
			okJ := len(elems) == 1 && elems[0] != nil
			if okJ {
				switch y := stripConv(elems[0]).(type) {
				case *ssa.Call:
					o := CalleeObj(&y.Call)
					fs, _ := ConstString(y.Call.Args[0])
					okJ = o != nil && o.Pkg() != nil && o.Pkg().Path() == "fmt" && o.Name() == "Sprintf" && (fs == "%s=%s" || fs == "%v=%v")
				case *ssa.BinOp:
					okJ = strings.Contains(stringExprDesc(y), `"="`)
				default:
					okJ = false
				}
			}
			c.Check(okJ, r1, p.FuncKey(f)+":join", p.InstrPos(in), "every pair is written as key=value", "a merged environment pair is not always written back as key=value (for instance the '=' is omitted for an empty value): an override that blanks a variable with NAME= becomes the bare NAME and the inherited value shows through; empty entries the later file does not mention are not preserved")
		})
	}
	if nJoin == 0 {
		c.Bad(r1, "join:none", "", "no function writes the merged key/value map back into an Environment")
	}

	// ------------------------------------------------------------------ (2)
	r2 := c.Rule("merge-options", "each call of mergo.Merge in the loader passes WithOverride, WithAppendSlice and WithTransformers(table); the process table maps types.Environment and the project table maps types.Environment and types.Processes to the special merge functions; mergo.Map in the environment merge passes WithOverride; the merged pairs are written back to the destination sorted")
	mergoPath := "dario.cat/mergo"
	nMerge := 0
	tablesSeen := map[string]bool{}
	for _, f := range p.FuncsOfPkg("loader") {
		AllInstrs(f, func(in ssa.Instruction) {
			call, ok := in.(*ssa.Call)
			if !ok {
				return
			}
			o := CalleeObj(&call.Call)
			if o == nil || o.Pkg() == nil || o.Pkg().Path() != mergoPath {
				return
			}
			switch o.Name() {
			case "Merge":
				nMerge++
				c.Touch(f)
				opts := mergoOptions(call.Call.Args[len(call.Call.Args)-1])
				want := []string{"WithOverride", "WithAppendSlice", "WithTransformers"}
				for _, w := range want {
					c.Check(opts[w] != nil, r2, p.FuncKey(f)+":"+w, p.InstrPos(call), w+" passed", "mergo.Merge is called without "+w+" (a later file no longer overrides / lists are replaced / environment and processes are not merged by key)")
				}
				if tc := opts["WithTransformers"]; tc != nil {
					// argument: a global table
					if len(tc.Call.Args) == 1 {
						if g := globalOf(tc.Call.Args[0]); g != nil {
							tablesSeen[g.Name()] = true
						}
					}
				}
			case "Map":
				c.Touch(f)
				opts := mergoOptions(call.Call.Args[len(call.Call.Args)-1])
				c.Check(opts["WithOverride"] != nil, r2, p.FuncKey(f)+":Map:WithOverride", p.InstrPos(call), "environment merge overrides", "the key-wise environment merge does not let the later file win")
				// destination first, source second
				if len(call.Call.Args) >= 2 {
					c.Note("mergo.Map(%s, %s)", call.Call.Args[0].Name(), call.Call.Args[1].Name())
				}
			}
		})
	}
	c.Check(nMerge == 2, r2, "merge-calls", "", "two struct merges (process, project)", fmt.Sprintf("expected 2 mergo.Merge calls, found %d", nMerge))
	// transformer tables: package-level vars initialised with a map keyed by reflect.TypeOf(X{})
	initFn := p.SPkg("loader").Func("init")
	tables := map[string]map[string]bool{}
	if initFn != nil {
		// map updates in init whose key is reflect.TypeOf(T{}) and whose map belongs to the struct stored in global G
		AllInstrs(initFn, func(in ssa.Instruction) {
			mu, ok := in.(*ssa.MapUpdate)
			if !ok {
				return
			}
			kc, ok := stripConv(mu.Key).(*ssa.Call)
			if !ok {
				if mi, isMi := mu.Key.(*ssa.MakeInterface); isMi {
					kc, ok = mi.X.(*ssa.Call)
				}
			}
			if kc == nil {
				return
			}
			o := CalleeObj(&kc.Call)
			if o == nil || o.Pkg() == nil || o.Pkg().Path() != "reflect" || o.Name() != "TypeOf" {
				return
			}
			tn := ""
			if mi, isMi := kc.Call.Args[0].(*ssa.MakeInterface); isMi {
				if nt, isN := mi.X.Type().(*types.Named); isN {
					tn = nt.Obj().Name()
				}
			}
			// which global? the map is stored into a struct that is stored into a global
			owner := ""
			srcs := mapOwnerGlobals(mu.Map, initFn)
			for _, g := range srcs {
				owner = g
			}
			if tables[owner] == nil {
				tables[owner] = map[string]bool{}
			}
			tables[owner][tn] = true
		})
	}
	procTable, projTable := "", ""
	for name := range tablesSeen {
		if tables[name]["Processes"] {
			projTable = name
		} else {
			procTable = name
		}
	}
	c.Check(procTable != "" && tables[procTable]["Environment"], r2, "process-table", "", "the process merge table maps Environment", "the transformer table used for merging processes has no entry for types.Environment (environment lists are appended instead of merged by key)")
	c.Check(projTable != "" && tables[projTable]["Environment"] && tables[projTable]["Processes"], r2, "project-table", "", "the project merge table maps Environment and Processes", "the transformer table used for merging projects lacks types.Environment or types.Processes (processes of the later file would replace the whole map)")
	// write-back of the merged environment: a function that ranges over the map and sorts
	wb := false
	for _, f := range p.FuncsOfPkg("loader") {
		hasRange := len(FindInstrs(f, func(in ssa.Instruction) bool { _, ok := in.(*ssa.Range); return ok })) > 0
		sorts := false
		sets := false
		AllInstrs(f, func(in ssa.Instruction) {
			if call, ok := in.(*ssa.Call); ok {
				if o := CalleeObj(&call.Call); o != nil && o.Pkg() != nil {
					if o.Pkg().Path() == "sort" && o.Name() == "Strings" || o.Pkg().Path() == "slices" && o.Name() == "Sort" {
						sorts = true
					}
					if o.Pkg().Path() == "reflect" && o.Name() == "Set" {
						sets = true
					}
				}
			}
		})
		if hasRange && sorts && sets && f.Signature.Params().Len() == 2 {
			wb = true
			c.Touch(f)
			// every pair is appended: the loop body always appends
			okAll := false
			for _, l := range RangeLoops(f) {
				app := p.Deep(Site{Name: "append", Call: func(cc *ssa.CallCommon) bool {
					b, ok := cc.Value.(*ssa.Builtin)
					return ok && b.Name() == "append"
				}})
				if l.bodyAlways(app) {
					okAll = true
				}
			}
			c.Check(okAll, r2, p.FuncKey(f)+":all-pairs", FirstPos(p, f), "every merged pair is written back", "not every merged key=value pair is written back to the environment")
		}
	}
	c.Check(wb, r2, "write-back", "", "merged environment written back sorted", "the merged environment is not written back in sorted order (load is not deterministic)")

	// ------------------------------------------------------------------ (3)
	r3 := c.Rule("no-loss-of-base-processes", "the function merging two Processes maps performs no delete on the base map, returns the base map on every success path, merges processes present in both and inserts the override's process on the not-found edge")
	procsT := p.Named("types", "Processes")
	n3 := 0
	for _, f := range p.FuncsOfPkg("loader") {
		if f.Parent() != nil || f.Signature.Params().Len() != 2 {
			continue
		}
		if !types.Identical(f.Signature.Params().At(0).Type(), procsT) || !types.Identical(f.Signature.Params().At(1).Type(), procsT) {
			continue
		}
		n3++
		c.Touch(f)
		base, over := f.Params[0], f.Params[1]
		noDelete := len(FindInstrs(f, func(in ssa.Instruction) bool { _, ok := IsBuiltinCall(in, "delete"); return ok })) == 0
		c.Check(noDelete, r3, p.FuncKey(f)+":no-delete", FirstPos(p, f), "nothing is deleted", "the process merge deletes entries: a process defined only in the earlier file is lost")
		retOK := true
		for _, ret := range returnsOf(f) {
			if len(ret.Results) == 2 && IsNilConst(RetVals(ret)[1]) && RetVals(ret)[0] != ssa.Value(base) {
				retOK = false
			}
		}
		c.Check(retOK, r3, p.FuncKey(f)+":returns-base", FirstPos(p, f), "the base map is returned", "the process merge does not return the base map on success")
		// iterates the override; lookup in base; not-found edge inserts override process; found edge merges and stores
		okIns, okMerge := false, false
		for _, b := range f.Blocks {
			ifi := IfOf(b)
			if ifi == nil {
				continue
			}
			v, pos := BoolCond(ifi.Cond)
			ex, ok := v.(*ssa.Extract)
			if !ok || ex.Index != 1 {
				continue
			}
			lk, ok := ex.Tuple.(*ssa.Lookup)
			if !ok || lk.X != ssa.Value(base) {
				continue
			}
			foundS, nfS := 0, 1
			if !pos {
				foundS, nfS = 1, 0
			}
			for in := range Reach([]Pt{{b.Succs[nfS], 0}}, func(x ssa.Instruction) bool { _, isN := x.(*ssa.Next); return isN }, nil) {
				if mu, isMu := in.(*ssa.MapUpdate); isMu && mu.Map == ssa.Value(base) && isRangeValueOfParam(mu.Value, over) {
					okIns = true
				}
			}
			for in := range Reach([]Pt{{b.Succs[foundS], 0}}, func(x ssa.Instruction) bool { _, isN := x.(*ssa.Next); return isN }, nil) {
				if mu, isMu := in.(*ssa.MapUpdate); isMu && mu.Map == ssa.Value(base) {
					okMerge = true
				}
			}
		}
		c.Check(okIns, r3, p.FuncKey(f)+":override-only-inserted", FirstPos(p, f), "override-only processes are inserted", "a process defined only in the later file is not added to the merged project")
		c.Check(okMerge, r3, p.FuncKey(f)+":both-merged", FirstPos(p, f), "processes present in both are merged and stored", "a process present in both files is not merged")
	}
	c.Check(n3 == 1, r3, "merge-processes-fn", "", "one process-map merge function", fmt.Sprintf("%d functions merging two Processes maps", n3))

	// ------------------------------------------------------------------ (4)
	r4 := c.Rule("extends-order", "when a project extends another, the parent's file name and the parent project are inserted at the same index (the child's index) into FileNames and projects, before the recursive treatment of the parent's own extends; the parent's relative working directories are resolved against the parent's directory; a project extending a file already listed is rejected")
	fFileNames := p.Field("loader", "LoaderOptions", "FileNames")
	fProjects := p.Field("loader", "LoaderOptions", "projects")
	n4 := 0
	for _, f := range p.FuncsOfPkg("loader") {
		var insNames, insProj *ssa.Call
		AllInstrs(f, func(in ssa.Instruction) {
			call, ok := in.(*ssa.Call)
			if !ok {
				return
			}
			sc := call.Call.StaticCallee()
			if sc == nil {
				return
			}
			name := sc.Name()
			if sc.Origin() != nil {
				name = sc.Origin().Name()
			}
			pk := pkgOfFunc(sc)
			if sc.Origin() != nil {
				pk = pkgOfFunc(sc.Origin())
			}
			if pk == nil || pk.Path() != "slices" || name != "Insert" {
				return
			}
			switch PathOf(call.Call.Args[0]).LastField() {
			case fFileNames:
				insNames = call
			case fProjects:
				insProj = call
			}
		})
		if insNames == nil && insProj == nil {
			continue
		}
		n4++
		c.Touch(f)
		if !c.Check(insNames != nil && insProj != nil, r4, p.FuncKey(f)+":both-lists", FirstPos(p, f), "parent inserted into both lists", "the parent project is inserted into only one of FileNames / projects (files and projects get out of step)") {
			continue
		}
		c.Check(insNames.Call.Args[1] == insProj.Call.Args[1] && isParam(insNames.Call.Args[1]), r4, p.FuncKey(f)+":same-index", p.InstrPos(insProj), "same index (the child's) in both lists", "the parent is inserted at different indices into FileNames and projects (merge order differs from the documented base-then-child order)")
		// recursion after the insertion
		rec := DirectSites(f, CallOfFn("self", f))
		r := MustPrecede(f, p.Deep(Site{Name: "insert project", Instr: func(in ssa.Instruction) bool { return in == ssa.Instruction(insProj) }}), func(in ssa.Instruction) bool { return isOneOf(in, rec) }, nil)
		c.Check(r.OK && len(rec) > 0, r4, p.FuncKey(f)+":insert-before-recursion", FirstPos(p, f), "grandparents are inserted before their children", "the parent's own extends is processed before the parent is inserted (a grandparent would be merged after its child)")
		// working dirs resolved
		wdCalls := FindInstrs(f, func(in ssa.Instruction) bool {
			call, ok := in.(*ssa.Call)
			if !ok {
				return false
			}
			sc := call.Call.StaticCallee()
			return sc != nil && p.InRepo(sc) && p.Deep(StoreTo("WorkingDir", p.Field("types", "ProcessConfig", "WorkingDir"))).May(sc)
		})
		c.Check(len(wdCalls) > 0, r4, p.FuncKey(f)+":working-dirs", FirstPos(p, f), "parent working directories resolved", "the parent's relative/empty working directories are not resolved against the parent's directory")
		fExt := p.Field("types", "Project", "ExtendsProject")
		for _, wc := range wdCalls {
			if sc := CallCommonOf(wc).StaticCallee(); sc == nil || len(DirectSites(sc, StoreTo("WorkingDir", p.Field("types", "ProcessConfig", "WorkingDir")))) == 0 {
				continue
			}
			okDir := false
			for _, a := range CallCommonOf(wc).Args {
				if dc, isC := stripConv(a).(*ssa.Call); isC {
					if o := CalleeObj(&dc.Call); o != nil && o.Pkg() != nil && o.Pkg().Path() == "path/filepath" && o.Name() == "Dir" && len(dc.Call.Args) == 1 && PathOf(dc.Call.Args[0]).LastField() == fExt {
						okDir = true
					}
				}
			}
			c.Check(okDir, r4, p.FuncKey(f)+":working-dir-base", p.InstrPos(wc), "resolved against the directory of the extended (parent) file", "the parent's working directories are resolved against another directory than the parent file's own (filepath.Dir of the extends path): with parent and child in different directories the base's processes run in the wrong directory")
			// and the project passed is the freshly loaded parent
		}
		// self-extension rejected
		rej := false
		AllInstrs(f, func(in ssa.Instruction) {
			call, ok := in.(*ssa.Call)
			if !ok {
				return
			}
			sc := call.Call.StaticCallee()
			if sc == nil {
				return
			}
			name := sc.Name()
			if sc.Origin() != nil {
				name = sc.Origin().Name()
			}
			if name == "Contains" && PathOf(call.Call.Args[0]).LastField() == fFileNames {
				te, _ := boolResultEdges(call)
				for _, g := range te {
					vis := Reach([]Pt{{g.If.Block().Succs[g.Succ], 0}}, nil, nil)
					good := true
					for x := range vis {
						if x == ssa.Instruction(insProj) {
							good = false
						}
						if ret, isRet := x.(*ssa.Return); isRet && IsNilConst(RetVals(ret)[0]) {
							good = false
						}
					}
					if good {
						rej = true
					}
				}
			}
		})
		c.Check(rej, r4, p.FuncKey(f)+":no-double-load", FirstPos(p, f), "extending an already listed file is rejected", "a project extending a file that is already listed is not rejected (the file would be merged twice / endless recursion)")
	}
	c.Check(n4 == 1, r4, "extend-fn", "", "one extends function", fmt.Sprintf("%d functions insert into FileNames/projects", n4))

	// ------------------------------------------------------------------ (5)
	r5 := c.Rule("merge-order", "the merge function takes projects[0] as base and merges projects[1:] into it in slice order; Load appends each loaded project after handling its extends and merges after all files were loaded")
	mergeFn := p.TryFunc("loader", "merge")
	if mergeFn == nil {
		// find by shape: function of *LoaderOptions returning (*Project, error) that ranges over projects
		for _, f := range p.FuncsOfPkg("loader") {
			if f.Signature.Results().Len() == 2 && len(FindInstrs(f, func(in ssa.Instruction) bool {
				return IsLoadOf(in, fProjects)
			})) > 0 && f.Parent() == nil && f.Name() != "Load" {
				mergeFn = f
			}
		}
	}
	if c.Check(mergeFn != nil, r5, "merge-fn", "", "merge function found", "no function merges opts.projects") {
		c.Touch(mergeFn)
		baseIsFirst, restFromOne := false, false
		AllInstrs(mergeFn, func(in ssa.Instruction) {
			if ia, ok := in.(*ssa.IndexAddr); ok && PathOf(ia.X).LastField() == fProjects {
				if k, okk := ConstInt(ia.Index); okk && k == 0 {
					baseIsFirst = true
				}
			}
			if sl, ok := in.(*ssa.Slice); ok && PathOf(sl.X).LastField() == fProjects && sl.Low != nil {
				if k, okk := ConstInt(sl.Low); okk && k == 1 && sl.High == nil {
					restFromOne = true
				}
			}
		})
		c.Check(baseIsFirst && restFromOne, r5, "base-first", FirstPos(p, mergeFn), "projects[0] is the base, projects[1:] override in order", "the merge does not use the first file as base and the later files, in order, as overrides")
		// merge(base, override): base is first argument of the struct merge
		okArgs := false
		AllInstrs(mergeFn, func(in ssa.Instruction) {
			call, ok := in.(*ssa.Call)
			if !ok {
				return
			}
			sc := call.Call.StaticCallee()
			if sc == nil || !p.InRepo(sc) || len(call.Call.Args) != 2 {
				return
			}
			// first arg: loaded from projects[0]; second: range element
			if u, isU := stripConv(call.Call.Args[0]).(*ssa.UnOp); isU {
				if ia, isIa := u.X.(*ssa.IndexAddr); isIa {
					if k, okk := ConstInt(ia.Index); okk && k == 0 {
						okArgs = true
					}
				}
			}
		})
		c.Check(okArgs, r5, "override-into-base", FirstPos(p, mergeFn), "each later project is merged into the base", "the override is not merged into the base (argument order)")
	}
	load := p.Func("loader", "Load")
	{
		// in Load: append to projects happens after the extends call in the loop, merge call after the loop
		c.Touch(load)
		var appendProj ssa.Instruction
		AllInstrs(load, func(in ssa.Instruction) {
			if st, ok := in.(*ssa.Store); ok && PathOf(st.Addr).LastField() == fProjects {
				appendProj = in
			}
		})
		c.Check(appendProj != nil, r5, "load-appends", FirstPos(p, load), "Load appends each project", "Load does not collect the loaded projects")
		if appendProj != nil && mergeFn != nil {
			loops := RangeLoops(load)
			inLoop := false
			for _, l := range loops {
				if l.Body == appendProj.Block() || l.Body.Dominates(appendProj.Block()) {
					inLoop = true
					// the merge call is not inside the loop
					for _, mc := range DirectSites(load, CallOfFn("merge", mergeFn)) {
						if l.Body == mc.Block() || l.Body.Dominates(mc.Block()) {
							inLoop = false
						}
					}
				}
			}
			c.Check(inLoop, r5, "merge-after-all-loaded", FirstPos(p, load), "merge runs once after all files were loaded", "the merge does not run once after all files were loaded")
		}
	}
	_ = strings.Join
}

// elementOfNamedSlice: v is an element obtained by iterating/indexing a value of the named slice type.
func elementOfNamedSlice(v ssa.Value, named *types.Named) bool {
	v = stripConv(v)
	u, ok := v.(*ssa.UnOp)
	if !ok {
		return false
	}
	ia, ok := u.X.(*ssa.IndexAddr)
	if !ok {
		return false
	}
	t := ia.X.Type()
	if nt, ok := t.(*types.Named); ok && nt.Obj() == named.Obj() {
		return true
	}
	// type assertion result / conversions
	if ta, ok := stripConv(ia.X).(*ssa.Extract); ok {
		if nt, ok := ta.Type().(*types.Named); ok && nt.Obj() == named.Obj() {
			return true
		}
	}
	return false
}

// mergoOptions decodes the variadic option list of a mergo call: option constructor name -> call.
func mergoOptions(v ssa.Value) map[string]*ssa.Call {
	out := map[string]*ssa.Call{}
	sl, ok := v.(*ssa.Slice)
	if !ok {
		return out
	}
	al, ok := sl.X.(*ssa.Alloc)
	if !ok {
		return out
	}
	for _, ref := range *al.Referrers() {
		ia, ok := ref.(*ssa.IndexAddr)
		if !ok {
			continue
		}
		for _, r2 := range *ia.Referrers() {
			st, ok := r2.(*ssa.Store)
			if !ok {
				continue
			}
			val := st.Val
			if ct, ok := val.(*ssa.ChangeType); ok {
				val = ct.X
			}
			switch x := val.(type) {
			case *ssa.Function:
				out[x.Name()] = &ssa.Call{}
			case *ssa.Call:
				if o := CalleeObj(&x.Call); o != nil {
					out[o.Name()] = x
				}
			case *ssa.MakeClosure:
				out[x.Fn.Name()] = &ssa.Call{}
			}
		}
	}
	return out
}

func globalOf(v ssa.Value) *ssa.Global {
	v = stripConv(v)
	if mi, ok := v.(*ssa.MakeInterface); ok {
		v = mi.X
	}
	if u, ok := v.(*ssa.UnOp); ok {
		if g, ok := u.X.(*ssa.Global); ok {
			return g
		}
	}
	if g, ok := v.(*ssa.Global); ok {
		return g
	}
	return nil
}

// mapOwnerGlobals: the globals into which (the struct holding) the map value is stored in init.
func mapOwnerGlobals(m ssa.Value, initFn *ssa.Function) []string {
	var out []string
	// m is stored into field of alloc A; A is stored into global G
	for _, ref := range *m.Referrers() {
		st, ok := ref.(*ssa.Store)
		if !ok || st.Val != m {
			continue
		}
		fa, ok := st.Addr.(*ssa.FieldAddr)
		if !ok {
			continue
		}
		for _, r2 := range *fa.X.Referrers() {
			st2, ok := r2.(*ssa.Store)
			if !ok || st2.Val != fa.X {
				continue
			}
			if g, ok := st2.Addr.(*ssa.Global); ok {
				out = append(out, g.Name())
			}
		}
	}
	return out
}

// isRangeValueOfParam: v is the value element of an iteration over the map parameter.
func isRangeValueOfParam(v ssa.Value, prm *ssa.Parameter) bool {
	ex, ok := stripConv(v).(*ssa.Extract)
	if !ok || ex.Index != 2 {
		// possibly loaded from a local copy
		if u, isU := stripConv(v).(*ssa.UnOp); isU {
			if al, isAl := u.X.(*ssa.Alloc); isAl {
				for _, ref := range *al.Referrers() {
					if st, isSt := ref.(*ssa.Store); isSt && st.Addr == ssa.Value(al) && isRangeValueOfParam(st.Val, prm) {
						return true
					}
				}
			}
		}
		return false
	}
	nx, ok := ex.Tuple.(*ssa.Next)
	if !ok {
		return false
	}
	rg, ok := nx.Iter.(*ssa.Range)
	return ok && rg.X == ssa.Value(prm)
}
