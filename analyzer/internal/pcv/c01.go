package pcv

import (
	"fmt"
	"go/token"
	"go/types"
	"strings"

	"golang.org/x/tools/go/ssa"
)

// Latches: what a dependent can block on, per condition.
type latchKind int

const (
	latchDone latchKind = iota
	latchReady
	latchLogReady
	latchStarted
)

func (k latchKind) String() string {
	return [...]string{"done+procCond", "procReadyCtx", "procLogReadyCtx", "procStartedChan"}[k]
}

// waitSite returns the site "blocks on latch k": a Cond.Wait on procCond, or a
// blocking receive on the latch channel / context.
func (s *Sel) waitSite(k latchKind) Site {
	switch k {
	case latchDone:
		condWait := s.p.ExtFunc("sync", "Cond", "Wait")
		return MethodOnField("Cond.Wait(procCond)", s.FProcCond, condWait)
	case latchReady:
		return Site{Name: "<-procReadyCtx.Done()", Instr: func(in ssa.Instruction) bool {
			return IsRecvFrom(in, func(ch ssa.Value) bool { return CtxDoneOf(ch, s.FReadyCtx) })
		}}
	case latchLogReady:
		return Site{Name: "<-procLogReadyCtx.Done()", Instr: func(in ssa.Instruction) bool {
			return IsRecvFrom(in, func(ch ssa.Value) bool { return CtxDoneOf(ch, s.FLogReadyCtx) })
		}}
	default:
		return Site{Name: "<-procStartedChan", Instr: func(in ssa.Instruction) bool {
			return IsRecvFrom(in, func(ch ssa.Value) bool { return PathOf(ch).LastField() == s.FStartedChan })
		}}
	}
}

// WaitPrims lists the *Process methods that block on a latch, per latch.
func (s *Sel) WaitPrims(k latchKind) []*ssa.Function {
	var out []*ssa.Function
	site := s.waitSite(k)
	for _, f := range s.p.FuncsOfPkg("app") {
		if s.IsProcessMethod(f) && f.Parent() == nil && len(DirectSites(f, site)) > 0 {
			out = append(out, f)
		}
	}
	return out
}

func condLatchTable(p *Prog) map[string]latchKind {
	cs := func(n string) string { s, _ := constString(p.Const("types", n)); return s }
	return map[string]latchKind{
		cs("ProcessConditionCompleted"):             latchDone,
		cs("ProcessConditionCompletedSuccessfully"): latchDone,
		cs("ProcessConditionHealthy"):               latchReady,
		cs("ProcessConditionLogReady"):              latchLogReady,
		cs("ProcessConditionStarted"):               latchStarted,
	}
}

func init() {
	register(&PropCheck{
		ID: "C01",
		Explanation: "Structural necessary conditions of dependency gating, decided on the SSA form of the current tree: " +
			"(1) in every process goroutine the gate call dominates the run entry on the error==nil edge, with the config of the same process value; " +
			"(2) there is exactly one launch site and every way to reach it passes that goroutine; (3) the gate's switch covers all five conditions; " +
			"(4) each case blocks on the latch that belongs to its condition, on the looked-up dependency, and the result-bearing cases turn a negative result into an error return; " +
			"(5) the completion wait returns only on the branch that read done==true; (6) each latch is released only where its condition holds " +
			"(done only in the terminal function, which is reached only with no live command; started-channel closed only after the gate; ready/log-ready success only on the success branch); " +
			"(7) the dependency lookup consults both registries, registration precedes the go statement, and every exit of the goroutine leaves the instance findable.",
		Assumptions: []string{
			"instants of events, OS-level liveness and the contents of the registries under arbitrary request histories are not decided",
			"an omitted condition (\"\") is outside the property's quantifier",
			"dynamic calls are resolved by provenance (closure literally passed / concrete type stored), never by CHA, for must-rules",
		},
		Run: runC01,
	})
}

func runC01(c *Ctx) {
	p := c.P
	s := p.Selectors()
	requireN("Gate", s.Gates, 1, 1)
	requireN("Spawn", s.Spawns, 1, 2)
	gate := s.Gates[0]

	// ------------------------------------------------------------------
	rGate := c.Rule("gate-dominates-run", "in every process goroutine each call of the run entry is preceded, on every path, by a call of the gate for the config of the same process value, and is not reachable on the gate's error edge")
	for _, g := range s.ProcGo {
		c.Touch(g, gate)
		gateSite := CallOfFn("Gate", gate)
		runCalls := DirectSites(g, CallOfFn("RunEntry", s.RunEntries...))
		gateCalls := DirectSites(g, gateSite)
		key := p.FuncKey(g)
		r := MustPrecede(g, p.Deep(gateSite), func(in ssa.Instruction) bool { return isOneOf(in, runCalls) }, nil)
		c.PathCheck(r, rGate, key+":gate-before-run", FirstPos(p, g), "gate call dominates every run-entry call", "a run-entry call is reachable without passing the gate")
		for _, gc := range gateCalls {
			call, ok := gc.(*ssa.Call)
			if !ok {
				c.Bad(rGate, key+":gate-call-form", p.InstrPos(gc), "gate is not called synchronously (go/defer)")
				continue
			}
			// on the error edge the run entry is unreachable
			vis := Reach([]Pt{after(call)}, nil, ErrNilEdge(call, false))
			bad := false
			for _, rc := range runCalls {
				if vis[rc] {
					bad = true
					c.Bad(rGate, key+":run-on-error-edge", p.InstrPos(rc), "run entry reachable although the gate returned an error")
				}
			}
			if !bad {
				c.OK(rGate, key+":run-on-error-edge", p.InstrPos(call), "run entry not reachable on the gate's error edge")
			}
			// same process value
			args := ArgsOf(&call.Call)
			same := false
			var gateBase ssa.Value
			if len(args) == 1 {
				ap := PathOf(args[0])
				if len(ap.Fields) == 1 && ap.Fields[0] == s.FProcConf {
					gateBase = ap.Base
				}
			}
			for _, rc := range runCalls {
				rcv := ReceiverOf(CallCommonOf(rc))
				if gateBase != nil && rcv != nil && SameValue(PathOf(rcv).Base, gateBase) {
					same = true
				} else {
					same = false
					break
				}
			}
			c.Check(same && len(runCalls) > 0, rGate, key+":same-process", p.InstrPos(call),
				"gate argument is procConf of the value whose run entry is called", "gate argument is not the config of the process whose run entry is called")
		}
		if len(gateCalls) == 0 {
			c.Bad(rGate, key+":gate-call", FirstPos(p, g), "no gate call in the process goroutine")
		}
	}
	c.Floor(rGate, 3, "process goroutine with gate")

	// ------------------------------------------------------------------
	rSingle := c.Rule("single-launch-path", "Commander.Start is called on Process.command at exactly one site; the run entries are called only from process goroutines; every function that synchronously reaches the launch is a Process method or a process goroutine")
	launchFns := p.FuncsWith(s.LaunchSite)
	nLaunch := 0
	for _, f := range launchFns {
		nLaunch += len(DirectSites(f, s.LaunchSite))
	}
	c.Check(nLaunch == 1, rSingle, "launch-sites", FirstPos(p, s.Starter), "exactly one launch site", fmt.Sprintf("%d launch sites (Commander.Start on Process.command)", nLaunch))
	// other ways to start an OS process from Process.command: Run()/Output()
	mRun, mOut := p.IfaceMethod("command", "Commander", "Run"), p.IfaceMethod("command", "Commander", "Output")
	alt := p.FuncsWith(MethodOnField("alt-launch", s.FCommand, mRun, mOut))
	c.Check(len(alt) == 0, rSingle, "no-alternative-launch", "", "no Run()/Output() on Process.command", "Process.command is started through Run()/Output() outside the launch site")
	for _, re := range s.RunEntries {
		for _, cr := range p.Callers(re) {
			ok := false
			for _, g := range s.ProcGo {
				if cr.Caller == g {
					ok = true
				}
			}
			c.Check(ok, rSingle, "run-entry-caller:"+p.FuncKey(cr.Caller), p.InstrPos(cr.Instr), "run entry called from a process goroutine", "run entry "+p.FuncKey(re)+" is called outside a gated process goroutine")
		}
	}
	ld := p.Deep(s.LaunchSite)
	for _, f := range p.FuncsOfPkg("app") {
		if !ld.May(f) {
			continue
		}
		ok := s.IsProcessMethod(f)
		for _, g := range s.ProcGo {
			if f == g {
				ok = true
			}
		}
		c.Check(ok, rSingle, "reaches-launch:"+p.FuncKey(f), FirstPos(p, f), "reaches the launch through the gated chain", "function reaches the launch synchronously but is neither a Process method nor a gated process goroutine")
	}
	// every go statement that starts a process goroutine is in a Spawn function (by construction); Spawn callers are listed for the record
	for _, sp := range s.Spawns {
		var callers []string
		for _, cr := range p.Callers(sp) {
			callers = append(callers, p.FuncKey(cr.Caller))
		}
		c.Note("spawn %s is called from: %s", p.FuncKey(sp), strings.Join(callers, ", "))
	}

	// ------------------------------------------------------------------
	rExh := c.Rule("gate-exhaustive", "the gate compares the dependency condition with each of the five ProcessCondition* constants")
	isCond := func(v ssa.Value) bool { return PathOf(v).LastField() == s.FCondition }
	cases := EqCasesOn(s.gateSwitchOf(gate), isCond)
	have := map[string][]EqCase{}
	for _, ec := range cases {
		have[ec.Const] = append(have[ec.Const], ec)
	}
	group := p.ConstGroup("types", "ProcessCondition")
	for _, name := range SortedKeys(group) {
		val := group[name]
		c.Check(len(have[val]) > 0, rExh, "case:"+name, FirstPos(p, gate), "case present", "the gate has no case for "+name+" (a dependency with this condition is not awaited)")
	}
	c.Floor(rExh, 5, "ProcessCondition constants")

	s.checkGateCases(c, gate, "case-waits-on-right-latch", true)

	// ------------------------------------------------------------------
	rWait := c.Rule("wait-returns-only-when-released", "a completion wait returns only through the branch on which done was read true (loop form), and the boolean ready-waits return true only on the branch that observed success")
	for _, w := range s.WaitPrims(latchDone) {
		c.Touch(w)
		edge := func(from *ssa.BasicBlock, succ int) bool {
			ifi := IfOf(from)
			if ifi == nil {
				return true
			}
			v, pos := BoolCond(ifi.Cond)
			if PathOf(v).LastField() != s.FDone {
				return true
			}
			doneTrueOnEdge := pos == (succ == 0)
			return !doneTrueOnEdge
		}
		vis := Reach(Entry(w), nil, edge)
		bad := false
		for in := range vis {
			if _, ok := in.(*ssa.Return); ok {
				bad = true
				c.Bad(rWait, p.FuncKey(w)+":return-without-done", p.InstrPos(in), "the wait can return on a path that did not read done==true")
			}
		}
		if !bad {
			c.OK(rWait, p.FuncKey(w)+":return-without-done", FirstPos(p, w), "every return is behind the done==true edge")
		}
	}
	s.checkReadyWaitResults(c, rWait)
	c.Floor(rWait, 1, "completion wait")

	// ------------------------------------------------------------------
	s.checkReleaseSites(c)

	// ------------------------------------------------------------------
	rLook := c.Rule("lookup-both-registries", "the dependency lookup used by the gate consults doneProcesses on every path and returns without consulting runningProcesses only a value that was tested non-nil")
	lookups := s.depLookups(gate)
	for _, l := range lookups {
		c.Touch(l)
		dDone := p.Deep(MapLookupOn("lookup doneProcesses", s.FDoneProcs))
		dRun := p.Deep(MapLookupOn("lookup runningProcesses", s.FRunning))
		c.Check(dDone.Always(l) || dDone.May(l) && alwaysBeforeNilReturn(l, dDone), rLook, p.FuncKey(l)+":done", FirstPos(p, l), "doneProcesses consulted", "the lookup does not consult doneProcesses on every path")
		// returns reachable without passing a runningProcesses lookup must be guarded non-nil
		vis := Reach(Entry(l), dRun.MustAt, nil)
		okAll := true
		for in := range vis {
			ret, ok := in.(*ssa.Return)
			if !ok {
				continue
			}
			if len(ret.Results) != 1 || !returnGuardedNonNil(ret) {
				okAll = false
				c.Bad(rLook, p.FuncKey(l)+":running", p.InstrPos(ret), "the lookup can return (possibly nil) without consulting runningProcesses")
			}
		}
		if okAll {
			c.OK(rLook, p.FuncKey(l)+":running", FirstPos(p, l), "nil is returned only after runningProcesses was consulted")
		}
	}
	c.Floor(rLook, 2, "dependency lookup helper")

	rReg := c.Rule("register-before-go", "in the spawn function the instance is inserted into runningProcesses before the go statement that starts its goroutine")
	for _, sp := range s.Spawns {
		c.Touch(sp)
		ins := p.Deep(MapUpdateOn("insert runningProcesses", s.FRunning))
		r := MustPrecede(sp, ins, func(in ssa.Instruction) bool {
			g, ok := in.(*ssa.Go)
			if !ok {
				return false
			}
			fns, _ := p.Callees(&g.Call, false)
			for _, fn := range fns {
				for _, pg := range s.ProcGo {
					if fn == pg {
						return true
					}
				}
			}
			return false
		}, nil)
		c.PathCheck(r, rReg, p.FuncKey(sp), FirstPos(p, sp), "registration dominates the go statement", "the process goroutine can be started before the instance is registered in runningProcesses")
	}

	s.checkSkippedFindable(c, "skipped-is-findable")
	s.checkExitCodeProvenance(c, "exitcode-provenance")
	s.checkLatchContextsIndependent(c, "latch-contexts-independent")
	// depends_on is dropped only for processes that are selected to run (no-deps selection): a process that is left
	// disabled keeps its dependencies, so a later manual start of it is still gated
	{
		rDrop := c.Rule("dependencies-dropped-only-when-selected", "every store that replaces ProcessConfig.DependsOn in the app package is made in a block that also stores Disabled = false for the same process, or is dominated by one")
		n := 0
		for _, f := range p.FuncsOfPkg("app") {
			for _, in := range DirectSites(f, StoreTo("DependsOn", s.FDependsOn)) {
				n++
				c.Touch(f)
				ok := false
				for _, ds := range DirectSites(f, StoreTo("Disabled", s.FDisabled)) {
					v, _ := StoredValue(ds, s.FDisabled)
					if b, isK := ConstBool(v); isK && !b && (ds.Block() == in.Block() || ds.Block().Dominates(in.Block())) {
						ok = true
					}
				}
				c.Check(ok, rDrop, p.FuncKey(f), p.InstrPos(in), "dropped on the selected edge only", "depends_on is emptied for processes that are not selected (they stay disabled): when such a process is started by hand later it is launched at once, before the processes it depends on have met their conditions")
			}
		}
		if n == 0 {
			c.OK(rDrop, "none", "", "depends_on is never replaced at run time")
		}
	}
	s.checkProbeFailureIsError(c, "probe-failure-is-error")
	s.checkIncompatibleHealthChecksRejected(c, "ready-line-and-probe-rejected")
}

func isOneOf(in ssa.Instruction, set []ssa.Instruction) bool {
	for _, x := range set {
		if x == in {
			return true
		}
	}
	return false
}

// depLookups: functions called in the gate that return *Process.
func (s *Sel) depLookups(gate *ssa.Function) []*ssa.Function {
	var out []*ssa.Function
	AllInstrs(gate, func(in ssa.Instruction) {
		call, ok := in.(*ssa.Call)
		if !ok {
			return
		}
		sc := call.Call.StaticCallee()
		if sc == nil || sc.Blocks == nil {
			return
		}
		res := sc.Signature.Results()
		if res.Len() == 1 && isPtrTo(res.At(0).Type(), s.Process) {
			out = appendUniq(out, sc)
		}
	})
	return out
}

func isPtrTo(t types.Type, n *types.Named) bool {
	pt, ok := t.(*types.Pointer)
	if !ok {
		return false
	}
	nt, ok := pt.Elem().(*types.Named)
	return ok && nt.Obj() == n.Obj()
}

// isDepLookup: v is the result of a lookup call whose argument is the key of a
// range over a DependsOn map.
func (s *Sel) isDepLookup(v ssa.Value, gate *ssa.Function) bool {
	v = stripConv(v)
	if ph, ok := v.(*ssa.Phi); ok {
		for _, e := range ph.Edges {
			if !s.isDepLookup(e, gate) {
				return false
			}
		}
		return len(ph.Edges) > 0
	}
	call, ok := v.(*ssa.Call)
	if !ok {
		return false
	}
	sc := call.Call.StaticCallee()
	if sc == nil {
		return false
	}
	res := sc.Signature.Results()
	if res.Len() != 1 || !isPtrTo(res.At(0).Type(), s.Process) {
		return false
	}
	for _, a := range ArgsOf(&call.Call) {
		if isRangeKeyOver(a, s.FDependsOn) {
			return true
		}
	}
	return false
}

// isRangeKeyOver: v is the key extracted from iterating a map loaded from field.
func isRangeKeyOver(v ssa.Value, field *types.Var) bool {
	ex, ok := stripConv(v).(*ssa.Extract)
	if !ok || ex.Index != 1 {
		return false
	}
	nx, ok := ex.Tuple.(*ssa.Next)
	if !ok {
		return false
	}
	rg, ok := nx.Iter.(*ssa.Range)
	if !ok {
		return false
	}
	return PathOf(rg.X).LastField() == field
}

// checkNegativeResult: the result of waitCall is tested and on the negative
// edge every path returns a non-nil error before the next loop iteration.
func (s *Sel) checkNegativeResult(c *Ctx, rule, construct string, gate *ssa.Function, waitCall *ssa.Call, region map[*ssa.BasicBlock]bool, kind string) {
	p := c.P
	var negEdges []Guard
	for b := range region {
		ifi := IfOf(b)
		if ifi == nil {
			continue
		}
		if kind == "int" {
			cmp, ok := CondCmp(ifi.Cond)
			if !ok {
				continue
			}
			var other ssa.Value
			if stripConv(cmp.X) == ssa.Value(waitCall) {
				other = cmp.Y
			} else if stripConv(cmp.Y) == ssa.Value(waitCall) {
				other = cmp.X
			} else {
				continue
			}
			if z, ok := ConstInt(other); !ok || z != 0 {
				continue
			}
			switch cmp.Op {
			case token.NEQ:
				negEdges = append(negEdges, Guard{ifi, 0})
			case token.EQL:
				negEdges = append(negEdges, Guard{ifi, 1})
			case token.GTR, token.LSS:
				// x > 0 / x < 0 alone does not cover all non-zero codes
			}
		} else {
			v, pos := BoolCond(ifi.Cond)
			if stripConv(v) != ssa.Value(waitCall) {
				continue
			}
			if pos {
				negEdges = append(negEdges, Guard{ifi, 1})
			} else {
				negEdges = append(negEdges, Guard{ifi, 0})
			}
		}
	}
	if len(negEdges) == 0 {
		c.Bad(rule, construct, p.InstrPos(waitCall), "the result of the wait is not tested (a dependency that did not meet the condition lets the dependent start)")
		return
	}
	for _, g := range negEdges {
		start := g.If.Block().Succs[g.Succ]
		vis := Reach([]Pt{{start, 0}}, func(in ssa.Instruction) bool { _, ok := in.(*ssa.Return); return ok }, nil)
		ok := true
		sawRet := false
		for in := range vis {
			switch x := in.(type) {
			case *ssa.Next:
				ok = false
			case *ssa.Return:
				sawRet = true
				if len(x.Results) == 0 || IsNilConst(RetVals(x)[len(x.Results)-1]) {
					ok = false
				}
			}
		}
		c.Check(ok && sawRet, rule, construct, p.InstrPos(g.If), "negative result returns a non-nil error", "on the negative result of the wait the gate does not return an error on every path")
	}
}

// checkReadyWaitResults: boolean wait primitives return true only where
// success was observed: Health == Ready (ready latch) / cause is
// context.Canceled i.e. the nil-cause release (log-ready latch).
func (s *Sel) checkReadyWaitResults(c *Ctx, rule string) {
	p := c.P
	readyConst, _ := constString(p.Const("types", "ProcessHealthReady"))
	for _, k := range []latchKind{latchReady, latchLogReady} {
		for _, w := range s.WaitPrims(k) {
			res := w.Signature.Results()
			if res.Len() != 1 || !types.Identical(res.At(0).Type(), types.Typ[types.Bool]) {
				continue
			}
			c.Touch(w)
			for _, ret := range returnsOf(w) {
				b, isConst := ConstBool(RetVals(ret)[0])
				construct := p.FuncKey(w) + ":true-only-on-success"
				if isConst && !b {
					continue
				}
				ok := false
				for _, g := range GuardsOf(ret) {
					if k == latchReady {
						if cmp, okc := g.Cmp(); okc && cmp.Op == token.EQL {
							if (PathOf(cmp.X).LastField() == s.FHealth && isStr(cmp.Y, readyConst)) || (PathOf(cmp.Y).LastField() == s.FHealth && isStr(cmp.X, readyConst)) {
								ok = true
							}
						}
					} else {
						// errors.Is(cause, context.Canceled) true edge
						v, pos := g.BoolVal()
						if call, okc := v.(*ssa.Call); okc && pos {
							if o := CalleeObj(&call.Call); o != nil && o.Pkg() != nil && o.Pkg().Path() == "errors" && o.Name() == "Is" && len(call.Call.Args) == 2 {
								if isGlobal(call.Call.Args[1], "context", "Canceled") && isCauseOf(call.Call.Args[0], s.FLogReadyCtx) {
									ok = true
								}
							}
						}
					}
				}
				if !isConst {
					// a computed boolean: accept only if it is exactly the success comparison
					if bo, okb := RetVals(ret)[0].(*ssa.BinOp); okb && k == latchReady && bo.Op == token.EQL &&
						((PathOf(bo.X).LastField() == s.FHealth && isStr(bo.Y, readyConst)) || (PathOf(bo.Y).LastField() == s.FHealth && isStr(bo.X, readyConst))) {
						ok = true
					}
				}
				c.Check(ok, rule, construct, p.InstrPos(ret), "true is returned only on the success branch", "the wait on "+k.String()+" returns true on a path that did not observe success")
			}
			// the blocking receive precedes every return
			d := p.Deep(s.waitSite(k))
			r := MustPrecede(w, d, func(in ssa.Instruction) bool { _, ok := in.(*ssa.Return); return ok }, nil)
			c.PathCheck(r, rule, p.FuncKey(w)+":blocks-before-return", FirstPos(p, w), "the receive dominates every return", "the wait can return without blocking on "+k.String())
		}
	}
	for _, w := range s.WaitPrims(latchStarted) {
		c.Touch(w)
		d := p.Deep(s.waitSite(latchStarted))
		r := MustPrecede(w, d, func(in ssa.Instruction) bool { _, ok := in.(*ssa.Return); return ok }, nil)
		c.PathCheck(r, rule, p.FuncKey(w)+":blocks-before-return", FirstPos(p, w), "the receive dominates every return", "the started-wait can return without blocking")
	}
}

func isStr(v ssa.Value, s string) bool {
	x, ok := ConstString(v)
	return ok && x == s
}

func isGlobal(v ssa.Value, pkg, name string) bool {
	u, ok := stripConv(v).(*ssa.UnOp)
	if !ok || u.Op != token.MUL {
		return false
	}
	g, ok := u.X.(*ssa.Global)
	return ok && g.Pkg != nil && g.Pkg.Pkg.Path() == pkg && g.Name() == name
}

func isCauseOf(v ssa.Value, ctxField *types.Var) bool {
	call, ok := stripConv(v).(*ssa.Call)
	if !ok {
		return false
	}
	o := CalleeObj(&call.Call)
	if o == nil || o.Pkg() == nil || o.Pkg().Path() != "context" || o.Name() != "Cause" || len(call.Call.Args) != 1 {
		return false
	}
	return PathOf(call.Call.Args[0]).LastField() == ctxField
}

// returnGuardedNonNil: the returned value was compared against nil and the
// return is on the non-nil edge.
func returnGuardedNonNil(ret *ssa.Return) bool {
	if len(ret.Results) != 1 {
		return false
	}
	rv := RetVals(ret)[0]
	for _, g := range GuardsOf(ret) {
		cmp, ok := g.Cmp()
		if !ok || cmp.Op != token.NEQ {
			continue
		}
		if (SameValue(cmp.X, rv) && IsNilConst(cmp.Y)) || (SameValue(cmp.Y, rv) && IsNilConst(cmp.X)) {
			return true
		}
	}
	return false
}

// alwaysBeforeNilReturn: every return whose value is not guarded non-nil is
// preceded by the site.
func alwaysBeforeNilReturn(f *ssa.Function, d *Deep) bool {
	vis := Reach(Entry(f), d.MustAt, nil)
	for in := range vis {
		if ret, ok := in.(*ssa.Return); ok && !returnGuardedNonNil(ret) {
			return false
		}
	}
	return true
}

// checkGateCases (C01, C05): per condition the right latch is awaited on the
// looked-up dependency and a negative result becomes an error return.
// gateSwitchOf: the function holding the per-condition cases of the gate (the gate itself unless extracted).
func (s *Sel) gateSwitchOf(gate *ssa.Function) *ssa.Function {
	if in, ok := s.GateSwitch[gate]; ok {
		return in
	}
	return gate
}

func (s *Sel) checkGateCases(c *Ctx, outer *ssa.Function, ruleID string, all bool) {
	p := c.P
	gate := s.gateSwitchOf(outer)
	c.Touch(outer, gate)
	isCond := func(v ssa.Value) bool { return PathOf(v).LastField() == s.FCondition }
	cases := EqCasesOn(gate, isCond)
	have := map[string][]EqCase{}
	for _, ec := range cases {
		have[ec.Const] = append(have[ec.Const], ec)
	}
	group := p.ConstGroup("types", "ProcessCondition")
	rLatch := c.Rule(ruleID, "in the case of condition c every path blocks on the latch of c (done / procReadyCtx / procLogReadyCtx / procStartedChan) of the dependency looked up by the depends_on key, and a negative result returns a non-nil error")
	table := condLatchTable(p)
	cs := func(n string) string { x, _ := constString(p.Const("types", n)); return x }
	for _, name := range SortedKeys(group) {
		val := group[name]
		k, known := table[val]
		if !known {
			continue
		}
		for _, ec := range have[val] {
			region := CaseRegion(ec.Target)
			prims := s.WaitPrims(k)
			c.Touch(prims...)
			primSite := CallOfFn("wait("+k.String()+")", prims...)
			deep := p.Deep(Or("wait", primSite, s.waitSite(k)))
			var waitCall *ssa.Call
			vis, left := ReachWithin(ec.Target, region, func(in ssa.Instruction) bool {
				if deep.MustAt(in) {
					if cc, ok := in.(*ssa.Call); ok && waitCall == nil {
						waitCall = cc
					}
					return true
				}
				return false
			})
			_ = vis
			if len(prims) == 0 {
				c.Bad(rLatch, "case:"+name+":wait", p.InstrPos(ec.If), "no Process method blocks on "+k.String())
				continue
			}
			if !c.Check(!left && waitCall != nil, rLatch, "case:"+name+":wait", p.InstrPos(ec.If),
				"every path of the case blocks on "+k.String(), "a path through the case for "+name+" does not block on "+k.String()) {
				continue
			}
			// receiver is the looked-up dependency: result of a *Process-returning call whose argument is the range key
			rcv := ReceiverOf(&waitCall.Call)
			// (with an extracted switch the receiver is a parameter: judged at the call in the gate)
			if prm, isPrm := stripConv(rcv).(*ssa.Parameter); isPrm && gate != outer {
				if call := s.GateSwitchCall[outer]; call != nil {
					for i, q := range gate.Params {
						if q == prm && i < len(call.Call.Args) {
							rcv = call.Call.Args[i]
						}
					}
				}
			}
			c.Check(rcv != nil && s.isDepLookup(rcv, outer), rLatch, "case:"+name+":on-dependency", p.InstrPos(waitCall),
				"wait is performed on the dependency looked up by the depends_on key", "the wait is not performed on the process looked up by the depends_on key")
			// result-bearing cases
			switch val {
			case cs("ProcessConditionCompletedSuccessfully"):
				s.checkNegativeResult(c, rLatch, "case:"+name+":nonzero-exit-is-error", gate, waitCall, region, "int")
			case cs("ProcessConditionHealthy"), cs("ProcessConditionLogReady"):
				s.checkNegativeResult(c, rLatch, "case:"+name+":not-ready-is-error", gate, waitCall, region, "bool")
			}
		}
	}

	// an extracted switch: its error is the gate's error
	if gate != outer {
		call := s.GateSwitchCall[outer]
		okProp := call != nil
		if call != nil {
			n := 0
			for x := range Reach([]Pt{after(call)}, nil, ErrNilEdge(call, false)) {
				if _, isNext := x.(*ssa.Next); isNext {
					okProp = false
				}
				if ret, isRet := x.(*ssa.Return); isRet {
					n++
					if IsNilConst(RetVals(ret)[len(ret.Results)-1]) {
						okProp = false
					}
				}
			}
			if n == 0 {
				okProp = false
			}
		}
		c.Check(okProp, rLatch, "switch-error-propagated", FirstPos(p, outer), "an unmet condition reported by the helper ends the gate with that error", "the gate does not return the error of its per-dependency helper (it goes on to the next dependency or returns nil): a dependent whose condition was not met is launched")
	}
	c.Floor(rLatch, 8, "gate cases")
}

// checkSkippedFindable (C01, C05).
func (s *Sel) checkSkippedFindable(c *Ctx, ruleID string) {
	p := c.P
	rFind := c.Rule(ruleID, "on every path of the process goroutine the instance is inserted into doneProcesses before it is removed from runningProcesses (otherwise a dependent spawned later finds no dependency and is launched ungated)")
	for _, g := range s.ProcGo {
		addDone := p.Deep(MapUpdateOn("insert doneProcesses", s.FDoneProcs))
		del := p.Deep(MapDeleteOn("delete runningProcesses", s.FRunning))
		r := NeverBetween(Entry(g), addDone.MustAt, del, nil)
		c.PathCheck(r, rFind, p.FuncKey(g), FirstPos(p, g), "doneProcesses insertion precedes the removal from runningProcesses on every path",
			"a path removes the instance from runningProcesses without having registered it in doneProcesses (skip path)")
	}
	c.Floor(rFind, 1, "process goroutine")
}
