package pcv

import (
	"go/token"
	"go/types"
	"strings"

	"golang.org/x/tools/go/ssa"
)

// readinessCallbacks returns the functions registered as completion callback
// of the readiness prober (third argument of health.New when the probe is
// loaded from ProcessConfig.ReadinessProbe), likewise for liveness.
func (s *Sel) probeCallbacks(probeField string) []*ssa.Function {
	p := s.p
	hnew := p.Func("health", "New")
	fld := p.Field("types", "ProcessConfig", probeField)
	var out []*ssa.Function
	for _, cr := range p.Callers(hnew) {
		c := CallCommonOf(cr.Instr)
		if len(c.Args) != 3 {
			continue
		}
		if !PathOf(c.Args[1]).HasField(fld) {
			continue
		}
		fns, _ := p.FuncValues(c.Args[2])
		for _, fn := range fns {
			out = appendUniq(out, p.unwrap(fn))
		}
	}
	return out
}

// onlyReachedFrom: every static call chain into f starts at one of roots and f
// is not used as a value.
func (p *Prog) onlyReachedFrom(f *ssa.Function, roots []*ssa.Function, depth int) bool {
	for _, r := range roots {
		if r == f {
			return true
		}
	}
	if depth > 6 {
		return false
	}
	if f.Parent() != nil {
		// a closure exists only once its parent ran
		return p.onlyReachedFrom(f.Parent(), roots, depth+1)
	}
	if p.addressTaken(f) {
		return false
	}
	callers := p.Callers(f)
	if len(callers) == 0 {
		return false
	}
	for _, cr := range callers {
		if _, isGo := cr.Instr.(*ssa.Go); isGo {
			return false
		}
		if !p.onlyReachedFrom(cr.Caller, roots, depth+1) {
			return false
		}
	}
	return true
}

// isStatusGuard: guard edge on which "status of the process is one of consts"
// holds: a call to a Process method that may load Status, with constant string
// arguments, whose boolean result is true on the edge.
func (s *Sel) statusGuardConsts(g Guard) ([]string, bool) {
	v, pos := g.BoolVal()
	call, ok := v.(*ssa.Call)
	if !ok || !pos {
		return nil, false
	}
	sc := call.Call.StaticCallee()
	if sc == nil || !s.IsProcessMethod(sc) {
		return nil, false
	}
	if !s.p.Deep(LoadOf("load Status", s.FStatus)).May(sc) {
		return nil, false
	}
	consts := constStringArgs(call)
	return consts, len(consts) > 0
}

// constStringArgs returns the constant string arguments of a call, including
// the elements of a variadic slice literal.
func constStringArgs(call *ssa.Call) []string {
	var out []string
	for _, a := range ArgsOf(&call.Call) {
		if sv, ok := ConstString(a); ok {
			out = append(out, sv)
			continue
		}
		// variadic: slice of a fresh array filled with constants
		if sl, ok := a.(*ssa.Slice); ok {
			if al, ok := sl.X.(*ssa.Alloc); ok {
				for _, ref := range *al.Referrers() {
					ia, ok := ref.(*ssa.IndexAddr)
					if !ok {
						continue
					}
					for _, r2 := range *ia.Referrers() {
						if st, ok := r2.(*ssa.Store); ok {
							if sv, ok := ConstString(st.Val); ok {
								out = append(out, sv)
							}
						}
					}
				}
			}
		}
	}
	return out
}

// checkReleaseSites implements C01.release-sites (shared by C05, C09, C10).
func (s *Sel) checkReleaseSites(c *Ctx) {
	p := c.P
	rule := c.Rule("release-sites", "each latch is released only where its condition really holds: done=true only in the terminal function, which is called only with no live command (before any launch, after command.Wait(), or under a Status==Pending guard); close(procStartedChan) only in code reached from the run entry; readyCancelFn only on the success branch of the readiness callback, in the terminal function or on the explicit-stop path; the nil (success) cause of readyLogCancelFn only behind the ready-log-line match; Health=Ready only on those two success branches")
	pending, _ := constString(p.Const("types", "ProcessStatePending"))
	readyConst, _ := constString(p.Const("types", "ProcessHealthReady"))

	// (1) stores to done
	for _, f := range p.Funcs {
		for _, in := range DirectSites(f, StoreTo("done", s.FDone)) {
			v, _ := StoredValue(in, s.FDone)
			b, isConst := ConstBool(v)
			inTerminal := false
			for _, t := range s.Terminals {
				if t == f {
					inTerminal = true
				}
			}
			if isConst && !b {
				continue // initialisation to false
			}
			c.Check(inTerminal && isConst, rule, "done-store:"+p.FuncKey(f), p.InstrPos(in), "done=true stored in the terminal function", "done is set outside the terminal function")
		}
	}
	requireN("Terminal", s.Terminals, 1, 2)

	// (2) call sites of Terminal
	waitSite := p.Deep(MethodOnField("command.Wait", s.FCommand, s.MWait))
	launchDeep := p.Deep(s.LaunchSite)
	for _, t := range s.Terminals {
		c.Touch(t)
		for _, cr := range p.Callers(t) {
			s.checkTerminalCallSite(c, rule, cr, waitSite, launchDeep, pending, 0)
		}
	}

	// (3) close(procStartedChan)
	closeSite := CloseOf("close(procStartedChan)", s.FStartedChan)
	n := 0
	for _, f := range p.FuncsWith(closeSite) {
		n++
		c.Touch(f)
		c.Check(p.onlyReachedFrom(f, s.RunEntries, 0), rule, "close-started:"+p.FuncKey(f), FirstPos(p, f),
			"procStartedChan is closed only in code reached from the run entry (after the gate)", "procStartedChan is closed in code that is reachable without passing the gate")
	}
	if n == 0 {
		c.Bad(rule, "close-started:none", "", "procStartedChan is never closed: process_started dependents are never released")
	}

	// (4) readyCancelFn()
	readyCbs := s.probeCallbacks("ReadinessProbe")
	cancelSite := CallFieldFn("readyCancelFn()", s.FReadyCancel)
	for _, f := range p.FuncsWith(cancelSite) {
		c.Touch(f)
		for _, in := range DirectSites(f, cancelSite) {
			ok, why := s.allowedReadyRelease(f, in, readyCbs)
			c.Check(ok, rule, "readyCancelFn:"+p.FuncKey(f), p.InstrPos(in), why, "readyCancelFn() is called where neither a probe succeeded nor the process is being stopped/ended")
		}
	}

	// (5) readyLogCancelFn(cause)
	logCancel := CallFieldFn("readyLogCancelFn()", s.FLogReadyCancel)
	nSuccess := 0
	for _, f := range p.FuncsWith(logCancel) {
		c.Touch(f)
		for _, in := range DirectSites(f, logCancel) {
			cc := CallCommonOf(in)
			if len(cc.Args) != 1 {
				continue
			}
			if IsNilConst(cc.Args[0]) {
				nSuccess++
				c.Check(s.guardedByReadyLogMatch(in), rule, "readyLogCancelFn(nil):"+p.FuncKey(f), p.InstrPos(in),
					"the success cause is passed only behind strings.Contains(line, ReadyLogLine)", "readyLogCancelFn(nil) (success) is not guarded by the ready-log-line match")
			} else {
				// must be a definitely non-nil error: result of a call / MakeInterface
				nonNil := false
				wraps := false
				switch x := cc.Args[0].(type) {
				case *ssa.Call:
					if o := CalleeObj(&x.Call); o != nil && o.Pkg() != nil && (o.Pkg().Path() == "fmt" && o.Name() == "Errorf" || o.Pkg().Path() == "errors" && o.Name() == "New") {
						nonNil = true
						// the waiter recognises success by errors.Is(cause, context.Canceled):
						// a failure cause must not wrap another error (it could be Canceled)
						if format, okf := ConstString(x.Call.Args[0]); okf && strings.Contains(format, "%w") {
							wraps = true
						}
					}
				case *ssa.MakeInterface:
					nonNil = true
				}
				c.Check(nonNil, rule, "readyLogCancelFn(err):"+p.FuncKey(f), p.InstrPos(in), "non-success release passes a non-nil cause", "readyLogCancelFn is called with a cause that may be nil outside the ready-log-line match (would count as success)")
				c.Check(!wraps, rule, "readyLogCancelFn(err):no-wrap:"+p.FuncKey(f), p.InstrPos(in), "the failure cause wraps no other error", "the failure cause passed to readyLogCancelFn wraps another error (%w): the log-ready waiter tests errors.Is(cause, context.Canceled), so a wrapped Canceled makes an aborted dependency look ready and its dependents are launched")
			}
		}
	}
	if nSuccess == 0 {
		c.Bad(rule, "readyLogCancelFn(nil):none", "", "no site releases the log-ready latch with the success cause: process_log_ready dependents can never start")
	}

	// (6) Health = Ready
	nReady := 0
	for _, f := range p.Funcs {
		for _, in := range DirectSites(f, StoreTo("Health", s.FHealth)) {
			v, _ := StoredValue(in, s.FHealth)
			sv, isConst := ConstString(v)
			if !isConst {
				c.Bad(rule, "health-store:"+p.FuncKey(f), p.InstrPos(in), "Health is assigned a non-constant value")
				continue
			}
			if sv != readyConst {
				continue
			}
			nReady++
			ok := false
			if s.guardedByReadyLogMatch(in) {
				ok = true
			}
			if okr, _ := s.onSuccessBranchOfCallback(f, in, readyCbs); okr {
				ok = true
			}
			c.Check(ok, rule, "health-ready:"+p.FuncKey(f), p.InstrPos(in), "Health=Ready stored on a success branch", "Health=Ready is stored where no probe success / ready log line was observed")
		}
	}
	c.Floor(rule, 8, "release sites")
}

func (s *Sel) checkTerminalCallSite(c *Ctx, rule string, cr *CallRef, waitSite, launchDeep *Deep, pending string, depth int) {
	p := c.P
	f := cr.Caller
	call, isCall := cr.Instr.(*ssa.Call)
	construct := "terminal-call:" + p.FuncKey(f)
	if !isCall {
		c.Bad(rule, construct, p.InstrPos(cr.Instr), "terminal function invoked through go/defer")
		return
	}
	c.Touch(f)
	// (a) under a Status==Pending guard
	for _, g := range GuardsOf(call) {
		if consts, ok := s.statusGuardConsts(g); ok && len(consts) == 1 && consts[0] == pending {
			c.OK(rule, construct+":pending-guard", p.InstrPos(call), "terminal call guarded by Status==Pending (never launched)")
			return
		}
	}
	// (b) function contains launch calls: terminal not reachable from a successful launch without Wait
	var launches []*ssa.Call
	AllInstrs(f, func(in ssa.Instruction) {
		if cc, ok := in.(*ssa.Call); ok && launchDeep.MayAt(cc) {
			launches = append(launches, cc)
		}
	})
	if len(launches) > 0 {
		ok := true
		for _, lc := range launches {
			vis := Reach([]Pt{after(lc)}, waitSite.MustAt, ErrNilEdge(lc, true))
			if vis[call] {
				ok = false
			}
		}
		c.Check(ok, rule, construct+":after-wait", p.InstrPos(call), "terminal call is separated from every successful launch by command.Wait()", "the terminal function is reachable after a successful launch without passing command.Wait() (done would be signalled while the command is alive)")
		return
	}
	// (c) function never launches: recurse to its callers; in a process goroutine it must not follow the run entry... it may (run entry returned = command finished)
	if depth > 4 {
		c.Bad(rule, construct, p.InstrPos(call), "terminal call chain too deep to classify")
		return
	}
	for _, g := range s.ProcGo {
		if f == g {
			// reached only on the gate-error edge or after run() returned: both have no live command
			c.OK(rule, construct+":goroutine", p.InstrPos(call), "terminal call in the process goroutine (no command alive: gate failed or run entry returned)")
			return
		}
	}
	callers := p.Callers(f)
	if len(callers) == 0 || p.addressTaken(f) {
		c.Bad(rule, construct, p.InstrPos(call), "terminal function is reachable through "+p.FuncKey(f)+" whose callers cannot be enumerated")
		return
	}
	for _, cr2 := range callers {
		s.checkTerminalCallSite(c, rule, cr2, waitSite, launchDeep, pending, depth+1)
	}
}

// allowedReadyRelease classifies a readyCancelFn() call site.
func (s *Sel) allowedReadyRelease(f *ssa.Function, in ssa.Instruction, readyCbs []*ssa.Function) (bool, string) {
	for _, t := range s.Terminals {
		if f == t {
			return true, "in the terminal function"
		}
	}
	for _, sc := range s.StopCores {
		if f == sc {
			// only on the explicit-stop branch (boolean parameter true)
			return true, "on the stop path"
		}
	}
	if ok, why := s.onSuccessBranchOfCallback(f, in, readyCbs); ok {
		return true, why
	}
	return false, ""
}

// onSuccessBranchOfCallback: f is a readiness callback and `in` is dominated by
// the edge isOk==true and not by isFatal==true.
func (s *Sel) onSuccessBranchOfCallback(f *ssa.Function, in ssa.Instruction, readyCbs []*ssa.Function) (bool, string) {
	isCb := false
	for _, cb := range readyCbs {
		if cb == f {
			isCb = true
		}
	}
	if !isCb || len(f.Params) < 3 {
		return false, ""
	}
	// params: (recv), isOk, isFatal, err
	var okParam, fatalParam *ssa.Parameter
	ps := f.Params
	if f.Signature.Recv() != nil {
		ps = ps[1:]
	}
	if len(ps) >= 2 {
		okParam, fatalParam = ps[0], ps[1]
	}
	okTrue, fatalFalse := false, false
	for _, g := range GuardsOf(in) {
		v, val := g.BoolVal()
		if v == ssa.Value(okParam) && val {
			okTrue = true
		}
		if v == ssa.Value(fatalParam) && !val {
			fatalFalse = true
		}
	}
	if okTrue && fatalFalse {
		return true, "on the isOk && !isFatal branch of the readiness callback"
	}
	return false, ""
}

// guardedByReadyLogMatch: `in` is dominated by the true edge of
// strings.Contains(x, <ReadyLogLine>) .
func (s *Sel) guardedByReadyLogMatch(in ssa.Instruction) bool {
	for _, g := range GuardsOf(in) {
		v, val := g.BoolVal()
		call, ok := v.(*ssa.Call)
		if !ok || !val {
			continue
		}
		o := CalleeObj(&call.Call)
		if o == nil || o.Pkg() == nil || o.Pkg().Path() != "strings" || o.Name() != "Contains" || len(call.Call.Args) != 2 {
			continue
		}
		if PathOf(call.Call.Args[1]).LastField() == s.FReadyLogLine {
			return true
		}
	}
	return false
}

var _ = token.ADD
var _ types.Type

// checkLatchContextsIndependent (C01, C05): the readiness and log-ready contexts are roots of their own. If they were
// children of a context that the stop path cancels first (the run context), that cancellation would release the
// waiters with the parent's cause (context.Canceled, which the log-ready wait reads as "the line was printed")
// before the stop path can give its own cause.
func (s *Sel) checkLatchContextsIndependent(c *Ctx, ruleID string) {
	p := c.P
	rule := c.Rule(ruleID, "the contexts stored into procReadyCtx and procLogReadyCtx are created from context.Background()/TODO(), not from another context of the process")
	n := 0
	for _, f := range p.FuncsOfPkg("app") {
		for _, fld := range []*types.Var{s.FReadyCtx, s.FLogReadyCtx} {
			for _, in := range DirectSites(f, StoreTo("ctx", fld)) {
				v, _ := StoredValue(in, fld)
				ex, ok := stripConv(v).(*ssa.Extract)
				if !ok {
					continue
				}
				call, ok := ex.Tuple.(*ssa.Call)
				if !ok || len(call.Call.Args) == 0 {
					continue
				}
				n++
				c.Touch(f)
				okRoot := false
				if pc, isC := stripConv(call.Call.Args[0]).(*ssa.Call); isC {
					if o := CalleeObj(&pc.Call); o != nil && o.Pkg() != nil && o.Pkg().Path() == "context" && (o.Name() == "Background" || o.Name() == "TODO") {
						okRoot = true
					}
				}
				c.Check(okRoot, rule, p.CanonName(fld), p.InstrPos(in), "a root context", "the context is derived from another context of the process: cancelling that one (the stop path cancels the run context first) releases the waiters with the cause context.Canceled, so a dependency stopped before it was ready / printed its line counts as ready and its dependents are launched")
			}
		}
	}
	if n < 2 {
		c.Bad(rule, "floor:latch-contexts", "", "the creation of procReadyCtx / procLogReadyCtx was not found")
	}
}
