package pcv

import (
	"strings"
	"go/types"

	"golang.org/x/tools/go/ssa"
)

func init() {
	register(&PropCheck{
		ID: "C12",
		Explanation: "Ordered shutdown, structural part: (1) the reverse-dependency map records, on every path on which a dependency is found running, the dependent under that dependency (not only the first one); " +
			"(2) in the per-process goroutine of the ordered shutdown the stop is preceded by a WaitGroup join of goroutines that each wait for the completion of one recorded dependent, one per element of the recorded set; " +
			"(3) the ordered list is produced by the dependency-order traversal and reversed before the stop phase; (4) every stopped instance is awaited.",
		Assumptions: []string{"real ordering of signals in time and completion (deadlock-freedom relies on acyclicity) are not decided"},
		Run:         runC12,
	})
}

func runC12(c *Ctx) {
	p := c.P
	s := p.Selectors()
	s.checkOrderedOrderComplete(c)
	shut := s.shutdownFn()

	// the function building the reverse-dependency map: returns map[string]map[string]*Process
	var revFns []*ssa.Function
	for _, f := range p.FuncsOfPkg("app") {
		if !s.IsRunnerMethod(f) || f.Parent() != nil {
			continue
		}
		res := f.Signature.Results()
		if res.Len() != 1 {
			continue
		}
		if isRevDepMap(res.At(0).Type(), s) {
			revFns = append(revFns, f)
		}
	}

	// ------------------------------------------------------------------ (1)
	rRev := c.Rule("revdeps-complete", "in the function building the reverse-dependency map, every path from the edge on which a dependency is found in runningProcesses to the next iteration inserts the depending process (the element of the outer iteration) into an inner map")
	for _, f := range revFns {
		c.Touch(f)
		n := 0
		for _, b := range f.Blocks {
			ifi := IfOf(b)
			if ifi == nil {
				continue
			}
			v, pos := BoolCond(ifi.Cond)
			ex, ok := v.(*ssa.Extract)
			if !ok || ex.Index != 1 {
				continue
			}
			lk, ok := ex.Tuple.(*ssa.Lookup)
			if !ok || !lk.CommaOk || PathOf(lk.X).LastField() != s.FRunning {
				continue
			}
			// key must come from a range over DependsOn
			if !isRangeKeyOver(lk.Index, s.FDependsOn) {
				continue
			}
			n++
			found := 0
			if !pos {
				found = 1
			}
			isInsert := func(in ssa.Instruction) bool {
				mu, ok := in.(*ssa.MapUpdate)
				if !ok || !isPtrTo(mu.Value.Type(), s.Process) {
					return false
				}
				// the value is the element of the outer iteration over runningProcesses
				return isRangeValueOver(mu.Value, s.FRunning)
			}
			vis := Reach([]Pt{{b.Succs[found], 0}}, isInsert, nil)
			bad := false
			for in := range vis {
				if isInsert(in) {
					continue
				}
				switch in.(type) {
				case *ssa.Next, *ssa.Return:
					bad = true
				}
			}
			c.Check(!bad, rRev, p.FuncKey(f), p.InstrPos(ifi), "the dependent is recorded on every path", "a path on which the dependency is running reaches the next iteration without recording the dependent (only the first dependent of a process is recorded): with fan-in the dependency is stopped while another dependent is still alive")
		}
		if n == 0 {
			c.Bad(rRev, p.FuncKey(f)+":lookup", FirstPos(p, f), "the function does not test whether the dependency is running")
		}
		// every registered process and every one of its depends_on entries is examined: the iterations are left
		// only when they are exhausted (no break / return out of the loops)
		early := ""
		for _, lp := range NaturalLoops(f) {
			for b := range lp.Blocks {
				if b == lp.Header {
					continue
				}
				for _, sc := range b.Succs {
					if !lp.Blocks[sc] {
						early = "a block of " + p.FuncKey(f)
						for i := len(b.Instrs) - 1; i >= 0; i-- {
							if b.Instrs[i].Pos().IsValid() {
								early = p.Pos(b.Instrs[i].Pos())
								break
							}
						}
					}
				}
			}
		}
		c.Check(early == "", rRev, p.FuncKey(f)+":no-early-exit", FirstPos(p, f), "the iterations run to exhaustion", "an iteration over the registered processes or over depends_on is left early (break/return at "+early+"): dependents recorded after that point are missing, so a dependency is stopped while such a dependent is alive")
		// the dependent is recorded under its registry (replica) name
		for _, in := range FindInstrs(f, func(in ssa.Instruction) bool {
			mu, ok := in.(*ssa.MapUpdate)
			return ok && isPtrTo(mu.Value.Type(), s.Process)
		}) {
			mu := in.(*ssa.MapUpdate)
			okKey := false
			switch k := stripConv(mu.Key).(type) {
			case *ssa.Call:
				if sc := k.Call.StaticCallee(); sc != nil && s.IsProcessMethod(sc) {
					okKey = true
					for _, ret := range returnsOf(sc) {
						if PathOf(RetVals(ret)[0]).LastField() != s.FReplicaName {
							okKey = false
						}
					}
					if rv := ReceiverOf(&k.Call); rv == nil || !SameValue(rv, mu.Value) {
						okKey = false
					}
				}
			default:
				if PathOf(mu.Key).LastField() == s.FReplicaName {
					okKey = true
				}
			}
			c.Check(okKey, rRev, p.FuncKey(f)+":dependent-key", p.InstrPos(in), "the dependent is recorded under its replica name", "dependents are recorded under a key that is not unique per instance (e.g. the process name shared by all replicas): replicas overwrite each other, only one is awaited and the dependency is stopped while the others are still alive")
		}
		// every registered instance is examined: from the start of an outer iteration the inner loop over depends_on is always reached
		for _, l := range RangeLoops(f) {
			if PathOf(l.Coll).LastField() != s.FRunning {
				continue
			}
			isInner := func(in ssa.Instruction) bool {
				rg, ok := in.(*ssa.Range)
				return ok && PathOf(rg.X).LastField() == s.FDependsOn
			}
			vis := Reach([]Pt{{l.Body, 0}}, isInner, nil)
			c.Check(!vis[l.If], rRev, p.FuncKey(f)+":every-instance-examined", p.InstrPos(l.If), "the dependencies of every registered instance are examined", "an extra condition skips some registered instances (e.g. those not in a running-class state, such as one that is terminating but still alive): their dependencies are stopped without waiting for them")
		}
	}
	if len(revFns) == 0 {
		c.Bad(rRev, "none", "", "no function builds a reverse-dependency map")
	}

	// ------------------------------------------------------------------ (2)
	rWait := c.Rule("wait-dependents-before-stop", "in each per-process goroutine of the ordered shutdown the explicit stop is preceded on every path by WaitGroup.Wait of a local group; the loop over the recorded dependents adds to that group and starts, per element, a goroutine that always waits for the element's completion and calls Done")
	stopDeep := p.Deep(s.stopCoreCall(true, false))
	waitDone := p.Deep(Or("waitForCompletion", CallOfFn("wait", s.WaitPrims(latchDone)...), s.waitSite(latchDone)))
	wgWait, wgAdd, wgDone := wgMethod(p, "Wait"), wgMethod(p, "Add"), wgMethod(p, "Done")
	nG := 0
	for _, f := range p.FuncsOfPkg("app") {
		if f.Parent() == nil || !p.reachedFrom(f, shut) {
			continue
		}
		// closures that look up the reverse-dependency map (free variable of that map type)
		usesRev := false
		for _, fv := range f.FreeVars {
			if isRevDepMap(fv.Type(), s) {
				usesRev = true
			}
		}
		if !usesRev {
			continue
		}
		nG++
		c.Touch(f)
		var stops []ssa.Instruction
		AllInstrs(f, func(in ssa.Instruction) {
			if call, ok := in.(*ssa.Call); ok && stopDeep.MayAt(call) {
				stops = append(stops, in)
			}
		})
		if len(stops) == 0 {
			c.Bad(rWait, p.FuncKey(f)+":stop", FirstPos(p, f), "the ordered-shutdown goroutine does not stop its process")
			continue
		}
		join := p.Deep(CallOf("WaitGroup.Wait", wgWait))
		r := MustPrecede(f, join, func(in ssa.Instruction) bool { return isOneOf(in, stops) }, nil)
		c.PathCheck(r, rWait, p.FuncKey(f)+":join-before-stop", FirstPos(p, f), "the join of the dependents' waiters dominates the stop", "the process can be stopped before the wait for its dependents was joined")
		// loop over the recorded dependents
		loopOK := false
		for _, l := range RangeLoops(f) {
			// collection: result of looking up the reverse-dependency map
			coll := stripConv(l.Coll)
			if ex, ok := coll.(*ssa.Extract); ok {
				coll = ex.Tuple
			}
			lk, ok := coll.(*ssa.Lookup)
			if !ok || !isRevDepMap(lk.X.Type(), s) {
				continue
			}
			add := p.Deep(CallOf("WaitGroup.Add", wgAdd))
			goWaiter := p.Deep(Site{Name: "go waiter", Instr: func(in ssa.Instruction) bool {
				g, ok := in.(*ssa.Go)
				if !ok {
					return false
				}
				fns, complete := p.Callees(&g.Call, false)
				if !complete || len(fns) == 0 {
					return false
				}
				for _, fn := range fns {
					if !waitDone.Always(fn) || !p.Deep(CallOf("WaitGroup.Done", wgDone)).Always(fn) {
						return false
					}
				}
				// the goroutine is handed the loop element
				return true
			}})
			if l.bodyAlways(add) && l.bodyAlways(goWaiter) {
				loopOK = true
			}
		}
		c.Check(loopOK, rWait, p.FuncKey(f)+":waiter-per-dependent", FirstPos(p, f), "one counted waiter goroutine per recorded dependent", "the loop over the recorded dependents does not start, for every element, a counted goroutine that waits for its completion")
	}
	if nG == 0 {
		c.Bad(rWait, "none", "", "no ordered-shutdown goroutine consults the reverse-dependency map")
	}

	// ------------------------------------------------------------------ (3)
	rOrd := c.Rule("order-source", "on the ordered branch of the shutdown function the list of instances is filled by the callback of the dependency-order traversal (Project.WithProcesses) and reversed (slices.Reverse) on every path before the stop phase starts")
	c.Touch(shut)
	withProc := p.TryMethod("types", "Project", "WithProcesses")
	if withProc == nil {
		broken("ANCHOR-UNRESOLVED types.(*Project).WithProcesses")
	}
	orderedEdges := []Guard{}
	for _, b := range shut.Blocks {
		if ifi := IfOf(b); ifi != nil {
			v, pos := BoolCond(ifi.Cond)
			if PathOf(v).LastField() == s.FOrdered {
				succ := 0
				if !pos {
					succ = 1
				}
				orderedEdges = append(orderedEdges, Guard{ifi, succ})
			}
		}
	}
	if len(orderedEdges) == 0 {
		c.Bad(rOrd, "ordered-branch", FirstPos(p, shut), "the shutdown function does not branch on the ordered-shutdown option")
	}
	for _, g := range orderedEdges {
		start := g.If.Block().Succs[g.Succ]
		trav := p.Deep(CallOfFn("WithProcesses", withProc))
		rev := p.Deep(Site{Name: "slices.Reverse", Call: func(cc *ssa.CallCommon) bool {
			sc := cc.StaticCallee()
			if sc == nil {
				return false
			}
			o := sc.Object()
			if o == nil && sc.Origin() != nil {
				o = sc.Origin().Object()
			}
			return o != nil && o.Pkg() != nil && o.Pkg().Path() == "slices" && o.Name() == "Reverse"
		}})
		stopPhase := func(in ssa.Instruction) bool {
			call, ok := in.(*ssa.Call)
			return ok && stopDeep.MayAt(call)
		}
		vis := Reach([]Pt{{start, 0}}, trav.MustAt, nil)
		bad := false
		for in := range vis {
			if stopPhase(in) && !trav.MustAt(in) {
				bad = true
			}
		}
		c.Check(!bad, rOrd, "traversal-before-stop", p.InstrPos(g.If), "the traversal precedes the stop phase on the ordered branch", "on the ordered branch the stop phase is reachable without the dependency-order traversal")
		vis = Reach([]Pt{{start, 0}}, rev.MustAt, nil)
		bad = false
		for in := range vis {
			if stopPhase(in) && !rev.MustAt(in) {
				bad = true
			}
		}
		c.Check(!bad, rOrd, "reversed-before-stop", p.InstrPos(g.If), "the list is reversed before the stop phase", "on the ordered branch the stop phase can start with the list in start order (dependencies stopped first)")
	}
	// the traversal is post-order (dependencies first)
	s.checkPostorder(c, "traversal-postorder")

	// ------------------------------------------------------------------ (4) shared with C03: stop then wait
	rJoin := c.Rule("ordered-stop-then-wait", "in the ordered-shutdown goroutine the success edge of the stop is followed on every path by a completion wait of the stopped instance")
	for _, f := range p.FuncsOfPkg("app") {
		if f.Parent() == nil || !p.reachedFrom(f, shut) {
			continue
		}
		usesRev := false
		for _, fv := range f.FreeVars {
			if isRevDepMap(fv.Type(), s) {
				usesRev = true
			}
		}
		if !usesRev {
			continue
		}
		AllInstrs(f, func(in ssa.Instruction) {
			call, ok := in.(*ssa.Call)
			if !ok || !stopDeep.MayAt(call) {
				return
			}
			r := MustFollow([]Pt{after(call)}, waitDone, ErrNilEdge(call, true))
			c.PathCheck(r, rJoin, p.FuncKey(f), p.InstrPos(call), "stop is followed by the completion wait", "after a successful stop the ordered-shutdown goroutine can finish without waiting for the instance")
		})
	}
	c.Floor(rJoin, 1, "ordered-shutdown goroutine")
	s.checkDaemonRelease(c, "daemon-released-after-configured-stop")
}

func isRevDepMap(t types.Type, s *Sel) bool {
	// through pointers (captured variable cells)
	if pt, ok := t.(*types.Pointer); ok {
		t = pt.Elem()
	}
	m, ok := t.Underlying().(*types.Map)
	if !ok {
		return false
	}
	inner, ok := m.Elem().Underlying().(*types.Map)
	if !ok {
		return false
	}
	return isPtrTo(inner.Elem(), s.Process)
}

// isRangeValueOver: v is the value extracted from iterating a map loaded from field.
func isRangeValueOver(v ssa.Value, field *types.Var) bool {
	ex, ok := stripConv(v).(*ssa.Extract)
	if !ok || ex.Index != 2 {
		return false
	}
	nx, ok := ex.Tuple.(*ssa.Next)
	if !ok {
		return false
	}
	rg, ok := nx.Iter.(*ssa.Range)
	if !ok {
		return false
	}
	return PathOf(rg.X).LastField() == field
}

// checkPostorder (C07, C12): in the recursive traversal the recursive call on
// the dependencies precedes the callback, guarded by a visited test-and-set.
func (s *Sel) checkPostorder(c *Ctx, ruleID string) {
	p := c.P
	rule := c.Rule(ruleID, "in the recursive dependency traversal, for each process: the visited flag is tested before anything else and set before the recursion; the recursive call over the process's dependencies precedes the callback on every path that invokes the callback; the callback is reached on every path on which the recursion succeeded")
	// the traversal: a method of *types.Project with a function-typed parameter that calls itself
	var trav *ssa.Function
	project := p.Named("types", "Project")
	for _, f := range p.FuncsOfPkg("types") {
		if f.Parent() != nil {
			continue
		}
		// a method of *Project, or a package function whose first parameter is the project
		onProject := recvIs(f, project)
		if !onProject && len(f.Params) > 0 && isPtrTo(f.Params[0].Type(), project) {
			onProject = true
		}
		if !onProject {
			continue
		}
		selfCall := len(DirectSites(f, CallOfFn("self", f))) > 0
		hasFn := false
		for _, prm := range f.Params {
			if _, ok := prm.Type().Underlying().(*types.Signature); ok {
				hasFn = true
			}
		}
		if selfCall && hasFn {
			trav = f
		}
	}
	if trav == nil {
		c.Bad(rule, "traversal", "", "no recursive traversal with a callback found in types.Project")
		return
	}
	c.Touch(trav)
	var fnParam, doneParam *ssa.Parameter
	for _, prm := range trav.Params {
		switch prm.Type().Underlying().(type) {
		case *types.Signature:
			fnParam = prm
		case *types.Map:
			doneParam = prm
		}
	}
	if fnParam == nil || doneParam == nil {
		c.Bad(rule, "traversal-shape", FirstPos(p, trav), "the traversal has no callback or no visited-set parameter")
		return
	}
	// every requested name and every process behind it is visited: the traversal's iterations end by exhaustion
	// or by returning an error
	if ex := EarlyLoopExits(p, trav, true); true {
		c.Check(len(ex) == 0, rule, "exhaustive:"+p.FuncKey(trav), FirstPos(p, trav), "iterations run to exhaustion", "the traversal leaves an iteration early ("+strings.Join(ex, ", ")+"), e.g. at the first already-visited process: the processes after it are missing from the run order / the ordered shutdown list")
	}
	isCb := func(in ssa.Instruction) bool {
		call, ok := in.(*ssa.Call)
		return ok && call.Call.Value == ssa.Value(fnParam)
	}
	isRec := func(in ssa.Instruction) bool {
		call, ok := in.(*ssa.Call)
		return ok && call.Call.StaticCallee() == trav
	}
	isMark := func(in ssa.Instruction) bool {
		mu, ok := in.(*ssa.MapUpdate)
		if !ok || mu.Map != ssa.Value(doneParam) {
			return false
		}
		b, okb := ConstBool(mu.Value)
		return okb && b
	}
	isTest := func(in ssa.Instruction) bool {
		lk, ok := in.(*ssa.Lookup)
		return ok && lk.X == ssa.Value(doneParam)
	}
	// per loop body
	loops := RangeLoops(trav)
	n := 0
	for _, l := range loops {
		hasCb := false
		for b := range DominatedBlocks(l.Body) {
			for _, in := range b.Instrs {
				if isCb(in) {
					hasCb = true
				}
			}
		}
		if !hasCb {
			continue
		}
		n++
		// (a) test before mark/recursion/callback
		vis := Reach([]Pt{{l.Body, 0}}, isTest, nil)
		bad := false
		for in := range vis {
			if isMark(in) || isRec(in) || isCb(in) {
				bad = true
			}
		}
		c.Check(!bad, rule, "visited-test-first", p.InstrPos(l.If), "the visited test comes first", "a process can be visited (recursion/callback) before the visited flag is tested: it may be started twice")
		// the test's true edge skips everything
		skipOK := false
		for b := range DominatedBlocks(l.Body) {
			ifi := IfOf(b)
			if ifi == nil {
				continue
			}
			v, pos := BoolCond(ifi.Cond)
			lk, ok := stripConv(v).(*ssa.Lookup)
			if !ok || lk.X != ssa.Value(doneParam) {
				continue
			}
			succ := 0
			if !pos {
				succ = 1
			}
			vis := Reach([]Pt{{b.Succs[succ], 0}}, func(in ssa.Instruction) bool { return in == ssa.Instruction(l.If) }, nil)
			skipOK = true
			for in := range vis {
				if isCb(in) || isRec(in) {
					skipOK = false
				}
			}
		}
		c.Check(skipOK, rule, "visited-skips", p.InstrPos(l.If), "an already visited process is skipped", "an already visited process is not skipped (callback invoked more than once per process)")
		// (b) mark before recursion
		vis = Reach([]Pt{{l.Body, 0}}, isMark, nil)
		bad = false
		for in := range vis {
			if isRec(in) || isCb(in) {
				bad = true
			}
		}
		c.Check(!bad, rule, "mark-before-recursion", p.InstrPos(l.If), "visited flag set before recursion and callback", "recursion or callback can happen before the process is marked visited")
		// (c) recursion before callback whenever there are dependencies:
		// the callback must not be reachable from the "has dependencies" edge without the recursion
		for b := range DominatedBlocks(l.Body) {
			ifi := IfOf(b)
			if ifi == nil {
				continue
			}
			cmp, ok := CondCmp(ifi.Cond)
			if !ok {
				continue
			}
			lenCall, ok := stripConv(cmp.X).(*ssa.Call)
			if !ok {
				continue
			}
			if bi, isB := lenCall.Call.Value.(*ssa.Builtin); !isB || bi.Name() != "len" {
				continue
			}
			if z, okz := ConstInt(cmp.Y); !okz || z != 0 {
				continue
			}
			hasDeps := -1
			switch cmp.Op.String() {
			case ">", "!=":
				hasDeps = 0
			case "==", "<=":
				hasDeps = 1
			}
			if hasDeps < 0 {
				continue
			}
			vis := Reach([]Pt{{b.Succs[hasDeps], 0}}, isRec, nil)
			bad := false
			for in := range vis {
				if isCb(in) {
					bad = true
				}
			}
			c.Check(!bad, rule, "dependencies-first", p.InstrPos(ifi), "the recursion over the dependencies precedes the callback", "the callback of a process can be invoked before the traversal of its dependencies (order is not dependencies-first)")
			// the recursion's argument is the dependency list of this process
			AllInstrs(trav, func(in ssa.Instruction) {
				if isRec(in) {
					args := ArgsOf(CallCommonOf(in))
					ok := false
					// the argument that carries the names (a []string) - first after the receiver / project
					for _, a := range args {
						if _, isSl := a.Type().Underlying().(*types.Slice); !isSl {
							continue
						}
						if call, isCall := stripConv(a).(*ssa.Call); isCall {
							if sc := call.Call.StaticCallee(); sc != nil && len(FindInstrs(sc, func(x ssa.Instruction) bool { _, isR := x.(*ssa.Range); return isR && PathOf(x.(*ssa.Range).X).LastField() == s.FDependsOn })) > 0 {
								ok = true
							}
						}
					}
					c.Check(ok, rule, "recursion-over-dependencies", p.InstrPos(in), "the recursion is over the process's depends_on names", "the recursive call is not made over the dependencies of the current process")
				}
			})
		}
		// (d) callback reached when recursion succeeded: from after the recursion on the nil-error edge
		AllInstrs(trav, func(in ssa.Instruction) {
			call, ok := in.(*ssa.Call)
			if !ok || !isRec(in) {
				return
			}
			vis := Reach([]Pt{after(call)}, isCb, ErrNilEdge(call, true))
			bad := false
			for x := range vis {
				if x == ssa.Instruction(l.If) && !isCb(x) {
					bad = true
				}
				if _, isRet := x.(*ssa.Return); isRet {
					bad = true
				}
			}
			c.Check(!bad, rule, "callback-after-successful-recursion", p.InstrPos(call), "the callback follows a successful recursion on every path", "after a successful traversal of its dependencies a process can be skipped without the callback (it would never be started)")
		})
	}
	if n == 0 {
		c.Bad(rule, "loop", FirstPos(p, trav), "no loop invoking the callback found in the traversal")
	}
}
