package pcv

import (
	"fmt"
	"go/constant"
	"go/types"
	"sort"
	"strings"

	"golang.org/x/tools/go/ssa"
)

func init() {
	register(&PropCheck{
		ID: "C16",
		Explanation: "Deterministic load, defaults, per-replica configuration, structural part: (1) the stages of Load run in the order defaults < clone replicas < render templates < assign executable/args < validate; " +
			"(2) decision table of the defaulting function: every process ends with Replicas >= 1, LaunchTimeout >= 1, a non-empty namespace and Name = its map key; " +
			"(3) for every reference-typed field of ProcessConfig that the repository writes through (probes, vars), the replica-cloning loop assigns a value that is fresh per iteration, along the whole written-through access path; " +
			"(4) the renderer assigns Command, WorkingDir, LogLocation, Description and the probe fields Exec.Command, HttpGet.Host/Path/Port from the template engine, for every process of the map, after the replica number was put into the variables; " +
			"(5) lists built by iterating a map inside the load path are sorted before they are stored into the project.",
		Assumptions: []string{"determinism in general (only aliasing and map-order sources are decided) and yaml/template semantics are not decided"},
		Run:         runC16,
	})
}

func runC16(c *Ctx) {
	p := c.P
	s := p.Selectors()
	s.checkErrorsNotSwallowed(c, "errors-not-swallowed", inPkgs("loader", "templater"), "a failing load or render step would yield a partly processed project")
	lp := p.loadPipeline()
	c.Touch(lp.Load)

	// classify stage functions semantically
	render := p.TryMethod("templater", "Templater", "RenderProcess")
	assign := p.TryMethod("types", "ProcessConfig", "AssignProcessExecutableAndArgs")
	if render == nil || assign == nil {
		broken("ANCHOR-UNRESOLVED RenderProcess / AssignProcessExecutableAndArgs")
	}
	var order []string
	role := func(f *ssa.Function) string {
		switch {
		case len(DirectSites(f, StoreTo("ReplicaNum", s.FReplicaNum))) > 0:
			return "clone"
		case len(DirectSites(f, CallOfFn("render", render))) > 0:
			return "render"
		case len(DirectSites(f, CallOfFn("assign", assign))) > 0:
			return "assign"
		case len(DirectSites(f, StoreTo("Namespace", p.Field("types", "ProcessConfig", "Namespace")))) > 0:
			return "defaults"
		}
		return ""
	}
	roleFn := map[string]*ssa.Function{}
	for _, st := range lp.Stages {
		for _, f := range st.Fns {
			r := role(f)
			if st.Kind == "validator" {
				r = "validate"
			}
			if r != "" && (len(order) == 0 || order[len(order)-1] != r) {
				order = append(order, r)
			}
			if r != "" && r != "validate" {
				roleFn[r] = f
			}
		}
	}

	s.checkSnapshotOrder(c, "snapshot-before-render")
	// ------------------------------------------------------------------ (1)
	r1 := c.Rule("pipeline-order", "the function values passed to the apply / applyWithErr / validate stages of Load appear in the order: defaulting function, replica cloning, template rendering, executable/args assignment, validators; the render stage's error aborts Load")
	want := "defaults,clone,render,assign,validate"
	c.Check(strings.Join(order, ",") == want, r1, "order", FirstPos(p, lp.Load), "stages in the required order", "the load stages run in the order ["+strings.Join(order, ",")+"], required ["+want+"] (e.g. cloning before defaults leaves Replicas=0, rendering before cloning renders one copy for all replicas)")
	for _, st := range lp.Stages {
		if st.Kind != "mutatorE" {
			continue
		}
		vis := Reach([]Pt{after(st.Call)}, nil, ErrNilEdge(st.Call, false))
		ok := true
		n := 0
		for in := range vis {
			if cc, isC := in.(*ssa.Call); isC && cc != st.Call {
				for _, st2 := range lp.Stages {
					if st2.Call == cc {
						ok = false
					}
				}
			}
			if ret, isRet := in.(*ssa.Return); isRet {
				n++
				if IsNilConst(RetVals(ret)[len(ret.Results)-1]) {
					ok = false
				}
			}
		}
		c.Check(ok && n > 0, r1, "render-error-aborts", p.InstrPos(st.Call), "a template error aborts Load", "a template rendering error does not abort Load")
	}
	// each stage applies all its functions in order
	for _, st := range lp.Stages {
		sc := st.Call.Call.StaticCallee()
		okLoop := false
		for _, l := range RangeLoops(sc) {
			if isParam(l.Coll) {
				dyn := p.Deep(Site{Name: "call element", Call: func(cc *ssa.CallCommon) bool {
					return cc.StaticCallee() == nil && !cc.IsInvoke()
				}})
				if l.bodyAlways(dyn) {
					okLoop = true
				}
			}
		}
		c.Check(okLoop, r1, "stage-applies-all:"+p.FuncKey(sc), FirstPos(p, sc), "the stage calls every function of its list", "a load stage does not call every function it is given")
	}

	// ------------------------------------------------------------------ (2)
	r2 := c.Rule("defaults-ranges", "for every process of the map the defaulting function leaves Replicas >= 1 and LaunchTimeout >= 1 (for every configured integer), a non-empty Namespace, Name equal to the map key, and writes the process back")
	if df := roleFn["defaults"]; df != nil {
		defNs, _ := constString(p.Const("types", "DefaultNamespace"))
		c.RunTable(r2, p.FuncKey(df), &TableSpec{
			Fn: df, ExtraStrings: []string{"ns1"}, ExtraInts: []int64{-3, 5},
			Focus: map[string]bool{"replicas": true, "timeout": true, "ns": true, "nonempty": true},
			Rename: func(raw string) string {
				switch {
				case strings.HasPrefix(raw, "nonempty:"):
					return "nonempty"
				case strings.HasSuffix(raw, ".Replicas"):
					return "replicas"
				case strings.HasSuffix(raw, ".LaunchTimeout"):
					return "timeout"
				case strings.HasSuffix(raw, ".Namespace"):
					return "ns"
				case strings.HasSuffix(raw, ".Name"):
					return "name"
				}
				return ""
			},
			Domain: func(key string, t types.Type) []constant.Value {
				switch key {
				case "replicas", "timeout":
					return Ints(-3, -1, 0, 1, 2, 5)
				case "ns":
					return Strs("", "ns1")
				}
				return nil
			},
		}, &TableCheck{
			Keys: map[string][]constant.Value{"replicas": Ints(-3, -1, 0, 1, 2, 5), "timeout": Ints(-3, -1, 0, 1, 2, 5), "ns": Strs("", "ns1"), "nonempty": Bools()},
			Judge: func(val map[string]constant.Value, l *Leaf) (bool, string, string) {
				if !VBool(val, "nonempty") {
					return true, "(no processes)", ""
				}
				eff := func(k string) (string, int64) {
					if m, ok := l.Mem[k]; ok {
						if m.K == avConst && m.C.Kind() == constant.Int {
							i, _ := constant.Int64Val(m.C)
							return fmt.Sprint(i), i
						}
						if m.K == avConst && m.C.Kind() == constant.String {
							return constant.StringVal(m.C), 0
						}
						return m.String(), 0
					}
					if v, ok := val[k]; ok {
						if v.Kind() == constant.Int {
							i, _ := constant.Int64Val(v)
							return fmt.Sprint(i), i
						}
						return constant.StringVal(v), 0
					}
					return "?", 0
				}
				rs, ri := eff("replicas")
				ts, ti := eff("timeout")
				ns, _ := eff("ns")
				name := "unset"
				if m, ok := l.Mem["name"]; ok {
					name = m.String()
				}
				wroteBack := l.HasEffect("mapupdate:")
				obs := fmt.Sprintf("Replicas=%s LaunchTimeout=%s Namespace=%q Name=%s written-back=%v", rs, ts, ns, name, wroteBack)
				ok := ri >= 1 && ti >= 1 && ns != "" && strings.Contains(name, "elem1") && wroteBack
				if VStr(val, "ns") == "" && ns != defNs {
					ok = false
				}
				return ok, "Replicas>=1 LaunchTimeout>=1 Namespace non-empty (default " + defNs + ") Name=<map key> written back", obs
			},
		})
	} else {
		c.Bad(r2, "defaults-fn", "", "no defaulting stage found")
	}

	// ------------------------------------------------------------------ (3)
	r3 := c.Rule("replica-owns-references", "for every pointer/map/slice field of ProcessConfig through which the repository writes (x.F.g = v, x.F[k] = v, directly or in a callee), each iteration of the replica-cloning loop stores a per-iteration fresh value into that field (allocation, make, maps.Clone, slices.Clone or the result of a function that returns a fresh copy) and pointer fields written through at depth two are fresh as well")
	written := writtenThroughFields(p, s)
	var wnames []string
	for n := range written {
		wnames = append(wnames, n)
	}
	sort.Strings(wnames)
	c.Note("reference fields of ProcessConfig written through: %s", strings.Join(wnames, ", "))
	clone := roleFn["clone"]
	if clone == nil {
		c.Bad(r3, "clone-fn", "", "no replica-cloning stage found")
	} else {
		c.Touch(clone)
		// the inner loop: the one storing ReplicaNum
		var inner *ssa.BasicBlock
		for _, in := range DirectSites(clone, StoreTo("ReplicaNum", s.FReplicaNum)) {
			inner = in.Block()
		}
		for _, n := range wnames {
			fld := written[n]
			ok := false
			why := "no per-replica assignment of this field in the cloning loop"
			for _, in := range DirectSites(clone, StoreTo(n, fld.field)) {
				if inner == nil || !(in.Block() == inner || inner.Dominates(in.Block()) || in.Block().Dominates(inner)) {
					continue
				}
				v, _ := StoredValue(in, fld.field)
				fresh, deep := p.freshValue(v, fld.depth2)
				if fresh && (deep || len(fld.depth2) == 0) {
					ok = true
				} else if fresh {
					why = "the copy is shallow: " + strings.Join(fld.depth2names(), ", ") + " are still shared"
				} else {
					why = "the value stored is not fresh per iteration"
				}
			}
			if ok {
				// ... and on every iteration (not only for some replica numbers)
				for _, in := range DirectSites(clone, StoreTo("ReplicaNum", s.FReplicaNum)) {
					if lp := InnermostLoopOf(in); lp != nil {
						every := lp.EveryIterationPasses(func(x ssa.Instruction) bool {
							v, isSt := StoredValue(x, fld.field)
							if !isSt {
								return false
							}
							fresh, deep := p.freshValue(v, fld.depth2)
							return fresh && (deep || len(fld.depth2) == 0)
						})
						if !every {
							ok = false
							why = "the per-replica copy is made only on some iterations of the cloning loop"
						}
					}
				}
			}
			c.Check(ok, r3, "field:"+n, FirstPos(p, clone), "each replica gets its own "+n, "replicas share ProcessConfig."+n+" ("+why+"): it is modified per replica by "+fld.writer+", so all replicas end up with the value rendered for one of them, chosen by map iteration order")
		}
		if len(wnames) < 2 {
			c.Bad(r3, "floor:written-through", "", "expected at least the probes and Vars to be written through")
		}
		// every replica is stored under its computed name; replica names derive from ReplicaNum
		calcName := p.TryMethod("types", "ProcessConfig", "CalculateReplicaName")
		okName := false
		for _, in := range DirectSites(clone, StoreTo("ReplicaName", s.FReplicaName)) {
			v, _ := StoredValue(in, s.FReplicaName)
			if call, isC := stripConv(v).(*ssa.Call); isC && call.Call.StaticCallee() == calcName {
				r := MustPrecede(clone, p.Deep(StoreTo("ReplicaNum", s.FReplicaNum)), func(x ssa.Instruction) bool { return x == ssa.Instruction(call) }, nil)
				okName = r.OK
			}
		}
		c.Check(okName, r3, "replica-name", FirstPos(p, clone), "ReplicaName = CalculateReplicaName() after ReplicaNum was set", "replica names are not derived from the replica number (duplicates possible)")
		// loop bound is Replicas and starts at 0
		a := &LinAnalysis{P: p, Fn: clone}
		rangeOK, nChk := true, 0
		// values that hold the configured replica count (loads of the Replicas field, also hoisted into a local)
		fReplicas := p.Field("types", "ProcessConfig", "Replicas")
		isCount := map[string]bool{}
		AllInstrs(clone, func(in ssa.Instruction) {
			if v, ok := in.(ssa.Value); ok && isIntType(v.Type()) && PathOf(v).LastField() == fReplicas {
				isCount[VarOf(v)] = true
			}
		})
		a.OnInstr = func(in ssa.Instruction, st *LinState) {
			if v, ok := StoredValue(in, s.FReplicaNum); ok {
				nChk++
				t, okT := a.termOf(v)
				if !okT || !st.Entails(LE(TConst(0), t)) {
					rangeOK = false
				}
				// t < Replicas: Replicas is loaded from the local copy each iteration; find a live variable
				bounded := false
				for _, cons := range st.Cons {
					// some constraint t - x + 1 <= 0
					if cons.C == 1 && len(cons.Coef) == 2 {
						for v2, k := range cons.Coef {
							if k == -1 && (strings.Contains(v2, "Replicas") || isCount[v2]) {
								for v3, k3 := range cons.Coef {
									if k3 == 1 && v3 != v2 {
										if tt, okk := t.Coef[v3]; okk && tt == 1 {
											bounded = true
										}
									}
								}
							}
						}
					}
				}
				if !bounded {
					rangeOK = false
				}
			}
		}
		a.Run()
		c.Check(rangeOK && nChk > 0, r3, "replica-numbers", FirstPos(p, clone), "0 <= ReplicaNum < Replicas proved for the cloning loop", "cannot prove that the cloning loop numbers the replicas 0 .. Replicas-1")
	}

	// ------------------------------------------------------------------ (4)
	r4 := c.Rule("render-coverage", "the renderer stores the result of the template engine into Command, WorkingDir, LogLocation, Description, and for both probes into Exec.Command, HttpGet.Host, HttpGet.Path and HttpGet.Port; the replica number is stored into the variables before the first engine call; the render stage renders every process of the map and writes it back")
	// the engine: the templater function that executes a text/template
	var engine *ssa.Function
	for _, f := range p.FuncsOfPkg("templater") {
		AllInstrs(f, func(in ssa.Instruction) {
			if call, ok := in.(*ssa.Call); ok {
				if o := CalleeObj(&call.Call); o != nil && o.Pkg() != nil && o.Pkg().Path() == "text/template" && o.Name() == "Execute" {
					engine = f
				}
			}
		})
	}
	engineSite := Site{Name: "template engine", Call: func(cc *ssa.CallCommon) bool {
		sc := cc.StaticCallee()
		if sc == nil || pkgOfFunc(sc) == nil || pkgOfFunc(sc).Name() != "templater" {
			return false
		}
		return sc == engine || (engine != nil && p.Deep(CallOfFn("engine", engine)).May(sc)) && sc.Signature.Results().Len() == 1
	}}
	fromEngine := func(v ssa.Value) bool {
		call, ok := stripConv(v).(*ssa.Call)
		return ok && engineSite.Call(&call.Call)
	}
	wantFields := []struct{ owner, field string }{
		{"ProcessConfig", "Command"}, {"ProcessConfig", "WorkingDir"}, {"ProcessConfig", "LogLocation"}, {"ProcessConfig", "Description"},
		{"ExecProbe", "Command"}, {"HttpProbe", "Host"}, {"HttpProbe", "Path"}, {"HttpProbe", "Port"},
	}
	for _, wf := range wantFields {
		pkg := "types"
		if wf.owner != "ProcessConfig" {
			pkg = "health"
		}
		fld := p.Field(pkg, wf.owner, wf.field)
		ok := false
		for _, f := range p.FuncsOfPkg("templater") {
			for _, in := range DirectSites(f, StoreTo(wf.field, fld)) {
				if v, _ := StoredValue(in, fld); fromEngine(v) {
					// the template text is the field's own previous value
					call := stripConv(v).(*ssa.Call)
					args := ArgsOf(&call.Call)
					if len(args) >= 1 && PathOf(args[0]).LastField() == fld {
						ok = true
					}
				}
			}
		}
		c.Check(ok, r4, "field:"+wf.owner+"."+wf.field, FirstPos(p, render), "rendered from its own template", wf.owner+"."+wf.field+" is not replaced by the rendering of its own text (templates in this field stay unexpanded or get another field's text)")
	}
	// probes: both probes are rendered
	{
		probeCalls := 0
		AllInstrs(render, func(in ssa.Instruction) {
			if call, ok := in.(*ssa.Call); ok {
				for _, a := range call.Call.Args {
					f := PathOf(a).LastField()
					if f != nil && (f.Name() == "ReadinessProbe" || f.Name() == "LivenessProbe") {
						probeCalls++
					}
				}
			}
		})
		c.Check(probeCalls >= 2, r4, "both-probes", FirstPos(p, render), "readiness and liveness probes are rendered", "not both probes are rendered")
		// replica number into vars before the first engine call
		var repStore ssa.Instruction
		AllInstrs(render, func(in ssa.Instruction) {
			if mu, ok := in.(*ssa.MapUpdate); ok {
				if k, okk := ConstString(mu.Key); okk && k == "PC_REPLICA_NUM" && PathOf(mu.Map).LastField() != nil && PathOf(mu.Map).LastField().Name() == "Vars" {
					if mi, isMi := mu.Value.(*ssa.MakeInterface); isMi && PathOf(mi.X).LastField() == s.FReplicaNum {
						repStore = in
					}
				}
			}
		})
		if c.Check(repStore != nil, r4, "replica-var", FirstPos(p, render), "PC_REPLICA_NUM = ReplicaNum stored into the variables", "the replica number is not made available to the templates") {
			d := p.Deep(Site{Name: "store replica var", Instr: func(in ssa.Instruction) bool { return in == repStore }})
			r := MustPrecede(render, d, func(in ssa.Instruction) bool {
				call, ok := in.(*ssa.Call)
				return ok && (engineSite.Call(&call.Call) || p.Deep(engineSite).MayAt(call))
			}, nil)
			c.PathCheck(r, r4, "replica-var-first", FirstPos(p, render), "the replica number is set before the first template is rendered", "a template is rendered before PC_REPLICA_NUM was set for this replica")
		}
		// extra vars passed to the engine are the process's own Vars
		okVars := true
		for _, f := range p.FuncsOfPkg("templater") {
			AllInstrs(f, func(in ssa.Instruction) {
				call, ok := in.(*ssa.Call)
				if !ok || !engineSite.Call(&call.Call) || f == engine {
					return
				}
				args := ArgsOf(&call.Call)
				if len(args) == 2 {
					if lf := PathOf(args[1]).LastField(); lf == nil || lf.Name() != "Vars" {
						if !isParam(args[1]) && !IsNilConst(args[1]) {
							okVars = false
						}
					}
				}
			})
		}
		c.Check(okVars, r4, "own-vars", FirstPos(p, render), "each process is rendered with its own variables", "a process is rendered with variables that are not its own")
	}
	// the template engine keeps no variables between calls
	{
		tplT := p.Named("templater", "Templater")
		okState := true
		var bad ssa.Instruction
		for _, f := range p.FuncsOfPkg("templater") {
			if !recvIs(f, tplT) {
				continue
			}
			AllInstrs(f, func(in ssa.Instruction) {
				switch x := in.(type) {
				case *ssa.Store:
					if fa, ok := x.Addr.(*ssa.FieldAddr); ok {
						if nt, okn := deref(fa.X.Type()).(*types.Named); okn && nt.Obj() == tplT.Obj() {
							fld := derefStruct(fa.X.Type()).Field(fa.Field)
							if fld.Name() != "err" {
								okState = false
								bad = in
							}
						}
					}
				case *ssa.MapUpdate:
					if lf := PathOf(x.Map).LastField(); lf != nil && lf.Pkg() != nil && lf.Pkg().Name() == "templater" {
						okState = false
						bad = in
					}
				case *ssa.Call:
					// maps.Copy / maps.Insert / clear with a field of the Templater as destination writes into the retained map
					if sc := x.Call.StaticCallee(); sc != nil {
						g := sc
						if sc.Origin() != nil {
							g = sc.Origin()
						}
						if pk := pkgOfFunc(g); pk != nil && pk.Path() == "maps" && (g.Name() == "Copy" || g.Name() == "Insert" || g.Name() == "DeleteFunc") && len(x.Call.Args) > 0 {
							if lf := PathOf(x.Call.Args[0]).LastField(); lf != nil && lf.Pkg() != nil && lf.Pkg().Name() == "templater" {
								okState = false
								bad = in
							}
						}
					}
					if b, isB := x.Call.Value.(*ssa.Builtin); isB && (b.Name() == "clear" || b.Name() == "delete") && len(x.Call.Args) > 0 {
						if lf := PathOf(x.Call.Args[0]).LastField(); lf != nil && lf.Pkg() != nil && lf.Pkg().Name() == "templater" {
							okState = false
							bad = in
						}
					}
					// the data passed to template.Execute: the engine's vars, the extra parameter, or a map made in this call
					if o := CalleeObj(&x.Call); o != nil && o.Name() == "Execute" && o.Pkg() != nil && o.Pkg().Path() == "text/template" {
						d := x.Call.Args[len(x.Call.Args)-1]
						if mi, isMi := d.(*ssa.MakeInterface); isMi {
							d = mi.X
						}
						okD := false
						switch y := stripConv(d).(type) {
						case *ssa.Parameter:
							okD = true
						case *ssa.Call:
							okD = true // maps.Clone(...) etc: made in this call
							_ = y
						case *ssa.MakeMap:
							okD = true
						case *ssa.UnOp:
							if lf := PathOf(y).LastField(); lf != nil && lf.Name() == "vars" {
								okD = true
							}
						case *ssa.Phi:
							okD = true
						}
						if !okD {
							okState = false
							bad = in
						}
					}
				}
			})
		}
		// precedence: process-local variables win over project variables - when a fresh map is filled by copies,
		// the copy of the extra (per-process) parameter comes after the copy of the Templater's own variables
		{
			okOrder := true
			var where ssa.Instruction
			for _, f := range p.FuncsOfPkg("templater") {
				var copies []*ssa.Call
				AllInstrs(f, func(in ssa.Instruction) {
					if call, ok := in.(*ssa.Call); ok {
						if sc := call.Call.StaticCallee(); sc != nil {
							g := sc
							if sc.Origin() != nil {
								g = sc.Origin()
							}
							if pk := pkgOfFunc(g); pk != nil && pk.Path() == "maps" && g.Name() == "Copy" && len(call.Call.Args) == 2 {
								copies = append(copies, call)
							}
						}
					}
				})
				for _, a := range copies {
					_, fromParam := stripConv(a.Call.Args[1]).(*ssa.Parameter)
					if !fromParam {
						continue
					}
					for _, b := range copies {
						if b == a || stripConv(b.Call.Args[0]) != stripConv(a.Call.Args[0]) {
							continue
						}
						if lf := PathOf(b.Call.Args[1]).LastField(); lf != nil && lf.Pkg() != nil && lf.Pkg().Name() == "templater" {
							// b copies the engine's own variables into the same map: it must precede a
							if !DominatesInstr(b, a) {
								okOrder = false
								where = b
							}
						}
					}
				}
			}
			pos2 := FirstPos(p, render)
			if where != nil {
				pos2 = p.InstrPos(where)
			}
			c.Check(okOrder, r4, "local-vars-win", pos2, "per-process variables are copied over the project variables", "the project-level variables are copied into the template data after the process's own variables: a process that redefines a project variable is rendered with the project's value in every templated field")
		}
		pos := FirstPos(p, render)
		if bad != nil {
			pos = p.InstrPos(bad)
		}
		c.Check(okState, r4, "renderer-stateless", pos, "the renderer keeps no variables between calls", "the template engine stores variables in the Templater between calls (or executes templates on such a retained map): variables of a process rendered earlier stay visible to processes rendered later, in map-iteration order")
	}
	if rf := roleFn["render"]; rf != nil {
		c.Touch(rf)
		okAll := false
		for _, l := range RangeLoops(rf) {
			if PathOf(l.Coll).LastField() == s.FProcesses && l.bodyAlwaysOrReturn(p.Deep(CallOfFn("render", render))) {
				okAll = true
			}
		}
		c.Check(okAll, r4, "every-process-rendered", FirstPos(p, rf), "every process of the map is rendered", "the render stage does not render every process")
		wbOK := false
		for _, in := range DirectSites(rf, MapUpdateOn("write back", s.FProcesses)) {
			if isRangeKeyOver(in.(*ssa.MapUpdate).Key, s.FProcesses) {
				wbOK = true
			}
		}
		c.Check(wbOK, r4, "render-write-back", FirstPos(p, rf), "the rendered process is written back under its key", "the rendered process is not written back to the map")
	}

	// ------------------------------------------------------------------ (5)
	r5 := c.Rule("sorted-map-output", "in the loader, every slice that is built by append inside an iteration over a map and then stored into the project (reflect.Value.Set or a field store) is sorted first")
	n5 := 0
	for _, f := range p.FuncsOfPkg("loader") {
		for _, l := range RangeLoops(f) {
			if _, isMap := l.Coll.Type().Underlying().(*types.Map); !isMap {
				continue
			}
			// appends in the body
			var apps []ssa.Instruction
			for b := range DominatedBlocks(l.Body) {
				for _, in := range b.Instrs {
					if _, ok := IsBuiltinCall(in, "append"); ok {
						apps = append(apps, in)
					}
				}
			}
			if len(apps) == 0 {
				continue
			}
			// escapes: reflect Set / store to a field / return
			escapes := FindInstrs(f, func(in ssa.Instruction) bool {
				if call, ok := in.(*ssa.Call); ok {
					if o := CalleeObj(&call.Call); o != nil && o.Pkg() != nil && o.Pkg().Path() == "reflect" && o.Name() == "Set" {
						return true
					}
				}
				return false
			})
			if len(escapes) == 0 {
				continue
			}
			n5++
			c.Touch(f)
			sortSite := p.Deep(Site{Name: "sort", Call: func(cc *ssa.CallCommon) bool {
				o := CalleeObj(cc)
				if o == nil {
					if sc := cc.StaticCallee(); sc != nil && sc.Origin() != nil {
						if oo, ok := sc.Origin().Object().(*types.Func); ok {
							o = oo
						}
					}
				}
				return o != nil && o.Pkg() != nil && (o.Pkg().Path() == "sort" || o.Pkg().Path() == "slices") && strings.HasPrefix(o.Name(), "S")
			}})
			vis := Reach([]Pt{{l.Exit, 0}}, sortSite.MustAt, nil)
			bad := false
			for _, e := range escapes {
				if vis[e] {
					bad = true
				}
			}
			c.Check(!bad, r5, p.FuncKey(f), p.InstrPos(l.If), "sorted before it is stored", "a list built in map-iteration order is stored into the project unsorted: two loads of the same files can yield different projects")
		}
	}
	if n5 == 0 {
		c.Bad(r5, "none", "", "expected the environment write-back (map -> sorted list) in the loader")
	}
}

// bodyAlwaysOrReturn: every iteration performs the site or leaves the function.
func (l RangeLoop) bodyAlwaysOrReturn(d *Deep) bool {
	vis := Reach([]Pt{{l.Body, 0}}, d.MustAt, nil)
	return !vis[l.If]
}

type writtenField struct {
	field  *types.Var
	writer string
	depth2 []*types.Var // pointer fields of the pointee that are themselves written through
}

func (w writtenField) depth2names() []string {
	var out []string
	for _, f := range w.depth2 {
		out = append(out, f.Name())
	}
	sort.Strings(out)
	return out
}

// writtenThroughFields finds the reference-typed fields F of ProcessConfig such
// that some function stores through x.F (x.F.g = v, x.F.g.h = v, x.F[k] = v).
func writtenThroughFields(p *Prog, s *Sel) map[string]writtenField {
	out := map[string]writtenField{}
	isRefField := func(f *types.Var) bool {
		switch f.Type().Underlying().(type) {
		case *types.Pointer, *types.Map:
			return true
		}
		return false
	}
	cfgFields := map[*types.Var]bool{}
	for _, f := range StructFields(s.ProcConf) {
		if isRefField(f) {
			cfgFields[f] = true
		}
	}
	record := func(path []*types.Var, writer string) {
		// path: fields from a ProcessConfig root; find the first ProcessConfig reference field
		for i, f := range path {
			if cfgFields[f] {
				wf := out[f.Name()]
				wf.field = f
				if wf.writer == "" {
					wf.writer = writer
				}
				// deeper pointer fields on the path (excluding the final stored field)
				for _, g := range path[i+1 : len(path)-1] {
					if _, isPtr := g.Type().Underlying().(*types.Pointer); isPtr {
						dup := false
						for _, x := range wf.depth2 {
							if x == g {
								dup = true
							}
						}
						if !dup {
							wf.depth2 = append(wf.depth2, g)
						}
					}
				}
				out[f.Name()] = wf
				return
			}
		}
	}
	// parameter provenance: a *Probe parameter of a function may be x.ReadinessProbe at the call site
	var pathsOf func(v ssa.Value, depth int) [][]*types.Var
	pathsOf = func(v ssa.Value, depth int) [][]*types.Var {
		ap := PathOf(v)
		res := [][]*types.Var{ap.Fields}
		if prm, ok := ap.Base.(*ssa.Parameter); ok && depth < 3 {
			f := prm.Parent()
			idx := -1
			for i, q := range f.Params {
				if q == prm {
					idx = i
				}
			}
			for _, cr := range p.Callers(f) {
				cc := CallCommonOf(cr.Instr)
				if idx >= 0 && idx < len(cc.Args) {
					for _, pre := range pathsOf(cc.Args[idx], depth+1) {
						if len(pre) > 0 {
							res = append(res, append(append([]*types.Var{}, pre...), ap.Fields...))
						}
					}
				}
			}
		}
		return res
	}
	for _, f := range p.Funcs {
		pk := pkgOfFunc(f)
		if pk == nil {
			continue
		}
		AllInstrs(f, func(in ssa.Instruction) {
			switch x := in.(type) {
			case *ssa.Store:
				fa, ok := x.Addr.(*ssa.FieldAddr)
				if !ok {
					return
				}
				for _, path := range pathsOf(fa, 0) {
					if len(path) >= 2 {
						record(path, p.FuncKey(f))
					}
				}
			case *ssa.MapUpdate:
				for _, path := range pathsOf(x.Map, 0) {
					if len(path) >= 1 {
						record(append(append([]*types.Var{}, path...), nil)[:len(path)+1], p.FuncKey(f))
					}
				}
			}
		})
	}
	// keep only fields of ProcessConfig proper
	for n, wf := range out {
		if wf.field == nil {
			delete(out, n)
		}
	}
	return out
}

// freshValue: v is allocated per evaluation (new/composite literal/make/Clone or
// the result of a repository function all of whose non-nil returns are fresh);
// deep reports that the given pointer fields of the result are fresh too.
func (p *Prog) freshValue(v ssa.Value, depth2 []*types.Var) (fresh bool, deep bool) {
	v = stripConv(v)
	switch x := v.(type) {
	case *ssa.Alloc:
		return x.Heap, len(depth2) == 0
	case *ssa.MakeMap, *ssa.MakeSlice:
		return true, true
	case *ssa.Call:
		sc := x.Call.StaticCallee()
		if sc == nil {
			return false, false
		}
		name := sc.Name()
		pk := pkgOfFunc(sc)
		if sc.Origin() != nil {
			name = sc.Origin().Name()
			pk = pkgOfFunc(sc.Origin())
		}
		if pk != nil && (pk.Path() == "maps" || pk.Path() == "slices") && name == "Clone" {
			return true, true
		}
		if !p.InRepo(sc) || sc.Blocks == nil {
			return false, false
		}
		allFresh, allDeep := true, true
		n := 0
		for _, ret := range returnsOf(sc) {
			if len(ret.Results) != 1 {
				return false, false
			}
			r := stripConv(RetVals(ret)[0])
			if IsNilConst(r) {
				continue
			}
			n++
			al, ok := r.(*ssa.Alloc)
			if !ok || !al.Heap {
				allFresh = false
				continue
			}
			// deep: each depth-2 pointer field is stored from a fresh allocation on every path where the source field is non-nil
			for _, g := range depth2 {
				okG := false
				for _, ref := range *al.Referrers() {
					fa, isFa := ref.(*ssa.FieldAddr)
					if !isFa {
						continue
					}
					st := derefStruct(fa.X.Type())
					if st == nil || st.Field(fa.Field) != g {
						continue
					}
					for _, r2 := range *fa.Referrers() {
						if sto, isSt := r2.(*ssa.Store); isSt {
							if a2, isAl := stripConv(sto.Val).(*ssa.Alloc); isAl && a2.Heap {
								okG = true
								// the copy of this field depends on nothing but the field itself being set (and the
								// receiver being non-nil): not on a sibling field being unset
								for _, gd := range GuardsOf(sto) {
									cmp, isCmp := gd.Cmp()
									if !isCmp {
										okG = false
										continue
									}
									for _, side := range []ssa.Value{cmp.X, cmp.Y} {
										if IsNilConst(side) {
											continue
										}
										if _, isPrm := stripConv(side).(*ssa.Parameter); isPrm {
											continue
										}
										if PathOf(side).LastField() != g {
											okG = false
										}
									}
								}
							}
						}
					}
				}
				if !okG {
					allDeep = false
				}
			}
		}
		return allFresh && n > 0, allDeep
	}
	return false, false
}

// checkSnapshotOrder (C13, C16, C17): scale-up and live update rebuild a process from the OriginalConfig snapshot
// taken by the renderer, so (a) the snapshot is taken before anything is rendered into the configuration and (b)
// every load-time mutator other than the executable/args assignment runs before the render stage - otherwise a
// replica added at run time differs from the one a fresh load produces.
func (s *Sel) checkSnapshotOrder(c *Ctx, ruleID string) {
	p := c.P
	rule := c.Rule(ruleID, "in the renderer the store of the marshalled process into OriginalConfig precedes every call of the template engine on every path; in Load every mutator stage function other than the executable/args assignment is applied before the render stage")
	render := p.TryMethod("templater", "Templater", "RenderProcess")
	assign := p.TryMethod("types", "ProcessConfig", "AssignProcessExecutableAndArgs")
	fOrig := p.Field("types", "ProcessConfig", "OriginalConfig")
	if !c.Check(render != nil && assign != nil, rule, "anchors", "", "renderer and assignment found", "RenderProcess / AssignProcessExecutableAndArgs not found") {
		return
	}
	c.Touch(render)
	// (a)
	var engine *ssa.Function
	for _, f := range p.FuncsOfPkg("templater") {
		AllInstrs(f, func(in ssa.Instruction) {
			if call, ok := in.(*ssa.Call); ok {
				if o := CalleeObj(&call.Call); o != nil && o.Pkg() != nil && o.Pkg().Path() == "text/template" && o.Name() == "Execute" {
					engine = f
				}
			}
		})
	}
	if c.Check(engine != nil, rule, "engine", "", "template engine found", "no function executes a text/template") {
		engD := p.Deep(CallOfFn("engine", engine))
		snap := p.Deep(StoreTo("OriginalConfig", fOrig))
		var engCalls []ssa.Instruction
		AllInstrs(render, func(in ssa.Instruction) {
			if call, ok := in.(*ssa.Call); ok && engD.MayAt(call) {
				engCalls = append(engCalls, in)
			}
		})
		r := MustPrecede(render, snap, func(in ssa.Instruction) bool { return isOneOf(in, engCalls) }, nil)
		c.Check(r.OK && len(engCalls) > 0, rule, "renderer:snapshot-first", FirstPos(p, render), "the snapshot is taken before anything is rendered", "the renderer stores the OriginalConfig snapshot after (or not on every path before) rendering templates into the process: a replica added later by scaling is rebuilt from an already rendered snapshot and keeps another replica's command, working directory and probes")
		// the snapshot is the marshalled process
		okVal := false
		for _, in := range DirectSites(render, StoreTo("OriginalConfig", fOrig)) {
			v, _ := StoredValue(in, fOrig)
			srcs, _ := p.Sources(v)
			for _, l := range append(srcs, v) {
				if ex, ok := stripConv(l).(*ssa.Extract); ok {
					if call, ok := ex.Tuple.(*ssa.Call); ok {
						if o := CalleeObj(&call.Call); o != nil && o.Pkg() != nil && o.Pkg().Path() == "encoding/json" && o.Name() == "Marshal" {
							okVal = true
						}
					}
				}
			}
		}
		c.Check(okVal, rule, "renderer:snapshot-value", FirstPos(p, render), "the snapshot is json.Marshal of the process", "OriginalConfig is not the marshalled process configuration")
	}
	// (b)
	lp := p.loadPipeline()
	pos := 0
	renderPos := -1
	type ent struct {
		f   *ssa.Function
		pos int
	}
	var muts []ent
	for _, st := range lp.Stages {
		for _, f := range st.Fns {
			pos++
			if st.Kind == "validator" {
				continue
			}
			if len(DirectSites(f, CallOfFn("render", render))) > 0 {
				renderPos = pos
				continue
			}
			if len(DirectSites(f, CallOfFn("assign", assign))) > 0 {
				continue
			}
			muts = append(muts, ent{f, pos})
		}
	}
	if c.Check(renderPos > 0, rule, "load:render-stage", FirstPos(p, lp.Load), "render stage found", "Load has no render stage") {
		for _, m := range muts {
			c.Check(m.pos < renderPos, rule, "load:before-render:"+p.FuncKey(m.f), FirstPos(p, m.f), "applied before the render stage", "the load-time mutator "+p.FuncKey(m.f)+" is applied after the render stage, i.e. after the OriginalConfig snapshot was taken: what it writes is missing from every replica that scaling or a live update rebuilds from the snapshot (they differ from a fresh load)")
		}
		c.Floor(rule, 5, "snapshot-order obligations")
	}
}
