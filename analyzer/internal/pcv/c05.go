package pcv

import (
	"fmt"
	"go/constant"
	"strings"

	"golang.org/x/tools/go/ssa"
)

func init() {
	register(&PropCheck{
		ID: "C05",
		Explanation: "Unsatisfiable dependency => skipped, structural part: (1) per condition the gate blocks on the right latch and turns a negative result (non-zero exit code, not ready) into a non-nil error; " +
			"(2) on the gate's error edge the goroutine marks the instance Skipped through the terminal function, reaches the skip trigger, and cannot reach the run entry; " +
			"(3) the terminal function leaves a non-zero exit code for the non-run states Skipped and Error (decision table over the state constant), so the rule applies again to the next level of dependents; " +
			"(4) the ready/log-ready waits report success only where success was observed, and the success cause/Ready value is produced only on the success branches; " +
			"(5) the skipped instance stays findable, all latches are released on the terminal path, exit_on_skipped triggers the shutdown with code 1.",
		Assumptions: []string{"transitive depth follows by induction from the per-level rules; the induction itself is not mechanised"},
		Run:         runC05,
	})
}

func runC05(c *Ctx) {
	p := c.P
	s := p.Selectors()
	requireN("Gate", s.Gates, 1, 1)
	gate := s.Gates[0]
	st := p.ConstGroup("types", "ProcessState")

	s.checkGateCases(c, gate, "unmet-returns-error", true)

	// ------------------------------------------------------------------
	rSkip := c.Rule("error-means-skip-not-run", "on the error edge of the gate every path of the process goroutine calls the terminal function with the constant Skipped and reaches the skip trigger; the run entry is unreachable on that edge")
	_, onSkip := s.triggerFns()
	skipped := st["ProcessStateSkipped"]
	termSkipped := Site{Name: "Terminal(Skipped)", Call: func(cc *ssa.CallCommon) bool {
		sc := cc.StaticCallee()
		for _, t := range s.Terminals {
			if sc == t {
				for _, a := range ArgsOf(cc) {
					if v, ok := ConstString(a); ok && v == skipped {
						return true
					}
				}
			}
		}
		return false
	}}
	for _, g := range s.ProcGo {
		c.Touch(g)
		for _, gc := range DirectSites(g, CallOfFn("Gate", gate)) {
			call, ok := gc.(*ssa.Call)
			if !ok {
				continue
			}
			edge := ErrNilEdge(call, false)
			r := MustFollow([]Pt{after(call)}, p.Deep(termSkipped), edge)
			c.PathCheck(r, rSkip, "terminal-skipped:"+p.FuncKey(g), p.InstrPos(call), "Terminal(Skipped) on every path of the error edge", "on the gate-error edge a path does not mark the instance Skipped")
			r = MustFollow([]Pt{after(call)}, p.Deep(CallOfFn("onSkip", onSkip...)), edge)
			c.PathCheck(r, rSkip, "skip-trigger:"+p.FuncKey(g), p.InstrPos(call), "skip trigger on every path of the error edge", "on the gate-error edge the skip trigger is not reached on every path")
			vis := Reach([]Pt{after(call)}, nil, edge)
			reach := false
			for in := range vis {
				if isOneOf(in, DirectSites(g, CallOfFn("RunEntry", s.RunEntries...))) {
					reach = true
				}
			}
			c.Check(!reach, rSkip, "no-run:"+p.FuncKey(g), p.InstrPos(call), "run entry unreachable on the error edge", "the run entry is reachable although the gate reported an unsatisfied dependency")
		}
	}
	c.Floor(rSkip, 3, "gate call in the process goroutine")

	// ------------------------------------------------------------------
	s.checkNonzeroCodeForNonRun(c, "nonzero-code-for-nonrun")

	// ------------------------------------------------------------------
	rWait := c.Rule("ready-result-reads-health", "the boolean ready-waits return true only on the branch that observed success (Health==Ready resp. the nil cause) and only after blocking on their latch")
	s.checkReadyWaitResults(c, rWait)
	c.Floor(rWait, 4, "ready waits")
	s.checkReleaseSites(c)
	s.checkSkippedFindable(c, "skipped-is-findable")
	s.checkLatchesReleased(c, "latches-released-on-terminal")
	s.checkTriggerTable(c, "exit-on-skipped-table", "trigger-arguments")
	// the skip trigger records exit code 1 before it starts the shutdown (the store is once-guarded: a process
	// killed by that shutdown would otherwise record its own code first)
	{
		rule := c.Rule("skip-code-before-shutdown", "in the exit_on_skipped trigger the once-guarded store of the project's exit code precedes the call of the shutdown function on every path")
		_, onSkip := s.triggerFns()
		shut := s.shutdownFn()
		storeSite := StoreTo("store exitCode", s.FRunnerExitCode)
		if len(onSkip) == 0 {
			c.Bad(rule, "trigger:none", "", "no function triggers the project shutdown on exit_on_skipped")
		}
		for _, t := range onSkip {
			c.Touch(t)
			shutCalls := DirectSites(t, CallOfFn("ShutDownProject", shut))
			r := MustPrecede(t, s.deepWithOnce(storeSite), func(in ssa.Instruction) bool { return isOneOf(in, shutCalls) }, nil)
			c.PathCheck(r, rule, p.FuncKey(t), FirstPos(p, t), "exit code 1 is recorded before the shutdown is started", "the skip trigger starts the shutdown before recording exit code 1: a process terminated by that shutdown (exit_on_end, main process) records its own code first and the project exits with it - possibly 0 - instead of 1")
		}
	}
	s.checkExitCodeProvenance(c, "exitcode-provenance")
	s.checkLatchContextsIndependent(c, "latch-contexts-independent")
	s.checkProberLifecycle(c, "prober-lifecycle")
}

// checkNonzeroCodeForNonRun (C05, C09): decision table of the terminal
// function over its state argument.
func (s *Sel) checkNonzeroCodeForNonRun(c *Ctx, ruleID string) {
	p := c.P
	rule := c.Rule(ruleID, "for the state constants Skipped and Error the terminal function leaves ProcessState.ExitCode at a non-zero constant (a process that never ran counts as failed for process_completed_successfully dependents); for Completed it does not overwrite the code of the command")
	st := p.ConstGroup("types", "ProcessState")
	var states []string
	for _, k := range SortedKeys(st) {
		states = append(states, st[k])
	}
	for _, t := range s.Terminals {
		c.RunTable(rule, p.FuncKey(t), &TableSpec{
			Fn: t, ExtraStrings: states, Depth: 6,
			Focus: map[string]bool{"state": true},
			Rename: func(raw string) string {
				switch {
				case raw == "p1":
					return "state"
				case strings.HasSuffix(raw, ".procState.ExitCode"):
					return "exitCode"
				case strings.HasSuffix(raw, ".procState.Status"):
					return "status"
				}
				return ""
			},
		}, &TableCheck{
			Keys: map[string][]constant.Value{"state": Strs(st["ProcessStateSkipped"], st["ProcessStateError"], st["ProcessStateCompleted"])},
			Judge: func(val map[string]constant.Value, l *Leaf) (bool, string, string) {
				state := VStr(val, "state")
				code := "unchanged"
				if m, ok := l.Mem["exitCode"]; ok {
					code = m.String()
				}
				status := "unchanged"
				if m, ok := l.Mem["status"]; ok {
					status = m.String()
				}
				obs := fmt.Sprintf("ExitCode:=%s Status:=%s", code, status)
				switch state {
				case st["ProcessStateSkipped"], st["ProcessStateError"]:
					ok := false
					if m, has := l.Mem["exitCode"]; has && m.K == avConst && m.C.Kind() == constant.Int && constant.Sign(m.C) != 0 {
						ok = true
					}
					return ok && status == fmt.Sprintf("%q", state), fmt.Sprintf("ExitCode:=<non-zero constant> Status:=%q", state), obs
				case st["ProcessStateCompleted"]:
					return code == "unchanged" && status == fmt.Sprintf("%q", state), fmt.Sprintf("ExitCode unchanged Status:=%q", state), obs
				}
				return true, "(unconstrained)", obs
			},
		})
	}
}
