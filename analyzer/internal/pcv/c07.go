package pcv

import (
	"fmt"
	"go/constant"
	"go/types"
	"sort"
	"strings"

	"golang.org/x/tools/go/ssa"
)

func init() {
	register(&PropCheck{
		ID: "C07",
		Explanation: "Run plan, structural part: (1) every validator defined in the loader (function of the validator type) is registered in Load's validate list, in particular the cycle and the dependency-existence validators, and Load returns the validators' error; " +
			"(2) the dependency-existence validator rejects an undefined dependency unconditionally (not only in strict mode); (3) the traversal is dependencies-first with a visited test-and-set; " +
			"(4) every automatic spawn is guarded by !IsDeferred() of the spawned configuration (directly, or through a collection all of whose insertions are guarded), and IsDeferred <=> is_foreground OR disabled; " +
			"(5) the selection marks exactly the processes outside the traversal closure of the requested ones as disabled (no-deps: exactly the non-requested, and drops the dependencies of the kept ones); (6) processes rejected by an admitter are deleted before the project is returned.",
		Assumptions: []string{"correctness of the DFS cycle check, of the topological order and of the closure for all graphs (inductive facts) and uniqueness of the order under map iteration are not decided"},
		Run:         runC07,
	})
}

// funcListArg resolves the function values of a variadic argument list.
func (p *Prog) funcListArg(v ssa.Value) []*ssa.Function {
	var out []*ssa.Function
	sl, ok := v.(*ssa.Slice)
	if !ok {
		return nil
	}
	al, ok := sl.X.(*ssa.Alloc)
	if !ok {
		return nil
	}
	type ent struct {
		idx int64
		fn  *ssa.Function
	}
	var ents []ent
	for _, ref := range *al.Referrers() {
		ia, ok := ref.(*ssa.IndexAddr)
		if !ok {
			continue
		}
		idx, _ := ConstInt(ia.Index)
		for _, r2 := range *ia.Referrers() {
			st, ok := r2.(*ssa.Store)
			if !ok {
				continue
			}
			val := st.Val
			if ct, ok := val.(*ssa.ChangeType); ok {
				val = ct.X
			}
			switch x := val.(type) {
			case *ssa.Function:
				ents = append(ents, ent{idx, x})
			case *ssa.MakeClosure:
				ents = append(ents, ent{idx, x.Fn.(*ssa.Function)})
			}
		}
	}
	sort.Slice(ents, func(i, j int) bool { return ents[i].idx < ents[j].idx })
	for _, e := range ents {
		out = append(out, e.fn)
	}
	return out
}

// LoadPipeline describes the calls of apply/applyWithErr/validate in loader.Load.
type LoadPipeline struct {
	Load       *ssa.Function
	Stages     []PipelineStage
	Validators []*ssa.Function
	ValidateCall *ssa.Call
}

type PipelineStage struct {
	Call *ssa.Call
	Fns  []*ssa.Function
	Kind string // mutator | mutatorE | validator
}

func (p *Prog) loadPipeline() *LoadPipeline {
	load := p.Func("loader", "Load")
	lp := &LoadPipeline{Load: load}
	project := p.Named("types", "Project")
	for _, b := range load.Blocks {
		for _, in := range b.Instrs {
			call, ok := in.(*ssa.Call)
			if !ok {
				continue
			}
			sc := call.Call.StaticCallee()
			if sc == nil || pkgOfFunc(sc) == nil || pkgOfFunc(sc).Name() != "loader" || !sc.Signature.Variadic() {
				continue
			}
			if sc.Signature.Params().Len() != 2 || !isPtrTo(sc.Signature.Params().At(0).Type(), project) {
				continue
			}
			fns := p.funcListArg(call.Call.Args[1])
			if len(fns) == 0 {
				continue
			}
			elem := sc.Signature.Params().At(1).Type().(*types.Slice).Elem()
			sig := elem.Underlying().(*types.Signature)
			kind := "mutator"
			if sig.Results().Len() == 1 {
				kind = "mutatorE"
				if nt, ok := elem.(*types.Named); ok && strings.Contains(strings.ToLower(nt.Obj().Name()), "valid") {
					kind = "validator"
				}
			}
			lp.Stages = append(lp.Stages, PipelineStage{call, fns, kind})
		}
	}
	// the validator stage: the last stage whose element type has an error result and whose functions do not store into the project
	for i := len(lp.Stages) - 1; i >= 0; i-- {
		if lp.Stages[i].Kind == "validator" {
			lp.Validators = lp.Stages[i].Fns
			lp.ValidateCall = lp.Stages[i].Call
			break
		}
	}
	return lp
}

func runC07(c *Ctx) {
	p := c.P
	s := p.Selectors()
	s.checkErrorsNotSwallowed(c, "errors-not-swallowed", inPkgs("loader", "types"), "a configuration that must be rejected would load")
	lp := p.loadPipeline()
	c.Touch(lp.Load)
	project := p.Named("types", "Project")

	// ------------------------------------------------------------------ (1)
	r1 := c.Rule("validators-registered", "every package-level function of the loader whose type is func(*types.Project) error and that does not modify the project is passed to the validate stage of Load; the error of that stage is what Load returns on every path after it")
	if lp.ValidateCall == nil {
		c.Bad(r1, "validate-stage", FirstPos(p, lp.Load), "Load has no validate stage")
		return
	}
	valType := lp.ValidateCall.Call.StaticCallee().Signature.Params().At(1).Type().(*types.Slice).Elem()
	registered := map[*ssa.Function]bool{}
	for _, v := range lp.Validators {
		registered[v] = true
	}
	// all stage functions (mutators with error are not validators)
	inSomeStage := map[*ssa.Function]bool{}
	for _, st := range lp.Stages {
		for _, f := range st.Fns {
			inSomeStage[f] = true
		}
	}
	nVal := 0
	for _, f := range p.FuncsOfPkg("loader") {
		if f.Parent() != nil || f.Signature.Recv() != nil {
			continue
		}
		if !types.Identical(f.Signature, valType.Underlying()) {
			continue
		}
		if inSomeStage[f] && !registered[f] {
			continue // a mutator with error result
		}
		nVal++
		c.Check(registered[f], r1, "validator:"+f.Name(), FirstPos(p, f), "registered in Load", "the validator "+f.Name()+" is defined but not run by Load (configurations it should reject are accepted)")
	}
	if nVal < 6 {
		c.Bad(r1, "floor:validators", "", fmt.Sprintf("expected at least 6 validators, found %d", nVal))
	}
	// the error of the validate stage is returned
	{
		isErr := errValueMatcher(lp.ValidateCall)
		vis := Reach([]Pt{after(lp.ValidateCall)}, nil, nil)
		ok := true
		n := 0
		for in := range vis {
			if ret, isRet := in.(*ssa.Return); isRet {
				n++
				for _, src := range shallowSources(RetVals(ret)[len(ret.Results)-1]) {
					if !isErr(src) {
						ok = false // e.g. phi(err, nil): the error is cleared on some path
					}
				}
			}
		}
		c.Check(ok && n > 0, r1, "error-returned", p.InstrPos(lp.ValidateCall), "Load returns the validators' error", "Load does not return the error of the validate stage (an invalid configuration is loaded)")
		// validate iterates all and returns the first error
		vf := lp.ValidateCall.Call.StaticCallee()
		c.Touch(vf)
		okV := false
		for _, l := range RangeLoops(vf) {
			// body: call element, on non-nil return it
			for b := range DominatedBlocks(l.Body) {
				for _, in := range b.Instrs {
					if call, isC := in.(*ssa.Call); isC && call.Call.StaticCallee() == nil && !call.Call.IsInvoke() {
						r := MustFollow([]Pt{after(call)}, p.Deep(Site{Name: "return err", Instr: func(x ssa.Instruction) bool {
							ret, isRet := x.(*ssa.Return)
							return isRet && errValueMatcher(call)(RetVals(ret)[0])
						}}), ErrNilEdge(call, false))
						// MustFollow reports offenders when a Return is reached that is not the B site; B here IS a return, so check differently
						_ = r
						vis := Reach([]Pt{after(call)}, nil, ErrNilEdge(call, false))
						good := true
						for x := range vis {
							if x == ssa.Instruction(l.If) {
								good = false
							}
							if ret, isRet := x.(*ssa.Return); isRet && !errValueMatcher(call)(RetVals(ret)[0]) {
								good = false
							}
						}
						if good {
							okV = true
						}
					}
				}
			}
		}
		c.Check(okV, r1, "stage-stops-at-first-error", FirstPos(p, vf), "the validate stage returns the first validator error", "the validate stage ignores or overwrites a validator's error")
	}

	// ------------------------------------------------------------------ (2)
	r2 := c.Rule("undefined-dep-rejected", "at least one registered validator looks every depends_on key up in project.Processes and, on the not-found edge, returns a non-nil error on every path without consulting the strict flag; the cycle validator is registered and reports a cycle as an error")
	fStrict := p.Field("types", "Project", "IsStrict")
	strictDeep := p.Deep(LoadOf("IsStrict", fStrict))
	found := false
	for _, v := range lp.Validators {
		for _, b := range v.Blocks {
			ifi := IfOf(b)
			if ifi == nil {
				continue
			}
			val, pos := BoolCond(ifi.Cond)
			ex, ok := val.(*ssa.Extract)
			if !ok || ex.Index != 1 {
				continue
			}
			lk, ok := ex.Tuple.(*ssa.Lookup)
			if !ok || PathOf(lk.X).LastField() != s.FProcesses || !isRangeKeyOver(lk.Index, s.FDependsOn) {
				continue
			}
			nf := 1
			if !pos {
				nf = 0
			}
			vis := Reach([]Pt{{b.Succs[nf], 0}}, nil, nil)
			good := true
			// every process is examined: the lookup is not made conditional on a flag of the depending process
			for _, gd := range GuardsOf(lk) {
				gv, _ := gd.BoolVal()
				if ex2, isEx := gv.(*ssa.Extract); isEx {
					if _, isNext := ex2.Tuple.(*ssa.Next); isNext {
						continue
					}
				}
				if cmp, isCmp := gd.Cmp(); isCmp {
					if _, isK := ConstInt(cmp.Y); isK && !IsNilConst(cmp.X) {
						if _, isPhi := stripConv(cmp.X).(*ssa.Phi); isPhi {
							continue // index loop condition
						}
					}
				}
				good = false
			}
			for in := range vis {
				if strictDeep.MayAt(in) {
					good = false
				}
				if _, isNext := in.(*ssa.Next); isNext {
					good = false
				}
				if ret, isRet := in.(*ssa.Return); isRet && IsNilConst(RetVals(ret)[0]) {
					good = false
				}
			}
			if good {
				found = true
				c.Touch(v)
			}
		}
	}
	c.Check(found, r2, "unconditional-rejection", FirstPos(p, lp.Load), "an undefined dependency is rejected unconditionally", "no registered validator rejects a dependency on an undefined process unconditionally (only in strict mode, or not at all): the dependent would be launched ungated")
	// cycle validator: a registered validator that calls a recursive helper with two visited maps and returns an error when it reports true
	cyc := false
	for _, v := range lp.Validators {
		AllInstrs(v, func(in ssa.Instruction) {
			call, ok := in.(*ssa.Call)
			if !ok {
				return
			}
			sc := call.Call.StaticCallee()
			if sc == nil || len(DirectSites(sc, CallOfFn("self", sc))) == 0 {
				return
			}
			res := sc.Signature.Results()
			if res.Len() != 1 || !types.Identical(res.At(0).Type(), types.Typ[types.Bool]) {
				return
			}
			te, _ := boolResultEdges(call)
			for _, g := range te {
				vis := Reach([]Pt{{g.If.Block().Succs[g.Succ], 0}}, nil, nil)
				good := false
				for x := range vis {
					if ret, isRet := x.(*ssa.Return); isRet && !IsNilConst(RetVals(ret)[0]) {
						good = true
					}
					if ret, isRet := x.(*ssa.Return); isRet && IsNilConst(RetVals(ret)[0]) {
						good = false
						break
					}
				}
				if good {
					cyc = true
					c.Touch(v, sc)
					// the search is started from every process: the call is guarded by nothing but the visited test
					okCover := true
					for _, gg := range GuardsOf(call) {
						vv, _ := gg.BoolVal()
						if lk, isLk := stripConv(vv).(*ssa.Lookup); isLk {
							if _, isMap := lk.X.Type().Underlying().(*types.Map); isMap && len(PathOf(lk.X).Fields) == 0 {
								continue // visited[name]
							}
						}
						// the loop condition itself (range over Processes) is not a guard edge of interest
						if ex, isEx := vv.(*ssa.Extract); isEx {
							if _, isNext := ex.Tuple.(*ssa.Next); isNext {
								continue
							}
						}
						okCover = false
					}
					c.Check(okCover, r2, "cycle-search-covers-all", p.InstrPos(call), "the cycle search starts from every process not yet visited", "the cycle search is not started from every process (an extra condition skips some, e.g. disabled ones): a cycle among the skipped processes is accepted although they can be started later")
					// the helper follows depends_on edges
					usesDeps := p.Deep(Site{Name: "range DependsOn", Instr: func(x ssa.Instruction) bool {
						rg, isR := x.(*ssa.Range)
						return isR && PathOf(rg.X).LastField() == s.FDependsOn
					}}).May(sc)
					c.Check(usesDeps, r2, "cycle-helper-follows-depends_on", FirstPos(p, sc), "the cycle search follows depends_on", "the cycle search does not follow the depends_on edges")
					// depth-first search: a sub-search that found nothing must not end the examination of the remaining
					// neighbours: the result of a recursive call is branched on, and its false edge leads to the next
					// iteration before any return
					okDfs, nRec := true, 0
					for _, rin := range DirectSites(sc, CallOfFn("self", sc)) {
						rc, isCall := rin.(*ssa.Call)
						if !isCall {
							continue
						}
						nRec++
						_, fe := boolResultEdges(rc)
						if len(fe) == 0 {
							okDfs = false // returned (or stored) as is
						}
						for _, g := range fe {
							lp := InnermostLoopOf(rc)
							if lp == nil {
								okDfs = false
								continue
							}
							hdr := lp.Header
							vis := Reach([]Pt{{g.If.Block().Succs[g.Succ], 0}}, func(x ssa.Instruction) bool { return x.Block() == hdr }, nil)
							for x := range vis {
								if _, isRet := x.(*ssa.Return); isRet {
									okDfs = false
								}
							}
						}
						for _, ref := range *rc.Referrers() {
							switch ref.(type) {
							case *ssa.Return, *ssa.Phi:
								okDfs = false
							}
						}
					}
					c.Check(okDfs && nRec > 0, r2, "cycle-search-exhaustive", FirstPos(p, sc), "a fruitless sub-search continues with the next neighbour", "the cycle search returns the result of a recursive call as is (or returns on its false edge) instead of continuing with the remaining dependencies: a cycle reachable only through a later dependency is accepted")
				}
			}
		})
	}
	c.Check(cyc, r2, "cycle-validator", FirstPos(p, lp.Load), "a registered validator reports cycles as errors", "no registered validator turns a dependency cycle into an error")
	// every process and every dependency is examined: the validators' iterations end by exhaustion or by returning
	// an error, never by a break
	for _, v := range lp.Validators {
		ex := EarlyLoopExits(p, v, true)
		c.Check(len(ex) == 0, r2, "exhaustive:"+p.FuncKey(v), FirstPos(p, v), "iterations run to exhaustion", "a validator leaves an iteration over the processes or their dependencies early ("+strings.Join(ex, ", ")+"): the entries after that point are accepted unchecked")
	}

	// ------------------------------------------------------------------ (3)
	s.checkPostorder(c, "traversal-postorder")

	// ------------------------------------------------------------------ (4)
	r4 := c.Rule("autostart-guard", "every call of the spawn function outside the explicit start/restart operations is control-dependent on IsDeferred() == false of the configuration it spawns: by dominance, or because the configuration is an element of a local collection every insertion into which is dominated by that edge; IsDeferred() <=> IsForeground OR Disabled")
	isDeferred := p.TryMethod("types", "ProcessConfig", "IsDeferred")
	if isDeferred == nil {
		broken("ANCHOR-UNRESOLVED ProcessConfig.IsDeferred")
	}
	c.RunTable(r4, "IsDeferred-table", &TableSpec{Fn: isDeferred, Rename: func(raw string) string {
		switch raw {
		case "p0.IsForeground":
			return "fg"
		case "p0.Disabled":
			return "dis"
		}
		return ""
	}}, &TableCheck{
		Keys:     map[string][]constant.Value{"fg": Bools(), "dis": Bools()},
		Expected: func(val map[string]constant.Value) string { return fmt.Sprint(VBool(val, "fg") || VBool(val, "dis")) },
		Observed: func(l *Leaf) string {
			if len(l.Returns) == 1 && l.Returns[0].K == avConst {
				return l.Returns[0].C.ExactString()
			}
			return fmt.Sprint(l.Returns)
		},
	})
	explicit := map[*ssa.Function]bool{s.apiMethod("StartProcess"): true, s.apiMethod("RestartProcess"): true}
	notDeferredGuard := func(in ssa.Instruction) bool {
		for _, g := range GuardsOf(in) {
			v, val := g.BoolVal()
			if call, ok := v.(*ssa.Call); ok && call.Call.StaticCallee() == isDeferred && !val {
				return true
			}
		}
		return false
	}
	nSp := 0
	for _, sp := range s.Spawns {
		for _, cr := range p.Callers(sp) {
			if explicit[cr.Caller] {
				continue
			}
			nSp++
			c.Touch(cr.Caller)
			if notDeferredGuard(cr.Instr) {
				c.OK(r4, "spawn@"+p.FuncKey(cr.Caller), p.InstrPos(cr.Instr), "guarded by !IsDeferred() (dominance)")
				continue
			}
			// guarded collection: the call is in a loop over a local slice; all appends to that slice are guarded
			ok := false
			for _, l := range RangeLoops(cr.Caller) {
				if !(l.Body == cr.Instr.Block() || l.Body.Dominates(cr.Instr.Block())) {
					continue
				}
				u, isLoad := stripConv(l.Coll).(*ssa.UnOp)
				if !isLoad {
					continue
				}
				rc := &resolveCtx{p: p}
				cell := rc.cellRoot(u.X)
				if cell == nil {
					continue
				}
				allGuarded, nApp := true, 0
				var visit func(f *ssa.Function)
				visit = func(f *ssa.Function) {
					AllInstrs(f, func(in ssa.Instruction) {
						st, isSt := in.(*ssa.Store)
						if !isSt || rc.cellRoot(st.Addr) != cell {
							return
						}
						if app, isApp := st.Val.(*ssa.Call); isApp {
							if b, isB := app.Call.Value.(*ssa.Builtin); isB && b.Name() == "append" {
								nApp++
								if !notDeferredGuard(in) {
									allGuarded = false
								}
								return
							}
						}
						// initialisation with an empty literal is fine
						if sl, isSl := st.Val.(*ssa.Slice); isSl {
							if al, isAl := sl.X.(*ssa.Alloc); isAl {
								if arr, isArr := al.Type().(*types.Pointer).Elem().Underlying().(*types.Array); isArr && arr.Len() == 0 {
									return
								}
							}
						}
						allGuarded = false
					})
					for _, an := range f.AnonFuncs {
						visit(an)
					}
				}
				visit(cell.Parent())
				if allGuarded && nApp > 0 {
					ok = true
				}
			}
			c.Check(ok, r4, "spawn@"+p.FuncKey(cr.Caller), p.InstrPos(cr.Instr), "guarded through a collection of non-deferred configurations", "an automatic spawn is not guarded by !IsDeferred(): disabled or foreground processes would be started automatically")
		}
	}
	if nSp < 2 {
		c.Bad(r4, "floor:spawn-sites", "", fmt.Sprintf("expected at least 2 automatic spawn sites, found %d", nSp))
	}

	// ------------------------------------------------------------------ (5)
	r5 := c.Rule("selection-marks-others-disabled", "the selection function stores Disabled = true exactly on the edge on which a process is not in the set collected by the traversal over the requested names, Disabled = false on the other edge, and writes the process back; the no-deps variant tests membership in the requested names and empties DependsOn of the kept processes")
	ctor := p.Func("app", "NewProjectRunner")
	withProc := p.TryMethod("types", "Project", "WithProcesses")
	nSel := 0
	for _, f := range p.FuncsOfPkg("app") {
		if !s.IsRunnerMethod(f) || f.Parent() != nil || !p.onlyReachedFrom(f, []*ssa.Function{ctor}, 0) {
			continue
		}
		stores := DirectSites(f, StoreTo("Disabled", s.FDisabled))
		if len(stores) == 0 {
			continue
		}
		nSel++
		c.Touch(f)
		usesTraversal := len(DirectSites(f, CallOfFn("WithProcesses", withProc))) > 0
		// both constants stored, on opposite edges of one test
		var tTrue, tFalse ssa.Instruction
		for _, st := range stores {
			v, _ := StoredValue(st, s.FDisabled)
			if b, ok := ConstBool(v); ok {
				if b {
					tTrue = st
				} else {
					tFalse = st
				}
			}
		}
		if !c.Check(tTrue != nil && tFalse != nil, r5, p.FuncKey(f)+":both-values", FirstPos(p, f), "Disabled is set to true and to false", "the selection does not both disable the others and enable the selected") {
			continue
		}
		// find the deciding If: an edge dominating tTrue whose opposite edge dominates tFalse
		okEdge := false
		for _, g := range GuardsOf(tTrue) {
			if EdgeDominates(g.If.Block(), 1-g.Succ, tFalse.Block()) {
				v, val := g.BoolVal()
				if usesTraversal {
					// membership in the collected map: found == false on the disabling edge
					if ex, ok := v.(*ssa.Extract); ok && ex.Index == 1 {
						if lk, ok := ex.Tuple.(*ssa.Lookup); ok && lk.CommaOk && !val {
							if len(PathOf(lk.X).Fields) == 0 && isRangeKeyOver(lk.Index, s.FProcesses) {
								okEdge = true
							}
						}
					}
				} else {
					// a found flag computed by comparing the process NAME (not the map key,
					// which is the replica name) with the requested names
					if !val {
						byName := false
						AllInstrs(f, func(x ssa.Instruction) {
							switch y := x.(type) {
							case *ssa.BinOp:
								if PathOf(y.X).LastField() == s.FName || PathOf(y.Y).LastField() == s.FName {
									byName = true
								}
							case *ssa.Lookup:
								if PathOf(y.Index).LastField() == s.FName {
									byName = true
								}
							case *ssa.Call:
								// slices.Contains(requested, proc.Name) and the like
								for _, a := range y.Call.Args {
									if PathOf(a).LastField() == s.FName {
										if o := CalleeObj(&y.Call); o == nil || o.Pkg() == nil || o.Pkg().Path() != "github.com/rs/zerolog" {
											if sc := y.Call.StaticCallee(); sc != nil && (sc.Origin() != nil || sc.Object() != nil) {
												nm := sc.Name()
												if sc.Origin() != nil {
													nm = sc.Origin().Name()
												}
												if nm == "Contains" || nm == "Index" || nm == "ContainsFunc" {
													byName = true
												}
											}
										}
									}
								}
							}
						})
						okEdge = byName
					}
				}
			}
		}
		c.Check(okEdge, r5, p.FuncKey(f)+":decision", p.InstrPos(tTrue), "disabled exactly when not selected", "the selection disables/enables processes on the wrong edge of the membership test")
		// written back on every path of the loop body
		wb := p.Deep(MapUpdateOn("write back", s.FProcesses))
		okWB := false
		for _, l := range RangeLoops(f) {
			if PathOf(l.Coll).LastField() == s.FProcesses && l.bodyAlways(wb) {
				okWB = true
			}
		}
		c.Check(okWB, r5, p.FuncKey(f)+":write-back", FirstPos(p, f), "every process is written back", "the modified process is not written back to project.Processes on every path")
		if usesTraversal {
			// the collected set is filled by the traversal callback over the requested names (first argument = the names parameter)
			okT := false
			for _, in := range DirectSites(f, CallOfFn("WithProcesses", withProc)) {
				args := ArgsOf(CallCommonOf(in))
				if len(args) == 2 && isParam(args[0]) {
					fns, _ := p.FuncValues(args[1])
					for _, cb := range fns {
						if len(FindInstrs(cb, func(x ssa.Instruction) bool { _, isMu := x.(*ssa.MapUpdate); return isMu })) > 0 {
							okT = true
						}
					}
				}
			}
			c.Check(okT, r5, p.FuncKey(f)+":closure-by-traversal", FirstPos(p, f), "the selected set is collected by the dependency traversal over the requested names", "the selected set is not the traversal closure of the requested names")
		} else {
			// no-deps: DependsOn emptied on the keep edge
			depStores := DirectSites(f, StoreTo("DependsOn", s.FDependsOn))
			okD := false
			for _, ds := range depStores {
				if ds.Block() == tFalse.Block() || ds.Block().Dominates(tFalse.Block()) || tFalse.Block().Dominates(ds.Block()) {
					okD = true
				}
			}
			c.Check(okD, r5, p.FuncKey(f)+":drops-dependencies", FirstPos(p, f), "kept processes lose their dependencies", "the no-deps selection keeps depends_on of the selected processes (they would wait for disabled processes)")
		}
	}
	c.Check(nSel == 2, r5, "selection-functions", "", "two selection functions (with and without dependencies)", fmt.Sprintf("%d selection functions found", nSel))

	// ------------------------------------------------------------------ (6)
	r6 := c.Rule("namespace-admission", "the admission step deletes from project.Processes every process for which some admitter returns false, and Load calls it on the path that returns the project; the namespace admitter admits exactly the listed namespaces (all when the list is empty)")
	admit := p.IfaceMethod("admitter", "Admitter", "Admit")
	nAd := 0
	for _, f := range p.FuncsOfPkg("loader") {
		calls := DirectSites(f, CallOf("Admit", admit))
		if len(calls) == 0 {
			continue
		}
		nAd++
		c.Touch(f)
		for _, in := range calls {
			call := in.(*ssa.Call)
			_, fe := boolResultEdges(call)
			ok := len(fe) > 0
			for _, g := range fe {
				del := p.Deep(MapDeleteOn("delete", s.FProcesses))
				vis := Reach([]Pt{{g.If.Block().Succs[g.Succ], 0}}, del.MustAt, nil)
				for x := range vis {
					if _, isNext := x.(*ssa.Next); isNext && !del.MustAt(x) {
						ok = false
					}
					if _, isRet := x.(*ssa.Return); isRet {
						ok = false
					}
				}
			}
			c.Check(ok, r6, p.FuncKey(f)+":rejected-deleted", p.InstrPos(call), "a rejected process is deleted", "a process rejected by an admitter is not deleted from the project")
		}
		// the deletion addresses the entry by the key the map is keyed with (the replica name)
		AllInstrs(f, func(in ssa.Instruction) {
			cc, isDel := IsBuiltinCall(in, "delete")
			if !isDel || len(cc.Args) != 2 || PathOf(cc.Args[0]).LastField() != s.FProcesses {
				return
			}
			okKey := isRangeKeyOver(cc.Args[1], s.FProcesses) || PathOf(cc.Args[1]).LastField() == s.FReplicaName
			c.Check(okKey, r6, p.FuncKey(f)+":delete-key", p.InstrPos(in), "deleted under the map's key (replica name)", "the rejected process is deleted under a key that is not the key of project.Processes (e.g. its Name instead of its ReplicaName): for a replicated process the deletion does nothing and all its replicas stay in the project and are started")
		})
		// called by Load before the final return
		r := MustPrecede(lp.Load, p.Deep(CallOfFn("admit", f)), func(in ssa.Instruction) bool {
			ret, ok := in.(*ssa.Return)
			return ok && !IsNilConst(RetVals(ret)[0]) && DominatesInstr(lp.ValidateCall, in)
		}, nil)
		c.PathCheck(r, r6, "load-calls-admission", FirstPos(p, lp.Load), "Load applies the admitters before returning the project", "Load returns the project without applying the admitters")
	}
	c.Check(nAd >= 1, r6, "admission-step", "", "admission step found", "no function applies the admitters")
	ns := p.TryMethod("admitter", "NamespaceAdmitter", "Admit")
	if ns != nil {
		c.RunTable(r6, "namespace-admitter-table", &TableSpec{Fn: ns, Rename: func(raw string) string {
			switch {
			case raw == "len:p0.EnabledNamespaces":
				return "n"
			case strings.HasPrefix(raw, "cmp:") && strings.Contains(raw, "Namespace"):
				return "match"
			case raw == "p1.Namespace":
				return "ns"
			case strings.HasSuffix(raw, "EnabledNamespaces[0]"):
				return "e0"
			case strings.HasSuffix(raw, "EnabledNamespaces[1]"):
				return "e1"
			}
			return ""
		}, ExtraStrings: []string{"a", "b"}, Domain: func(key string, t types.Type) []constant.Value {
			if key == "n" {
				return Ints(0, 1, 2)
			}
			return nil
		}}, &TableCheck{
			Keys: map[string][]constant.Value{"n": Ints(0, 1, 2), "ns": Strs("a", "b", ""), "e0": Strs("a", "b", ""), "e1": Strs("a", "b", "")},
			Judge: func(val map[string]constant.Value, l *Leaf) (bool, string, string) {
				n := VInt(val, "n")
				want := n == 0
				if n >= 1 && VStr(val, "ns") == VStr(val, "e0") {
					want = true
				}
				if n >= 2 && VStr(val, "ns") == VStr(val, "e1") {
					want = true
				}
				obs := fmt.Sprint(l.Returns)
				if len(l.Returns) == 1 && l.Returns[0].K == avConst {
					obs = l.Returns[0].C.ExactString()
				}
				return obs == fmt.Sprint(want), fmt.Sprint(want), obs
			},
		})
	}
	_ = project
}
