package pcv

import (
	"fmt"
	"go/constant"
	"go/token"
	"go/types"

	"golang.org/x/tools/go/ssa"
)

func init() {
	register(&PropCheck{
		ID: "C13",
		Explanation: "Scaling, structural part: (1) with scale < 1 the scale operation reaches no spawn, stop or map mutation and returns an error; " +
			"(2) every function that inserts a new key into project.Processes also inserts the same key into processStates and processLogs, and the rename function moves all four registries and the state's name; " +
			"(3) scale-down removes a replica iff ReplicaNum >= scale and stores Replicas = scale for the survivors; (4) scale-up numbers the new replicas origScale .. scale-1 (linear invariant of the loop), sets Replicas = scale and derives the name from those values before rendering; " +
			"(5) the replica-name function depends only on Name, Replicas and ReplicaNum; (6) scale-up performs the loader's per-replica steps (snapshot decode, render, assign executable/args) before adding the process; " +
			"(7) removal stops without restart and awaits completion; (8) after a change every replica of the process gets Replicas = scale and is renamed when its name changes.",
		Assumptions: []string{"contents of the maps after arbitrary scale histories and 'survivors are not restarted' are runtime facts and not decided"},
		Run:         runC13,
	})
}

// paramCmpEdge builds an edge filter that decides comparisons of the given
// parameter with integer constants under the assumption param == val.
func paramCmpEdge(prm *ssa.Parameter, val int64) EdgeFilter {
	return func(from *ssa.BasicBlock, succ int) bool {
		ifi := IfOf(from)
		if ifi == nil {
			return true
		}
		cmp, ok := CondCmp(ifi.Cond)
		if !ok {
			return true
		}
		var k int64
		var op = cmp.Op
		if stripConv(cmp.X) == ssa.Value(prm) {
			kv, okk := ConstInt(cmp.Y)
			if !okk {
				return true
			}
			k = kv
		} else if stripConv(cmp.Y) == ssa.Value(prm) {
			kv, okk := ConstInt(cmp.X)
			if !okk {
				return true
			}
			k = kv
			switch op {
			case token.LSS:
				op = token.GTR
			case token.GTR:
				op = token.LSS
			case token.LEQ:
				op = token.GEQ
			case token.GEQ:
				op = token.LEQ
			}
		} else {
			return true
		}
		var holds bool
		switch op {
		case token.EQL:
			holds = val == k
		case token.NEQ:
			holds = val != k
		case token.LSS:
			holds = val < k
		case token.LEQ:
			holds = val <= k
		case token.GTR:
			holds = val > k
		case token.GEQ:
			holds = val >= k
		default:
			return true
		}
		return holds == (succ == 0)
	}
}

func runC13(c *Ctx) {
	p := c.P
	s := p.Selectors()
	{
		roots := p.reachableFrom(s.apiMethod("ScaleProcess"))
		s.checkErrorsNotSwallowed(c, "errors-not-swallowed", func(f *ssa.Function) bool { return roots[f] && inPkgs("app")(f) }, "a failed scale request would be reported as done")
	}
	s.checkSnapshotOrder(c, "snapshot-before-render")
	scaleFn := s.apiMethod("ScaleProcess")
	c.Touch(scaleFn)
	spawnSite := CallOfFn("Spawn", s.Spawns...)
	effect := p.Deep(Or("effect", spawnSite, s.stopCoreCall(true, true),
		MapUpdateOn("w1", s.FRunning), MapDeleteOn("d1", s.FRunning), MapUpdateOn("w2", s.FProcesses), MapDeleteOn("d2", s.FProcesses),
		MapUpdateOn("w3", s.FStates), MapDeleteOn("d3", s.FStates), MapUpdateOn("w4", s.FLogs), MapDeleteOn("d4", s.FLogs)))

	// ------------------------------------------------------------------ (1)
	r1 := c.Rule("validate-before-mutate", "following only the branches consistent with scale = 0 (and with scale = -3) the scale operation reaches no spawn, stop or registry mutation and every return carries a non-nil error")
	var scalePrm *ssa.Parameter
	for _, prm := range scaleFn.Params {
		if isIntType(prm.Type()) {
			scalePrm = prm
		}
	}
	if scalePrm == nil {
		broken("ANCHOR-UNRESOLVED ScaleProcess has no int parameter")
	}
	for _, v := range []int64{0, -3} {
		vis := Reach(Entry(scaleFn), nil, paramCmpEdge(scalePrm, v))
		bad := ssa.Instruction(nil)
		errOK := true
		for in := range vis {
			if effect.MayAt(in) {
				bad = in
			}
			if ret, ok := in.(*ssa.Return); ok {
				if len(ret.Results) == 0 || IsNilConst(RetVals(ret)[len(ret.Results)-1]) {
					errOK = false
				}
			}
		}
		key := fmt.Sprintf("scale=%d", v)
		if bad != nil {
			c.Bad(r1, key+":no-effect", p.InstrPos(bad), "with "+key+" the scale operation reaches a spawn/stop/registry mutation")
		} else {
			c.OK(r1, key+":no-effect", FirstPos(p, scaleFn), "no effect reachable")
		}
		c.Check(errOK, r1, key+":error", FirstPos(p, scaleFn), "an error is returned", "with "+key+" the scale operation can return success")
	}

	// ------------------------------------------------------------------ (2)
	r2 := c.Rule("maps-in-step", "every runner function that inserts into project.Processes a key that is not the key/ReplicaName of an enclosing iteration over that map also inserts into processStates and processLogs (directly or through a callee) with a key read from the same ReplicaName; the rename function deletes the old and inserts the new key in runningProcesses, processLogs, processStates and project.Processes and stores the new name into the state record and the instance")
	nIns := 0
	for _, f := range p.FuncsOfPkg("app") {
		if !s.IsRunnerMethod(f) {
			continue
		}
		ctor := p.Func("app", "NewProjectRunner")
		if f == ctor || p.onlyReachedFrom(f, []*ssa.Function{ctor}, 0) {
			continue
		}
		hasDelete := len(DirectSites(f, MapDeleteOn("d", s.FProcesses))) > 0
		for _, in := range DirectSites(f, MapUpdateOn("w", s.FProcesses)) {
			mu := in.(*ssa.MapUpdate)
			// in-place update?
			if isRangeKeyOver(mu.Key, s.FProcesses) {
				continue
			}
			if PathOf(mu.Key).LastField() == s.FReplicaName && isRangeValueBase(mu.Key, s.FProcesses) {
				continue
			}
			nIns++
			c.Touch(f)
			if hasDelete {
				// rename: judged below
				continue
			}
			ok := p.Deep(MapUpdateOn("states", s.FStates)).May(f) && p.Deep(MapUpdateOn("logs", s.FLogs)).May(f)
			// same key source
			keyOK := PathOf(mu.Key).LastField() == s.FReplicaName
			for _, st := range DirectSites(f, MapUpdateOn("states", s.FStates)) {
				if PathOf(st.(*ssa.MapUpdate).Key).LastField() != s.FReplicaName || !sameColl(st.(*ssa.MapUpdate).Key, mu.Key) {
					keyOK = false
				}
			}
			// ... whatever the new process's flags are: from the insertion every path to the return (or backwards, from
			// the entry to the insertion) passes a call that registers the state and one that registers the log
			for _, reg := range []struct {
				name string
				fld  *types.Var
			}{{"state", s.FStates}, {"log", s.FLogs}} {
				d := p.Deep(MapUpdateOn(reg.name, reg.fld))
				barrier := func(x ssa.Instruction) bool {
					switch x.(type) {
					case *ssa.Go, *ssa.Defer:
						return false
					}
					return d.MayAt(x)
				}
				before := !Reach(Entry(f), barrier, nil)[in]
				after1 := true
				for x := range Reach([]Pt{after(in)}, barrier, nil) {
					if _, isRet := x.(*ssa.Return); isRet {
						after1 = false
					}
				}
				if !before && !after1 {
					ok = false
				}
			}
			c.Check(ok && keyOK, r2, "insert:"+p.FuncKey(f), p.InstrPos(in), "state and log registered under the same key", "a process is added to project.Processes without a state record and a log buffer under the same replica name (state queries fail / logs are lost for the new replica)")
		}
	}
	if nIns == 0 {
		c.Bad(r2, "insert:none", "", "no function adds a process to project.Processes at run time")
	}
	// rename
	nRen := 0
	for _, f := range p.FuncsOfPkg("app") {
		if !s.IsRunnerMethod(f) || f.Parent() != nil {
			continue
		}
		if !s.isRenameFn(f) {
			continue
		}
		nRen++
		c.Touch(f)
		for _, m := range []struct {
			name string
			fld  *types.Var
		}{{"runningProcesses", s.FRunning}, {"processLogs", s.FLogs}, {"processStates", s.FStates}, {"project.Processes", s.FProcesses}} {
			ok := p.Deep(MapDeleteOn("d", m.fld)).May(f) && p.Deep(MapUpdateOn("w", m.fld)).May(f)
			c.Check(ok, r2, "rename:"+m.name, FirstPos(p, f), "moved", "the rename function does not move "+m.name+" to the new name")
		}
		nameFld := p.Field("types", "ProcessState", "Name")
		c.Check(p.Deep(StoreTo("state.Name", nameFld)).May(f), r2, "rename:state-name", FirstPos(p, f), "state name updated", "the rename function does not update the name in the state record")
		s.checkRenameKeepsRecord(c, r2, f)
		s.checkRenameUnregistersFirst(c, r2, f)
		// the log moves with its content: nothing reached from the rename replaces or clears the buffer's lines
		fBuf := p.Field("pclog", "ProcessLogBuffer", "buffer")
		c.Check(!p.Deep(StoreTo("buffer", fBuf)).May(f), r2, "rename:log-content-kept", FirstPos(p, f), "the collected log survives the rename", "the rename reaches a store into the log buffer's line slice (for instance through Close of the buffer it re-registers): every surviving replica loses its collected log when a scale request changes the name width")
		c.Check(p.Deep(StoreTo("conf.ReplicaName", s.FReplicaName)).May(f), r2, "rename:replica-name", FirstPos(p, f), "replica name updated", "the rename function does not update ReplicaName")
	}
	c.Check(nRen == 1, r2, "rename:function", "", "one rename function", fmt.Sprintf("%d rename functions found", nRen))

	// ------------------------------------------------------------------ (2b)
	{
		rJ := c.Rule("scale-down-joins", "every function of the scale path that removes replicas in goroutines waits for them (WaitGroup.Wait on the group they are counted in) on every path before it returns: the replica count and names are recomputed right after")
		rmDeep := p.Deep(MapDeleteOn("delete Processes", s.FProcesses))
		nJ := 0
		for _, f := range p.FuncsOfPkg("app") {
			if !s.IsRunnerMethod(f) || f.Parent() != nil {
				continue
			}
			var gos []ssa.Instruction
			AllInstrs(f, func(in ssa.Instruction) {
				if g, ok := in.(*ssa.Go); ok {
					fns, _ := p.Callees(&g.Call, false)
					for _, fn := range fns {
						if rmDeep.May(fn) {
							gos = append(gos, in)
						}
					}
				}
			})
			if len(gos) == 0 {
				continue
			}
			nJ++
			c.Touch(f)
			wait := Site{Name: "WaitGroup.Wait", Call: func(cc *ssa.CallCommon) bool { return sameFunc(CalleeObj(cc), wgMethod(p, "Wait")) }}
			okJ := true
			for _, g := range gos {
				r := MustFollow([]Pt{after(g)}, p.Deep(wait), nil)
				if !r.OK {
					okJ = false
				}
			}
			c.Check(okJ, rJ, p.FuncKey(f), FirstPos(p, f), "the removals are joined", "the function starts removals of replicas in goroutines and can return without waiting for them: the scale request answers (and renumbers the survivors) while removed replicas are still registered and running")
		}
		c.Check(nJ >= 1, rJ, "floor:goroutine-removals", "", "concurrent removals found", "no function removes replicas concurrently (rule needs re-anchoring)")
	}

	// ------------------------------------------------------------------ (3)
	r3 := c.Rule("remove-decision", "in the scale-down function the branch on a replica's ReplicaNum against the new scale removes the replica exactly on the ReplicaNum >= scale edge and stores Replicas = scale on the other edge")
	n3 := 0
	for _, f := range p.FuncsOfPkg("app") {
		if !s.IsRunnerMethod(f) || f.Parent() != nil || !p.reachedFrom(f, scaleFn) {
			continue
		}
		for _, b := range f.Blocks {
			ifi := IfOf(b)
			if ifi == nil {
				continue
			}
			cmp, ok := CondCmp(ifi.Cond)
			if !ok {
				continue
			}
			var other ssa.Value
			op := cmp.Op
			if PathOf(cmp.X).LastField() == s.FReplicaNum {
				other = cmp.Y
			} else if PathOf(cmp.Y).LastField() == s.FReplicaNum {
				other = cmp.X
				switch op {
				case token.LSS:
					op = token.GTR
				case token.GTR:
					op = token.LSS
				case token.LEQ:
					op = token.GEQ
				case token.GEQ:
					op = token.LEQ
				}
			} else {
				continue
			}
			prm, isPrm := stripConv(other).(*ssa.Parameter)
			if !isPrm || !isIntType(prm.Type()) {
				continue
			}
			n3++
			c.Touch(f)
			var removeSucc int
			exact := true
			switch op {
			case token.GEQ:
				removeSucc = 0
			case token.LSS:
				removeSucc = 1
			default:
				exact = false
			}
			// only replicas of the process being scaled are considered: the decision is reached on the edge on which
			// the replica's Name equals the name parameter
			okName := false
			for _, gd := range GuardsOf(ifi) {
				if gc, isCmp := gd.Cmp(); isCmp && gc.Op == token.EQL {
					for _, pr := range [][2]ssa.Value{{gc.X, gc.Y}, {gc.Y, gc.X}} {
						if PathOf(pr[0]).LastField() == s.FName {
							if _, isP := stripConv(pr[1]).(*ssa.Parameter); isP {
								okName = true
							}
						}
					}
				}
			}
			c.Check(okName, r3, p.FuncKey(f)+":same-process", p.InstrPos(ifi), "only replicas of the scaled process are touched", "the scale-down decision is not restricted to replicas whose Name equals the requested process (or the test is inverted): replicas of other processes are removed or re-counted")
			if !c.Check(exact, r3, p.FuncKey(f)+":comparison", p.InstrPos(ifi), "ReplicaNum >= scale", "the removal decision compares ReplicaNum with scale using "+op.String()+" (must be >=: replicas 0..scale-1 survive)") {
				continue
			}
			// removal edge: the replica name is collected (append) and no Replicas store; keep edge: Replicas = scale
			storeRep := StoreTo("Replicas", s.FReplicas)
			removeRegion := DominatedBlocks(b.Succs[removeSucc])
			keepRegion := DominatedBlocks(b.Succs[1-removeSucc])
			collects := false
			for rb := range removeRegion {
				for _, in := range rb.Instrs {
					if _, isApp := IsBuiltinCall(in, "append"); isApp {
						collects = true
					}
				}
			}
			keeps := false
			for rb := range keepRegion {
				for _, in := range rb.Instrs {
					if v, ok := StoredValue(in, s.FReplicas); ok && stripConv(v) == ssa.Value(prm) {
						keeps = true
					}
					_ = storeRep
				}
			}
			c.Check(collects, r3, p.FuncKey(f)+":remove-edge", p.InstrPos(ifi), "replica collected for removal on the >= edge", "replicas with ReplicaNum >= scale are not collected for removal")
			c.Check(keeps, r3, p.FuncKey(f)+":keep-edge", p.InstrPos(ifi), "survivors get Replicas = scale", "surviving replicas do not get Replicas = scale")
			// every collected name is removed: the removal function is called for each element
		}
	}
	if n3 == 0 {
		c.Bad(r3, "none", "", "no comparison of ReplicaNum with the new scale found in the scale path")
	}

	// ------------------------------------------------------------------ (4) (6)
	r4 := c.Rule("scale-up-numbering", "in the scale-up loop the value stored to ReplicaNum is proved to lie in [origScale, scale-1] (linear loop invariant, given toAdd = scale - origScale at the call site), Replicas is stored from the scale parameter, ReplicaName is the replica-name function applied after both stores, and all three precede rendering")
	r6 := c.Rule("same-pipeline-as-loader", "each iteration of the scale-up loop decodes the OriginalConfig snapshot, renders the templates, assigns executable and arguments and only then adds the process")
	calcName := p.TryMethod("types", "ProcessConfig", "CalculateReplicaName")
	render := p.TryMethod("templater", "Templater", "RenderProcess")
	assign := p.TryMethod("types", "ProcessConfig", "AssignProcessExecutableAndArgs")
	if calcName == nil || render == nil || assign == nil {
		broken("ANCHOR-UNRESOLVED CalculateReplicaName / RenderProcess / AssignProcessExecutableAndArgs")
	}
	n4 := 0
	for _, f := range p.FuncsOfPkg("app") {
		if !s.IsRunnerMethod(f) || f.Parent() != nil || !p.reachedFrom(f, scaleFn) {
			continue
		}
		numStores := DirectSites(f, StoreTo("ReplicaNum", s.FReplicaNum))
		if len(numStores) == 0 {
			continue
		}
		n4++
		c.Touch(f)
		// every added replica is decoded into a fresh value: the target of json.Unmarshal is allocated inside the
		// iteration (decoding into a populated struct reuses its non-nil pointers and maps, so the replicas of one
		// request would share probes and variables)
		AllInstrs(f, func(in ssa.Instruction) {
			call, ok := in.(*ssa.Call)
			if !ok {
				return
			}
			o := CalleeObj(&call.Call)
			if o == nil || o.Pkg() == nil || o.Pkg().Path() != "encoding/json" || o.Name() != "Unmarshal" || len(call.Call.Args) != 2 {
				return
			}
			lp := InnermostLoopOf(call)
			if lp == nil {
				return
			}
			tgt := call.Call.Args[1]
			if mi, isMi := tgt.(*ssa.MakeInterface); isMi {
				tgt = mi.X
			}
			al, isAl := stripConv(tgt).(*ssa.Alloc)
			fresh := isAl && lp.Blocks[al.Block()]
			c.Check(fresh, r6, p.FuncKey(f)+":fresh-decode-target", p.InstrPos(call), "each replica is decoded into a fresh value", "the scale-up loop decodes every added replica into one value declared outside the loop: from the second added replica on the decoded configuration reuses the previous replica's probe objects and variable map, so the replicas of one request share them and end up rendered for the last one")
		})
		// parameters by role: found at the call site in ScaleProcess
		var callSite *ssa.Call
		for _, cr := range p.Callers(f) {
			if cc, ok := cr.Instr.(*ssa.Call); ok && cr.Caller == scaleFn {
				callSite = cc
			}
		}
		if callSite == nil {
			c.Bad(r4, p.FuncKey(f)+":call-site", FirstPos(p, f), "scale-up is not called from ScaleProcess")
			continue
		}
		// identify int params: which argument is scale (the API parameter), which is scale-orig
		idxScale, idxOrig, idxAdd := -1, -1, -1
		for i, a := range callSite.Call.Args {
			if !isIntType(a.Type()) {
				continue
			}
			if stripConv(a) == ssa.Value(scalePrm) {
				idxScale = i
			}
		}
		for i, a := range callSite.Call.Args {
			if bo, ok := stripConv(a).(*ssa.BinOp); ok && bo.Op == token.SUB && stripConv(bo.X) == ssa.Value(scalePrm) {
				idxAdd = i
				for j, b := range callSite.Call.Args {
					if j != i && isIntType(b.Type()) && stripConv(b) == stripConv(bo.Y) {
						idxOrig = j
					}
				}
			}
		}
		if !c.Check(idxScale >= 0 && idxOrig >= 0 && idxAdd >= 0, r4, p.FuncKey(f)+":arguments", p.InstrPos(callSite), "called with (scale - orig, scale, orig)", "the scale-up function is not called with toAdd = scale - origScale, scale and origScale") {
			continue
		}
		pv := func(i int) Term { return TVar(fmt.Sprintf("param:%d", i)) }
		a := &LinAnalysis{P: p, Fn: f, Assume: []Lin{
			LE(pv(idxAdd), pv(idxScale).Sub(pv(idxOrig))), LE(pv(idxScale).Sub(pv(idxOrig)), pv(idxAdd)),
			LE(TConst(0), pv(idxOrig)),
		}}
		okRange := true
		nChk := 0
		a.OnInstr = func(in ssa.Instruction, st *LinState) {
			if v, ok := StoredValue(in, s.FReplicaNum); ok {
				nChk++
				t, okT := a.termOf(v)
				if !okT || !st.Entails(LE(pv(idxOrig), t)) || !st.Entails(LE(t, pv(idxScale).Sub(TConst(1)))) {
					okRange = false
				}
			}
		}
		a.Run()
		c.Check(okRange && nChk > 0, r4, p.FuncKey(f)+":range", p.InstrPos(numStores[0]), "origScale <= ReplicaNum <= scale-1 proved", "cannot prove that new replicas are numbered origScale .. scale-1 (duplicate or skipped replica numbers)")
		// Replicas = scale
		repOK := false
		for _, in := range DirectSites(f, StoreTo("Replicas", s.FReplicas)) {
			if v, _ := StoredValue(in, s.FReplicas); stripConv(v) == ssa.Value(f.Params[idxScale]) {
				repOK = true
			}
		}
		c.Check(repOK, r4, p.FuncKey(f)+":replicas", FirstPos(p, f), "Replicas = scale", "new replicas do not get Replicas = scale (name width and replica count disagree)")
		// ReplicaName = CalculateReplicaName() after both stores
		nameOK := false
		for _, in := range DirectSites(f, StoreTo("ReplicaName", s.FReplicaName)) {
			v, _ := StoredValue(in, s.FReplicaName)
			if call, ok := stripConv(v).(*ssa.Call); ok && call.Call.StaticCallee() == calcName {
				both := p.Deep(StoreTo("ReplicaNum", s.FReplicaNum))
				r := MustPrecede(f, both, func(x ssa.Instruction) bool { return x == ssa.Instruction(call) }, nil)
				r2x := MustPrecede(f, p.Deep(StoreTo("Replicas", s.FReplicas)), func(x ssa.Instruction) bool { return x == ssa.Instruction(call) }, nil)
				if r.OK && r2x.OK {
					nameOK = true
				}
			}
		}
		c.Check(nameOK, r4, p.FuncKey(f)+":name", FirstPos(p, f), "ReplicaName derived from the stored values", "ReplicaName of a new replica is not CalculateReplicaName() of its ReplicaNum/Replicas")
		// pipeline order
		adds := FindInstrs(f, func(in ssa.Instruction) bool {
			call, ok := in.(*ssa.Call)
			return ok && p.Deep(MapUpdateOn("w", s.FProcesses)).MayAt(call)
		})
		renders := DirectSites(f, CallOfFn("RenderProcess", render))
		steps := []struct {
			name string
			site Site
		}{
			{"decode OriginalConfig", Site{Name: "json.Unmarshal(OriginalConfig)", Call: func(cc *ssa.CallCommon) bool {
				o := CalleeObj(cc)
				if o == nil || o.Pkg() == nil || o.Pkg().Path() != "encoding/json" || o.Name() != "Unmarshal" {
					return false
				}
				return len(cc.Args) == 2 && PathOf(cc.Args[0]).LastField() != nil && PathOf(cc.Args[0]).LastField().Name() == "OriginalConfig"
			}}},
			{"render templates", CallOfFn("RenderProcess", render)},
			{"assign executable and args", CallOfFn("AssignProcessExecutableAndArgs", assign)},
		}
		for _, stp := range steps {
			r := MustPrecede(f, p.Deep(stp.site), func(in ssa.Instruction) bool { return isOneOf(in, adds) }, nil)
			c.Check(r.OK && len(adds) > 0, r6, p.FuncKey(f)+":"+stp.name, FirstPos(p, f), "performed before the process is added", "scale-up adds a replica without the loader step '"+stp.name+"' (the new replica differs from what a fresh load would produce)")
		}
		// each added replica is decoded afresh: decode, render and add belong to the same loop iteration
		for _, ad := range adds {
			lp := InnermostLoopOf(ad)
			okIter := lp != nil
			if lp != nil {
				for _, stp := range steps {
					if !lp.EveryIterationPasses(func(x ssa.Instruction) bool { return p.Deep(stp.site).MustAt(x) }) {
						okIter = false
					}
				}
			}
			c.Check(okIter, r6, p.FuncKey(f)+":fresh-config-per-replica", p.InstrPos(ad), "snapshot decode, render and assign happen in every iteration that adds a replica", "the configuration of the added replicas is decoded/rendered once outside the loop and shared: probes and variables rendered for the first added replica are inherited by the others")
		}
		for _, st := range []Site{StoreTo("ReplicaNum", s.FReplicaNum), StoreTo("Replicas", s.FReplicas), StoreTo("ReplicaName", s.FReplicaName)} {
			r := MustPrecede(f, p.Deep(st), func(in ssa.Instruction) bool { return isOneOf(in, renders) }, nil)
			c.Check(r.OK, r4, p.FuncKey(f)+":before-render:"+st.Name, FirstPos(p, f), "set before rendering", st.Name+" is not set before the templates are rendered (PC_REPLICA_NUM in templates would be wrong)")
		}
	}
	if n4 == 0 {
		c.Bad(r4, "none", "", "no scale-up function found")
	}

	// ------------------------------------------------------------------ (5)
	r5 := c.Rule("name-function-pure", "the replica-name function reads only Name, Replicas and ReplicaNum of its receiver and calls no repository function")
	{
		c.Touch(calcName)
		ok := true
		AllInstrs(calcName, func(in ssa.Instruction) {
			switch x := in.(type) {
			case *ssa.FieldAddr:
				st := derefStruct(x.X.Type())
				if st != nil {
					f := st.Field(x.Field)
					if f != s.FName && f != s.FReplicas && f != s.FReplicaNum {
						ok = false
					}
				}
			case *ssa.Call:
				if sc := x.Call.StaticCallee(); sc != nil && p.InRepo(sc) {
					ok = false
				}
			case *ssa.Store:
				if _, isFa := x.Addr.(*ssa.FieldAddr); isFa {
					ok = false
				}
			}
		})
		c.Check(ok, r5, p.FuncKey(calcName), FirstPos(p, calcName), "depends only on Name, Replicas, ReplicaNum", "the replica name depends on something other than Name, Replicas and ReplicaNum (names are no longer a function of the replica set)")
		// width is computed from Replicas (not ReplicaNum)
		widthFromReplicas := false
		AllInstrs(calcName, func(in ssa.Instruction) {
			if call, okc := in.(*ssa.Call); okc {
				if o := CalleeObj(&call.Call); o != nil && o.Pkg() != nil && o.Pkg().Path() == "math" && o.Name() == "Log10" {
					if cv, okv := call.Call.Args[0].(*ssa.Convert); okv && PathOf(cv.X).LastField() == s.FReplicas {
						widthFromReplicas = true
					}
				}
			}
		})
		// decision table: bare name for Replicas <= 1, otherwise "<Name>-<zero padded ReplicaNum>"
		c.RunTable(r5, p.FuncKey(calcName)+":table", &TableSpec{Fn: calcName, Rename: func(raw string) string {
			switch raw {
			case "p0.Replicas":
				return "replicas"
			case "p0.Name":
				return "name"
			case "p0.ReplicaNum":
				return "num"
			}
			return ""
		}, ExtraInts: []int64{0, 1, 2, 10}, ExternEffect: func(obj *types.Func, cc *ssa.CallCommon) (string, bool) {
			if obj.Pkg() != nil && obj.Pkg().Path() == "fmt" && obj.Name() == "Sprintf" {
				return "Sprintf", true
			}
			return "", false
		}}, &TableCheck{
			Keys: map[string][]constant.Value{"replicas": Ints(-1, 0, 1, 2, 3, 10, 11)},
			Judge: func(val map[string]constant.Value, l *Leaf) (bool, string, string) {
				r := VInt(val, "replicas")
				obs := fmt.Sprint(l.Returns)
				if r <= 1 {
					ok := len(l.Returns) == 1 && l.Returns[0].K == avLazy && l.Returns[0].Key == "name" && !l.HasEffect("Sprintf")
					return ok, "the bare Name", obs
				}
				ok := false
				for _, e := range l.Effects {
					if e.Name == "Sprintf" && len(e.Args) >= 1 && e.Args[0].K == avConst {
						if f := constant.StringVal(e.Args[0].C); f == "%s-%0*d" {
							ok = true
						}
						obs = "Sprintf(" + e.Args[0].String() + ", ...)"
					}
				}
				return ok, "Sprintf(\"%s-%0*d\", Name, width, ReplicaNum)", obs
			},
		})
		c.Check(widthFromReplicas, r5, p.FuncKey(calcName)+":width", FirstPos(p, calcName), "zero-padding width derived from Replicas", "the zero-padding width is not derived from Replicas (names of one replica set would have different widths)")
	}

	// ------------------------------------------------------------------ (7)
	r7 := c.Rule("removed-are-stopped-and-awaited", "the removal function (deletes the process from project.Processes) stops the running instance through the no-restart path and, on the success edge of the stop, waits for its completion on every path")
	waitDone := p.Deep(Or("waitForCompletion", CallOfFn("wait", s.WaitPrims(latchDone)...), s.waitSite(latchDone)))
	flag := p.Deep(s.flagStoreSite())
	stopDeep := p.Deep(s.stopCoreCall(true, false))
	n7 := 0
	for _, f := range p.FuncsOfPkg("app") {
		if !s.IsRunnerMethod(f) || f.Parent() != nil {
			continue
		}
		if len(DirectSites(f, MapDeleteOn("d", s.FProcesses))) == 0 || len(DirectSites(f, MapUpdateOn("w", s.FProcesses))) > 0 {
			continue
		}
		AllInstrs(f, func(in ssa.Instruction) {
			call, ok := in.(*ssa.Call)
			if !ok || !stopDeep.MayAt(call) {
				return
			}
			n7++
			c.Touch(f)
			c.Check(flag.MayAt(call), r7, p.FuncKey(f)+":no-restart", p.InstrPos(call), "stop goes through the no-restart path", "a removed replica is stopped without the no-restart flag (it is relaunched by its restart policy)")
			r := MustFollow([]Pt{after(call)}, waitDone, ErrNilEdge(call, true))
			c.PathCheck(r, r7, p.FuncKey(f)+":awaited", p.InstrPos(call), "completion awaited after a successful stop", "the removal does not wait for the stopped replica to exit")
		})
	}
	if n7 == 0 {
		c.Bad(r7, "none", "", "no removal function stops the running instance")
	}
	s.checkRemovalStopsRegistered(c, r7)

	// ------------------------------------------------------------------ (8)
	r8 := c.Rule("replica-count-updated", "in the scale operation every path from the scale-up/scale-down call to a success return passes the function that stores Replicas = scale into every replica of the process and renames those whose replica name changes")
	{
		var updFns []*ssa.Function
		for _, f := range p.FuncsOfPkg("app") {
			if !s.IsRunnerMethod(f) || f.Parent() != nil || !p.reachedFrom(f, scaleFn) || f == scaleFn {
				continue
			}
			// stores Replicas from an int parameter in a loop over Processes and calls the rename function under a name inequality
			hasStore := false
			for _, in := range DirectSites(f, StoreTo("Replicas", s.FReplicas)) {
				if v, _ := StoredValue(in, s.FReplicas); isParam(v) {
					hasStore = true
				}
			}
			callsCalc := len(DirectSites(f, CallOfFn("calc", calcName))) > 0
			if hasStore && callsCalc && len(DirectSites(f, StoreTo("ReplicaNum", s.FReplicaNum))) == 0 {
				updFns = append(updFns, f)
			}
		}
		if c.Check(len(updFns) >= 1, r8, "update-fn", "", "replica-count update function found", "no function updates Replicas of all replicas and renames them after a scale change") {
			upd := p.Deep(CallOfFn("updateReplicaCount", updFns...))
			changes := FindInstrs(scaleFn, func(in ssa.Instruction) bool {
				call, ok := in.(*ssa.Call)
				if !ok {
					return false
				}
				return p.Deep(MapUpdateOn("w", s.FProcesses)).MayAt(call) || p.Deep(MapDeleteOn("d", s.FProcesses)).MayAt(call)
			})
			okAll := len(changes) > 0
			for _, ch := range changes {
				if upd.MustAt(ch) {
					continue
				}
				r := MustFollow([]Pt{after(ch)}, upd, nil)
				if !r.OK {
					okAll = false
				}
			}
			c.Check(okAll, r8, p.FuncKey(scaleFn), FirstPos(p, scaleFn), "the update follows every scale change", "after scaling up or down a path returns without updating Replicas / names of the remaining replicas")
			for _, u := range updFns {
				c.Touch(u)
				// rename guarded by name inequality and with the recomputed name
				okR := false
				AllInstrs(u, func(in ssa.Instruction) {
					call, ok := in.(*ssa.Call)
					if !ok {
						return
					}
					sc := call.Call.StaticCallee()
					if sc == nil || !(p.Deep(MapDeleteOn("d", s.FProcesses)).May(sc) && p.Deep(MapUpdateOn("w", s.FProcesses)).May(sc)) {
						return
					}
					args := ArgsOf(&call.Call)
					if len(args) == 2 {
						if nc, isC := stripConv(args[1]).(*ssa.Call); isC && nc.Call.StaticCallee() == calcName && PathOf(args[0]).LastField() == s.FReplicaName {
							okR = true
						}
					}
				})
				// the new count is written back to the stored configuration before the entry is renamed (the rename
				// moves the stored entry, not the local copy) - on every path through a rename call
				{
					wb := Site{Name: "write back", Instr: func(in ssa.Instruction) bool {
						mu, ok := in.(*ssa.MapUpdate)
						return ok && PathOf(mu.Map).LastField() == s.FProcesses
					}}
					var renCalls []ssa.Instruction
					AllInstrs(u, func(in ssa.Instruction) {
						if call, ok := in.(*ssa.Call); ok {
							if sc := call.Call.StaticCallee(); sc != nil && s.isRenameFn(sc) {
								renCalls = append(renCalls, in)
							}
						}
					})
					okWB := true
					for _, rc := range renCalls {
						lp := InnermostLoopOf(rc)
						start := Entry(u)
						if lp != nil {
							start = []Pt{{lp.Header, 0}}
						}
						vis := Reach(start, func(x ssa.Instruction) bool { return wb.Instr(x) }, nil)
						if vis[rc] {
							okWB = false
						}
					}
					c.Check(okWB, r8, p.FuncKey(u)+":write-back-before-rename", FirstPos(p, u), "the new replica count is stored before the entry is renamed", "a replica whose name changes is renamed before its new Replicas value was written back to project.Processes: the renamed entry keeps the old count, so a later update to the count that is already running sees a difference and restarts those replicas")
				}
				c.Check(okR, r8, p.FuncKey(u)+":rename", FirstPos(p, u), "rename(old ReplicaName, CalculateReplicaName())", "replicas whose computed name changes are not renamed from their old name to the computed one")
			}
		}
	}
}

func isParam(v ssa.Value) bool {
	_, ok := stripConv(v).(*ssa.Parameter)
	return ok
}

// isRangeValueBase: v is a field of the value element of an iteration over the map field.
func isRangeValueBase(v ssa.Value, field *types.Var) bool {
	ap := PathOf(v)
	// the base is an Alloc into which the range value was stored, or the Extract itself
	switch b := ap.Base.(type) {
	case *ssa.Extract:
		return isRangeValueOver(b, field)
	case *ssa.Alloc:
		for _, ref := range *b.Referrers() {
			if st, ok := ref.(*ssa.Store); ok && st.Addr == ssa.Value(b) {
				if isRangeValueOver(st.Val, field) {
					return true
				}
			}
		}
	}
	return false
}

// checkRemovalStopsRegistered (C13, C14): in the removal function, whenever an
// instance is registered (lookup non-nil) the stop is reached on every path,
// whatever state the instance is in.
func (s *Sel) checkRemovalStopsRegistered(c *Ctx, rule string) {
	p := c.P
	stopDeep := p.Deep(s.stopCoreCall(true, false))
	lookupRun := p.Deep(MapLookupOn("lookup runningProcesses", s.FRunning))
	for _, f := range p.FuncsOfPkg("app") {
		if !s.IsRunnerMethod(f) || f.Parent() != nil {
			continue
		}
		if len(DirectSites(f, MapDeleteOn("d", s.FProcesses))) == 0 || len(DirectSites(f, MapUpdateOn("w", s.FProcesses))) > 0 {
			continue
		}
		for _, b := range f.Blocks {
			ifi := IfOf(b)
			if ifi == nil {
				continue
			}
			cmp, ok := CondCmp(ifi.Cond)
			if !ok || (cmp.Op != token.NEQ && cmp.Op != token.EQL) {
				continue
			}
			var subj ssa.Value
			if IsNilConst(cmp.Y) {
				subj = cmp.X
			} else if IsNilConst(cmp.X) {
				subj = cmp.Y
			} else {
				continue
			}
			call, isCall := stripConv(subj).(*ssa.Call)
			if !isCall || !isPtrTo(call.Type(), s.Process) || !lookupRun.MayAt(call) {
				continue
			}
			nn := 0
			if cmp.Op == token.EQL {
				nn = 1
			}
			r := MustFollow([]Pt{{b.Succs[nn], 0}}, p.Deep(Site{Name: "stop", Instr: func(in ssa.Instruction) bool {
				cc, isC := in.(*ssa.Call)
				return isC && stopDeep.MayAt(cc)
			}}), nil)
			c.PathCheck(r, rule, p.FuncKey(f)+":registered-always-stopped", p.InstrPos(ifi), "a registered instance is always stopped", "the removal skips the stop for a registered instance in some states (e.g. restart back-off or pending): its supervision loop survives the removal and launches the command again, unlisted")
		}
	}
}

// checkRenameKeepsRecord (C09, C13): where the rename function re-inserts the state record under the new key, the
// inserted value is the record that was registered (not a copy: the instance keeps writing to the original), and
// the record's Name is stored on every path through that insertion, whether or not an instance is registered.
func (s *Sel) checkRenameKeepsRecord(c *Ctx, rule string, f *ssa.Function) {
	p := c.P
	nameFld := p.Field("types", "ProcessState", "Name")
	nameStore := p.Deep(StoreTo("state.Name", nameFld))
	n := 0
	// the insertion is in the rename function or in a helper it calls
	cands := []*ssa.Function{f}
	for d := 0; d < 2; d++ {
		for _, g := range append([]*ssa.Function{}, cands...) {
			AllInstrs(g, func(in ssa.Instruction) {
				if call, ok := in.(*ssa.Call); ok {
					if sc := call.Call.StaticCallee(); sc != nil && s.IsRunnerMethod(sc) && len(sc.Blocks) > 0 {
						cands = appendUniq(cands, sc)
					}
				}
			})
		}
	}
	for _, g := range cands {
		for _, in := range DirectSites(g, MapUpdateOn("w", s.FStates)) {
			mu, ok := in.(*ssa.MapUpdate)
			if !ok {
				continue
			}
			n++
			c.Touch(g)
			_, isCopy := stripConv(mu.Value).(*ssa.Alloc)
			c.Check(!isCopy, rule, "rename:same-record", p.InstrPos(mu), "the registered record itself is moved", "the rename function registers a copy of the state record under the new name: the instance keeps updating the original, so after it ends the registry reports the state frozen at rename time (e.g. Running with a stale exit code)")
			okName := false
			before := MustPrecede(g, nameStore, func(x ssa.Instruction) bool { return x == in }, nil)
			after1 := MustFollow([]Pt{after(in)}, nameStore, nil)
			if before.OK || after1.OK {
				okName = true
			} else if g != f {
				// judged around the call of the helper in the rename function
				for _, cs := range DirectSites(f, CallOfFn("helper", g)) {
					b2 := MustPrecede(f, nameStore, func(x ssa.Instruction) bool { return x == cs }, nil)
					a2 := MustFollow([]Pt{after(cs)}, nameStore, nil)
					if b2.OK || a2.OK {
						okName = true
					}
				}
			}
			c.Check(okName, rule, "rename:name-on-every-path", p.InstrPos(mu), "the record's name is updated whenever it is moved", "the state record is moved to the new key on a path that does not update its Name (e.g. only when an instance is registered): a finished or disabled survivor is listed under its old name and cannot be addressed by the listed name")
		}
	}
	if n == 0 {
		c.Bad(rule, "rename:state-insert", FirstPos(p, f), "the rename function does not insert the state record under the new name")
	}
}

// isRenameFn: a runner method (not a closure) that moves an entry of project.Processes and of processStates to
// another key (delete + insert, directly or in helpers) and none of whose runner callees does both itself.
func (s *Sel) isRenameFn(f *ssa.Function) bool {
	p := s.p
	if !s.IsRunnerMethod(f) || f.Parent() != nil {
		return false
	}
	moves := func(g *ssa.Function) bool {
		for _, fld := range []*types.Var{s.FProcesses, s.FStates} {
			if !p.Deep(MapDeleteOn("d", fld)).May(g) || !p.Deep(MapUpdateOn("w", fld)).May(g) {
				return false
			}
		}
		return true
	}
	if !moves(f) {
		return false
	}
	nStr := 0
	for i := 0; i < f.Signature.Params().Len(); i++ {
		if b, ok := f.Signature.Params().At(i).Type().Underlying().(*types.Basic); ok && b.Info()&types.IsString != 0 {
			nStr++
		}
	}
	if nStr < 2 {
		return false
	}
	minimal := true
	AllInstrs(f, func(in ssa.Instruction) {
		if call, ok := in.(*ssa.Call); ok {
			if sc := call.Call.StaticCallee(); sc != nil && sc != f && s.IsRunnerMethod(sc) && len(sc.Blocks) > 0 && moves(sc) {
				minimal = false
			}
		}
	})
	return minimal
}

// checkRenameUnregistersFirst (C08, C13): the registry of running instances is keyed by the instance's own name, and
// the removal looks the instance up under that name - so the rename removes the instance from the registry before it
// changes the instance's name, and registers it again afterwards.
func (s *Sel) checkRenameUnregistersFirst(c *Ctx, rule string, f *ssa.Function) {
	p := c.P
	del := p.Deep(MapDeleteOn("delete runningProcesses", s.FRunning))
	ins := p.Deep(MapUpdateOn("insert runningProcesses", s.FRunning))
	// calls that change the instance's replica name (a store to ReplicaName reached through Process.procConf)
	setName := p.Deep(Site{Name: "instance.ReplicaName =", Instr: func(in ssa.Instruction) bool {
		st, ok := in.(*ssa.Store)
		if !ok {
			return false
		}
		ap := PathOf(st.Addr)
		return ap.LastField() == s.FReplicaName && ap.HasField(s.FProcConf)
	}})
	var renames []ssa.Instruction
	// the three steps are in the rename function itself or in a helper it calls
	scope := f
	for depth := 0; depth < 3 && len(renames) == 0; depth++ {
		var next *ssa.Function
		AllInstrs(scope, func(in ssa.Instruction) {
			call, ok := in.(*ssa.Call)
			if !ok || !setName.MayAt(call) {
				return
			}
			if !del.MayAt(call) {
				renames = append(renames, in)
			} else if sc := call.Call.StaticCallee(); sc != nil && len(sc.Blocks) > 0 {
				next = sc
			}
		})
		if len(renames) == 0 {
			if next == nil {
				break
			}
			scope = next
		}
	}
	f = scope
	if len(renames) == 0 {
		c.Bad(rule, "rename:instance-name", FirstPos(p, f), "the rename function does not change the name of the registered instance")
		return
	}
	// (the removal is conditional on the registered value being this instance: a call that may delete counts)
	mayDel := func(in ssa.Instruction) bool {
		switch in.(type) {
		case *ssa.Go, *ssa.Defer:
			return false
		}
		return del.MayAt(in)
	}
	okBefore := true
	vis := Reach(Entry(f), mayDel, nil)
	for _, rn := range renames {
		if vis[rn] {
			okBefore = false
		}
	}
	okAfter := true
	for _, rn := range renames {
		for x := range Reach([]Pt{after(rn)}, func(in ssa.Instruction) bool { return ins.MayAt(in) }, nil) {
			if _, isRet := x.(*ssa.Return); isRet {
				okAfter = false
			}
		}
	}
	c.Check(okBefore && okAfter, rule, "rename:unregister-rename-register", p.InstrPos(renames[0]), "removed under the old name, renamed, registered under the new name", "the instance's name is changed before it is removed from the registry of running instances (the removal then looks under the new name and deletes nothing): a stale entry under the former name keeps pointing at the live instance, so stop/restart requests naming a process that no longer exists act on it")
}
