package pcv

import (
	"go/token"
	"fmt"
	"go/constant"
	"go/types"
	"strings"

	"golang.org/x/tools/go/ssa"
)

func init() {
	register(&PropCheck{
		ID: "C10",
		Explanation: "Health probes, structural part: (1) decision table of the probe defaulting function over every parameter vs its bounds: at exit initial delay >= 0, period/timeout/thresholds >= 1, numeric port in {0} U [1,65535], for all inputs; " +
			"(2) the prober constructor validates before any read of the probe and is the only writer/constructor; (3) decision tables of the check-completed hook (nothing delivered after Stop, fatal <=> contiguous failures = threshold, ok <=> status ok) " +
			"and of the readiness/liveness callbacks ((ok,!fatal) -> Ready + release; fatal -> Not Ready + internal stop; else Not Ready; fatal liveness -> daemon wait released); " +
			"(4) Ready is produced only on success branches; (5) Restarting/Launching/Terminating reset the health; (6) the internal stop keeps the restart policy in charge; (7) after the daemon wait the run loop always consults the restart decision.",
		Assumptions: []string{"sequences of probe outcomes over time and the behaviour of go-health are not decided"},
		Run:         runC10,
	})
}

func runC10(c *Ctx) {
	p := c.P
	s := p.Selectors()
	s.checkErrorsNotSwallowed(c, "errors-not-swallowed", inPkgs("health"), "a probe that cannot be set up or run would count as working")
	probeT := p.Named("health", "Probe")

	// ------------------------------------------------------------------ (1)
	r1 := c.Rule("effective-params-legal", "for every combination of configured values relative to the bounds 0, 1 and 65535 (and an absent or present http_get section) the values left in the probe by the defaulting function satisfy: InitialDelay >= 0; PeriodSeconds, TimeoutSeconds, SuccessThreshold, FailureThreshold >= 1; NumPort = 0 or 1 <= NumPort <= 65535")
	var defFns []*ssa.Function
	for _, f := range p.FuncsOfPkg("health") {
		if recvIs(f, probeT) && f.Parent() == nil && f.Signature.Params().Len() == 0 && f.Signature.Results().Len() == 0 {
			if len(DirectSites(f, StoreTo("w", p.Field("health", "Probe", "PeriodSeconds")))) > 0 {
				defFns = append(defFns, f)
			}
		}
	}
	intFields := []string{"InitialDelay", "PeriodSeconds", "TimeoutSeconds", "SuccessThreshold", "FailureThreshold"}
	renameProbe := func(raw string) string {
		for _, n := range intFields {
			if raw == "p0."+n {
				return n
			}
		}
		switch {
		case raw == "nil:p0.HttpGet":
			return "nohttp"
		case strings.HasPrefix(raw, "call:strconv.Atoi(") && strings.HasSuffix(raw, "#0"):
			return "port"
		case raw == "p0.HttpGet.NumPort":
			return "numport"
		case raw == "p0.HttpGet.Port":
			return "portstr"
		}
		return ""
	}
	effOf := func(val map[string]constant.Value, l *Leaf, name string) (int64, bool) {
		if m, has := l.Mem[name]; has {
			if m.K == avConst && m.C.Kind() == constant.Int {
				i, _ := constant.Int64Val(m.C)
				return i, true
			}
			return 0, false
		}
		if v, has := val[name]; has {
			i, _ := constant.Int64Val(v)
			return i, true
		}
		return 0, false
	}
	for _, f := range defFns {
		// one table per parameter (the others keep a two-point domain)
		for _, n := range intFields {
			n := n
			min := int64(1)
			if n == "InitialDelay" {
				min = 0
			}
			c.RunTable(r1, p.FuncKey(f)+":"+n, &TableSpec{
				Fn: f, Focus: map[string]bool{n: true}, Depth: 4, Rename: renameProbe,
				Domain: func(key string, t types.Type) []constant.Value {
					if key == n {
						return Ints(-7, -2, -1, 0, 1, 2, 7)
					}
					return nil
				},
			}, &TableCheck{
				Keys: map[string][]constant.Value{n: Ints(-7, -2, -1, 0, 1, 2, 7)},
				Judge: func(val map[string]constant.Value, l *Leaf) (bool, string, string) {
					v, known := effOf(val, l, n)
					return known && v >= min, fmt.Sprintf("%s >= %d", n, min), fmt.Sprintf("%s=%d (configured %d)", n, v, VInt(val, n))
				},
			})
		}
		c.RunTable(r1, p.FuncKey(f)+":NumPort", &TableSpec{
			Fn: f, Focus: map[string]bool{"port": true, "nohttp": true, "portstr": true}, Depth: 4, Rename: renameProbe,
			Domain: func(key string, t types.Type) []constant.Value {
				if key == "port" {
					return Ints(-5, -1, 0, 1, 2, 80, 65534, 65535, 65536, 70000)
				}
				return nil
			},
		}, &TableCheck{
			Keys: map[string][]constant.Value{"nohttp": Bools(), "port": Ints(-5, -1, 0, 1, 2, 80, 65534, 65535, 65536, 70000)},
			Judge: func(val map[string]constant.Value, l *Leaf) (bool, string, string) {
				if VBool(val, "nohttp") {
					return true, "(no http probe)", ""
				}
				m, has := l.Mem["numport"]
				if !has || m.K != avConst || m.C.Kind() != constant.Int {
					return false, "NumPort = 0 or 1..65535", "NumPort not set to a known value"
				}
				i, _ := constant.Int64Val(m.C)
				return i == 0 || (i >= 1 && i <= 65535), "NumPort = 0 or 1..65535", fmt.Sprintf("NumPort=%d", i)
			},
		})
	}
	c.Floor(r1, 1, "probe defaulting function")

	// ------------------------------------------------------------------ (2)
	r2 := c.Rule("validated-before-use", "in the prober constructor the defaulting function is called on the probe before any of its fields is read or the probe is copied into the prober; Prober.probe is stored only there; Prober values are created only there")
	newFn := p.Func("health", "New")
	c.Touch(newFn)
	fProbe := p.Field("health", "Prober", "probe")
	valSite := p.Deep(CallOfFn("ValidateAndSetDefaults", defFns...))
	r := MustPrecede(newFn, valSite, func(in ssa.Instruction) bool {
		// reads of the probe parameter's fields / whole value
		switch x := in.(type) {
		case *ssa.UnOp:
			if fa, ok := x.X.(*ssa.FieldAddr); ok {
				if nt, ok := deref(fa.X.Type()).(*types.Named); ok && nt.Obj() == probeT.Obj() {
					return true
				}
			}
			if nt, ok := x.Type().(*types.Named); ok && nt.Obj() == probeT.Obj() {
				// whole-struct load (copy into the prober)
				return true
			}
		}
		return false
	}, nil)
	c.PathCheck(r, r2, p.FuncKey(newFn)+":validate-first", FirstPos(p, newFn), "validation precedes every read of the probe", "the prober reads or copies the probe before it was validated (period 0, negative thresholds ... reach go-health)")
	for _, f := range p.Funcs {
		for _, in := range DirectSites(f, StoreTo("w", fProbe)) {
			c.Check(f == newFn, r2, "probe-writer:"+p.FuncKey(f), p.InstrPos(in), "stored by the constructor", "Prober.probe is written outside the constructor (unvalidated parameters)")
		}
		AllInstrs(f, func(in ssa.Instruction) {
			if al, ok := in.(*ssa.Alloc); ok {
				if nt, ok := al.Type().(*types.Pointer).Elem().(*types.Named); ok && nt.Obj().Name() == "Prober" && nt.Obj().Pkg().Name() == "health" {
					c.Check(f == newFn, r2, "prober-ctor:"+p.FuncKey(f), p.InstrPos(al), "Prober created by the constructor", "a Prober is created outside the validating constructor")
				}
			}
		})
	}
	// the process validates probes that bypass the loader (update path)
	c.Floor(r2, 3, "constructor sites")

	// ------------------------------------------------------------------ (3)
	r3 := c.Rule("callback-table", "check-completed hook: no callback after Stop; otherwise callback(ok = status is \"ok\", fatal = contiguous failures equal the failure threshold, err); readiness callback: fatal -> Health=Not Ready and internal stop (stop core with explicit=false), (ok, !fatal) -> Health=Ready and readyCancelFn, else Health=Not Ready and nothing else; liveness callback: fatal -> the daemon wait is released, else nothing")
	// check-completed hook: method of *Prober taking *health.State
	prober := p.Named("health", "Prober")
	okConst, _ := constString(p.Const("health", "OK"))
	for _, f := range p.FuncsOfPkg("health") {
		if !recvIs(f, prober) || f.Parent() != nil || f.Signature.Params().Len() != 1 {
			continue
		}
		if !strings.HasSuffix(f.Signature.Params().At(0).Type().String(), "health/v2.State") {
			continue
		}
		c.RunTable(r3, p.FuncKey(f), &TableSpec{
			Fn: f, ExtraStrings: []string{okConst, "failed"},
			Focus: map[string]bool{"failures": true, "threshold": true, "status": true, "stopped": true},
			Rename: func(raw string) string {
				switch {
				case raw == "p1.ContiguousFailures":
					return "failures"
				case raw == "p0."+p.Field("health", "Prober", "probe").Name()+".FailureThreshold":
					return "threshold"
				case raw == "p1.Status":
					return "status"
				case strings.Contains(raw, "atomic.Bool).Load(") && strings.Contains(raw, "p0."+p.Field("health", "Prober", "stopped").Name()):
					return "stopped"
				}
				return ""
			},
		}, &TableCheck{
			Keys: map[string][]constant.Value{"failures": Ints(0, 1, 2, 3, 4), "threshold": Ints(1, 2, 3), "status": Strs(okConst, "failed", ""), "stopped": Bools()},
			Judge: func(val map[string]constant.Value, l *Leaf) (bool, string, string) {
				obs := "no callback"
				for _, e := range l.Effects {
					if e.Name == "callfn:p0.onCheckEndFunc" && len(e.Args) == 3 {
						obs = fmt.Sprintf("callback(ok=%s fatal=%s err=%s)", e.Args[0], e.Args[1], e.Args[2])
					}
				}
				if VBool(val, "stopped") {
					return obs == "no callback", "no callback", obs
				}
				exp := fmt.Sprintf("callback(ok=%v fatal=%v err=$p1.Err)", VStr(val, "status") == okConst, VInt(val, "failures") == VInt(val, "threshold"))
				return obs == exp, exp, obs
			},
		})
	}
	ready, notReady := "", ""
	if v, ok := constString(p.Const("types", "ProcessHealthReady")); ok {
		ready = v
	}
	if v, ok := constString(p.Const("types", "ProcessHealthNotReady")); ok {
		notReady = v
	}
	isStopCore := func(f *ssa.Function) bool {
		for _, t := range s.StopCores {
			if t == f {
				return true
			}
		}
		return false
	}
	for _, cb := range s.probeCallbacks("ReadinessProbe") {
		c.RunTable(r3, "readiness:"+p.FuncKey(cb), &TableSpec{
			Fn: cb, Depth: 6,
			Focus: map[string]bool{"ok": true, "fatal": true},
			Rename: func(raw string) string {
				switch {
				case raw == "p1":
					return "ok"
				case raw == "p2":
					return "fatal"
				case strings.HasSuffix(raw, ".procState.Health"):
					return "health"
				}
				return ""
			},
			StopAt: func(callee *ssa.Function, cc *ssa.CallCommon) (string, bool) {
				if isStopCore(callee) {
					return "StopCore", true
				}
				return "", false
			},
		}, &TableCheck{
			Keys: map[string][]constant.Value{"ok": Bools(), "fatal": Bools()},
			Judge: func(val map[string]constant.Value, l *Leaf) (bool, string, string) {
				h := "unchanged"
				if m, ok := l.Mem["health"]; ok {
					h = m.String()
				}
				stop := "none"
				for _, e := range l.Effects {
					if e.Name == "StopCore" && len(e.Args) == 2 {
						stop = "StopCore(explicit=" + e.Args[1].String() + ")"
					}
				}
				rel := l.HasEffect("callfn:p0.readyCancelFn")
				obs := fmt.Sprintf("Health=%s release=%v stop=%s", h, rel, stop)
				var exp string
				switch {
				case VBool(val, "fatal"):
					exp = fmt.Sprintf("Health=%q release=false stop=StopCore(explicit=false)", notReady)
				case VBool(val, "ok"):
					exp = fmt.Sprintf("Health=%q release=true stop=none", ready)
				default:
					exp = fmt.Sprintf("Health=%q release=false stop=none", notReady)
				}
				return obs == exp, exp, obs
			},
		})
	}
	for _, cb := range s.probeCallbacks("LivenessProbe") {
		c.RunTable(r3, "liveness:"+p.FuncKey(cb), &TableSpec{
			Fn: cb, Depth: 5,
			Focus: map[string]bool{"fatal": true, "daemon": true},
			Rename: func(raw string) string {
				switch {
				case raw == "p2":
					return "fatal"
				case strings.HasSuffix(raw, ".procConf.IsDaemon"):
					return "daemon"
				}
				return ""
			},
		}, &TableCheck{
			Keys: map[string][]constant.Value{"fatal": Bools(), "daemon": Bools()},
			Judge: func(val map[string]constant.Value, l *Leaf) (bool, string, string) {
				sent := l.HasEffect("send:p0.procStateChan")
				obs := fmt.Sprintf("daemon-wait-released=%v", sent)
				exp := fmt.Sprintf("daemon-wait-released=%v", VBool(val, "fatal") && VBool(val, "daemon"))
				return obs == exp, exp, obs
			},
		})
	}
	c.Floor(r3, 3, "probe callbacks")

	// ------------------------------------------------------------------ (4) (5) (6)
	s.checkReleaseSites(c)
	s.checkHealthReset(c, "health-reset")
	s.checkStatusStoreCallsHook(c, "status-store-calls-hook")
	s.checkProberLifecycle(c, "prober-lifecycle")
	s.checkDaemonRelease(c, "daemon-released-after-configured-stop")
	// the probers exist and run: the constructor creates them from the configured probes, the run loop starts them
	// after every successful launch and before it waits for the command
	{
		rule := c.Rule("probers-created-and-started", "the Process constructor reaches, on every path, the function that stores health.New(...) into readyProber (under ReadinessProbe != nil) and liveProber (under LivenessProbe != nil), each with the matching configured probe and this process's check-completed callback; in the run loop every path from a successful launch to command.Wait() passes a call that may start both probers")
		proberStart := p.TryMethod("health", "Prober", "Start")
		healthNew := p.TryFunc("health", "New")
		fReadyCfg := p.Field("types", "ProcessConfig", "ReadinessProbe")
		fLiveCfg := p.Field("types", "ProcessConfig", "LivenessProbe")
		ctor := p.TryFunc("app", "NewProcess")
		if c.Check(proberStart != nil && healthNew != nil && ctor != nil, rule, "shape", "", "Prober.Start, health.New and the constructor found", "Prober.Start / health.New / NewProcess not found") {
			for _, pr := range []struct {
				fld, cfg *types.Var
			}{{s.FReadyProber, fReadyCfg}, {s.FLiveProber, fLiveCfg}} {
				// creation sites: store of Extract#0 of health.New whose probe argument is read from the matching config field
				var creators []*ssa.Function
				okArg := false
				for _, f := range p.FuncsWith(StoreTo("prober", pr.fld)) {
					for _, in := range DirectSites(f, StoreTo("prober", pr.fld)) {
						v, _ := StoredValue(in, pr.fld)
						ex, isEx := stripConv(v).(*ssa.Extract)
						if !isEx {
							continue
						}
						call, isC := ex.Tuple.(*ssa.Call)
						if !isC || call.Call.StaticCallee() != healthNew {
							continue
						}
						creators = appendUniq(creators, f)
						for _, a := range call.Call.Args {
							if PathOf(a).LastField() == pr.cfg {
								okArg = true
							}
						}
						// guarded by nothing but the configured probe being set
						for _, g := range GuardsOf(in) {
							cmp, isCmp := g.Cmp()
							if !isCmp || !(PathOf(cmp.X).LastField() == pr.cfg || PathOf(cmp.Y).LastField() == pr.cfg) {
								okArg = false
							}
						}
					}
				}
				c.Check(len(creators) >= 1 && okArg, rule, "created:"+pr.fld.Name(), FirstPos(p, ctor), "created from the configured probe whenever it is set", "the prober is not created from process."+pr.cfg.Name()+" whenever that probe is configured")
				if len(creators) >= 1 {
					mk := p.Deep(CallOfFn("create prober", creators...))
					barrier := func(in ssa.Instruction) bool {
						switch in.(type) {
						case *ssa.Go, *ssa.Defer:
							return false
						}
						return mk.MayAt(in)
					}
					bad := false
					for in := range Reach(Entry(ctor), barrier, nil) {
						if _, isRet := in.(*ssa.Return); isRet {
							bad = true
						}
					}
					c.Check(!bad, rule, "constructor-creates:"+pr.fld.Name(), FirstPos(p, ctor), "the constructor sets the prober up on every path", "a path of the Process constructor returns without setting up "+pr.fld.Name()+": the configured probe never runs, so the process never becomes Ready / is never restarted on failures")
				}
				// started after the launch
				startD := p.Deep(Site{Name: "Prober.Start on " + pr.fld.Name(), Call: func(cc *ssa.CallCommon) bool {
					return cc.StaticCallee() == proberStart && len(cc.Args) > 0 && PathOf(cc.Args[0]).LastField() == pr.fld
				}})
				for _, re := range s.RunEntries {
					launchD := p.Deep(s.LaunchSite)
					waits := DirectSites(re, MethodOnField("command.Wait", s.FCommand, s.MWait))
					for _, in := range FindInstrs(re, func(x ssa.Instruction) bool { cc, ok := x.(*ssa.Call); return ok && launchD.MayAt(cc) }) {
						call := in.(*ssa.Call)
						barrier := func(x ssa.Instruction) bool {
							switch x.(type) {
							case *ssa.Go, *ssa.Defer:
								return false
							}
							return startD.MayAt(x)
						}
						vis := Reach([]Pt{after(call)}, barrier, ErrNilEdge(call, true))
						bad := false
						for _, w := range waits {
							if vis[w] {
								bad = true
							}
						}
						c.Check(!bad && len(waits) > 0, rule, "started:"+pr.fld.Name(), p.InstrPos(call), "started between launch and wait", "after a successful launch the run loop can reach command.Wait() without starting "+pr.fld.Name()+": the probe never runs for this (or for a restarted) instance")
					}
				}
			}
		}
	}
	// a launched daemon is alive until its liveness probe or a stop says otherwise
	{
		rule := c.Rule("daemon-wait", "in the run loop, on the edge on which the daemon predicate (IsDaemon and launcher exit code 0) holds, the daemon wait (the receive from procStateChan) follows on every path before the restart decision; the wait is never made conditional on the predicate being false")
		var waitFns []*ssa.Function
		for _, f := range p.FuncsOfPkg("app") {
			if s.IsProcessMethod(f) && f.Parent() == nil && len(DirectSites(f, Site{Name: "<-procStateChan", Instr: func(in ssa.Instruction) bool {
				return IsRecvFrom(in, func(ch ssa.Value) bool { return PathOf(ch).LastField() == s.FStateChan })
			}})) > 0 {
				waitFns = appendUniq(waitFns, f)
			}
		}
		if c.Check(len(waitFns) >= 1, rule, "wait-fn", "", "daemon wait found", "no function waits on procStateChan") {
			wsite := CallOfFn("daemon wait", waitFns...)
			isPred := func(f *ssa.Function) bool {
				if f == nil || !s.IsProcessMethod(f) || f.Signature.Results().Len() != 1 {
					return false
				}
				return len(FindInstrs(f, func(in ssa.Instruction) bool { return IsLoadOf(in, s.FIsDaemon) })) > 0
			}
			for _, re := range s.RunEntries {
				calls := DirectSites(re, wsite)
				c.Check(len(calls) >= 1, rule, "called:"+p.FuncKey(re), FirstPos(p, re), "the run loop waits for a launched daemon", "the run loop never waits for a launched daemon: it is reported Completed as soon as its launcher exits")
				for _, wc := range calls {
					ok := true
					for _, g := range GuardsOf(wc) {
						v, val := g.BoolVal()
						if pc, isC := stripConv(v).(*ssa.Call); isC && isPred(pc.Call.StaticCallee()) && !val {
							ok = false
						}
					}
					// before the restart decision
					for _, rd := range DirectSites(re, CallOfFn("restart decision", s.RestartDecs...)) {
						if DominatesInstr(rd, wc) {
							ok = false
						}
					}
					c.Check(ok, rule, "guard:"+p.FuncKey(re), p.InstrPos(wc), "made when the daemon predicate holds, before the restart decision", "the daemon wait is made only when the process is NOT a launched daemon (or after the restart decision): a daemon is treated as exited when its launcher returns")
				}
			}
			// the predicate itself: IsDaemon && ExitCode == 0
			for _, f := range p.FuncsOfPkg("app") {
				if !isPred(f) || f.Parent() != nil || len(f.Params) != 1 {
					continue
				}
				readsExit := false
				okCmp := true
				AllInstrs(f, func(in ssa.Instruction) {
					if bo, ok := in.(*ssa.BinOp); ok {
						if PathOf(bo.X).LastField() == s.FExitCode || PathOf(bo.Y).LastField() == s.FExitCode {
							readsExit = true
							k, isK := ConstInt(bo.Y)
							if !isK {
								k, isK = ConstInt(bo.X)
							}
							if !(bo.Op == token.EQL && isK && k == 0) {
								okCmp = false
							}
						}
					}
				})
				if readsExit {
					c.Check(okCmp, rule, "predicate:"+p.FuncKey(f), FirstPos(p, f), "daemon launched <=> IsDaemon and launcher exit code == 0", "the daemon predicate does not test the launcher's exit code for == 0")
				}
			}
		}
	}
	s.checkTerminalStopsProbers(c, "terminal-stops-probers")
	{
		rule := c.Rule("updated-config-probes-defaulted", "the process-update operation, which accepts a configuration that did not go through the loader, reaches Probe.ValidateAndSetDefaults for the readiness and for the liveness probe of the updated configuration on every path before the configuration is compared or added")
		up := s.apiMethod("UpdateProcess")
		vsd := p.TryMethod("health", "Probe", "ValidateAndSetDefaults")
		fR := p.Field("types", "ProcessConfig", "ReadinessProbe")
		fL := p.Field("types", "ProcessConfig", "LivenessProbe")
		if c.Check(up != nil && vsd != nil, rule, "shape", "", "UpdateProcess and ValidateAndSetDefaults found", "UpdateProcess / Probe.ValidateAndSetDefaults not found") {
			c.Touch(up)
			vd := p.Deep(CallOfFn("ValidateAndSetDefaults", vsd))
			addDeep := p.Deep(MapUpdateOn("insert Processes", s.FProcesses))
			for _, fld := range []*types.Var{fR, fL} {
				barrier := func(in ssa.Instruction) bool {
					call, ok := in.(*ssa.Call)
					if !ok || !vd.MayAt(call) {
						return false
					}
					for _, a := range call.Call.Args {
						if PathOf(a).LastField() == fld {
							return true
						}
					}
					return false
				}
				bad := false
				for in := range Reach(Entry(up), barrier, nil) {
					if call, ok := in.(*ssa.Call); ok && !barrier(in) && addDeep.MayAt(call) {
						bad = true
					}
				}
				c.Check(!bad, rule, p.CanonName(fld), FirstPos(p, up), "defaulted before the configuration is used", "the updated configuration can be added without its "+fld.Name()+" having been validated and defaulted: a probe sent through the API with period/timeout/thresholds 0 runs with illegal parameters")
			}
		}
	}
	s.checkProbeFailureIsError(c, "probe-failure-is-error")
	s.checkIncompatibleHealthChecksRejected(c, "ready-line-and-probe-rejected")
	// every stop of a running process stops its probers first, whoever asked for the stop: the failure counter of a
	// prober is reset only by stopping it, and "threshold reached" is an equality test
	{
		rule := c.Rule("stop-stops-probers", "in the stop core every path to a signal (Commander.Stop on the command or the configured shutdown command) first stops both probers (Prober.Stop on readyProber and liveProber when set), for the internal stop as well as for the explicit one")
		requireN("StopCore", s.StopCores, 1, 1)
		sc := s.StopCores[0]
		proberStop := p.TryMethod("health", "Prober", "Stop")
		sig := p.Deep(MethodOnField("command.Stop", s.FCommand, s.MStop))
		var signals []ssa.Instruction
		AllInstrs(sc, func(in ssa.Instruction) {
			if call, ok := in.(*ssa.Call); ok && sig.MayAt(call) {
				signals = append(signals, in)
			}
		})
		c.Check(proberStop != nil && len(signals) > 0, rule, "shape", FirstPos(p, sc), "signal sites and Prober.Stop found", "the stop core has no signal site or Prober.Stop does not exist")
		if proberStop != nil {
			for _, fld := range []*types.Var{s.FReadyProber, s.FLiveProber} {
				stopD := p.Deep(Site{Name: "Prober.Stop on " + fld.Name(), Call: func(cc *ssa.CallCommon) bool {
					return cc.StaticCallee() == proberStop && len(cc.Args) > 0 && PathOf(cc.Args[0]).LastField() == fld
				}})
				// may-reach form: a callee that stops the prober when it is set counts (the nil test is its own)
				barrier := func(in ssa.Instruction) bool {
					if _, isGo := in.(*ssa.Go); isGo {
						return false
					}
					if _, isDefer := in.(*ssa.Defer); isDefer {
						return false
					}
					return stopD.MayAt(in)
				}
				vis := Reach(Entry(sc), barrier, nil)
				ok := true
				for _, sgn := range signals {
					if vis[sgn] && !barrier(sgn) {
						ok = false
					}
				}
				c.Check(ok, rule, fld.Name(), FirstPos(p, sc), "stopped before the signal on every path", "a path of the stop core signals the process without stopping "+fld.Name()+" (e.g. only for explicit stops): the prober keeps its consecutive-failure count across the restart, never equals the threshold again, and a process that stays unready is not restarted a second time")
			}
		}
	}
	s.checkStopCoreTable(c, "internal-stop-keeps-policy", "internal")

	// ------------------------------------------------------------------ (7)
	r7 := c.Rule("liveness-ends-daemon", "in the run loop every path from the daemon wait (a blocking receive on procStateChan) to the next launch or to the end passes the restart decision; the daemon wait is entered only for a launched daemon")
	requireN("RunEntry", s.RunEntries, 1, 1)
	run := s.RunEntries[0]
	recvState := p.Deep(Site{Name: "<-procStateChan", Instr: func(in ssa.Instruction) bool {
		return IsRecvFrom(in, func(ch ssa.Value) bool { return PathOf(ch).LastField() == s.FStateChan })
	}})
	dec := p.Deep(CallOfFn("RestartDecision", s.RestartDecs...))
	n7 := 0
	AllInstrs(run, func(in ssa.Instruction) {
		call, ok := in.(*ssa.Call)
		if !ok || !recvState.MayAt(call) {
			return
		}
		n7++
		vis := Reach([]Pt{after(call)}, dec.MustAt, nil)
		bad := false
		launch := p.Deep(s.LaunchSite)
		for x := range vis {
			if dec.MustAt(x) {
				continue
			}
			if _, isRet := x.(*ssa.Return); isRet {
				bad = true
			}
			if cc, isC := x.(*ssa.Call); isC && launch.MayAt(cc) {
				bad = true
			}
		}
		c.Check(!bad, r7, p.FuncKey(run), p.InstrPos(call), "the restart decision follows the daemon wait on every path", "after the daemon wait ends (liveness failure) a path relaunches or finishes without consulting the restart policy")
	})
	if n7 == 0 {
		c.Bad(r7, "none", FirstPos(p, run), "the run loop has no daemon wait")
	}
}

// checkProberLifecycle (C10, C05): rules added after the seeded-change round.
func (s *Sel) checkProberLifecycle(c *Ctx, ruleID string) {
	p := c.P
	rule := c.Rule(ruleID, "Prober.Stop stores stopped=true on every path on which a checker exists (whatever hc.Stop() returns); the Start goroutine re-reads the stopped flag after the initial delay and does not start the checker when it is set; the check-completed hook reads the flag before delivering")
	fStopped := p.Field("health", "Prober", "stopped")
	fHc := p.Field("health", "Prober", "hc")
	store := p.ExtFunc("sync/atomic", "Bool", "Store")
	load := p.ExtFunc("sync/atomic", "Bool", "Load")
	setTrue := Site{Name: "stopped.Store(true)", Call: func(cc *ssa.CallCommon) bool {
		if !sameFunc(CalleeObj(cc), store) || len(cc.Args) != 2 || PathOf(cc.Args[0]).LastField() != fStopped {
			return false
		}
		b, ok := ConstBool(cc.Args[1])
		return ok && b
	}}
	readFlag := Site{Name: "stopped.Load()", Call: func(cc *ssa.CallCommon) bool {
		return sameFunc(CalleeObj(cc), load) && len(cc.Args) == 1 && PathOf(cc.Args[0]).LastField() == fStopped
	}}
	stopFn := p.TryMethod("health", "Prober", "Stop")
	startFn := p.TryMethod("health", "Prober", "Start")
	if stopFn == nil || startFn == nil {
		c.Bad(rule, "prober-methods", "", "Prober.Start/Stop not found")
		return
	}
	c.Touch(stopFn, startFn)
	// Stop: on the hc != nil edge every path sets the flag
	okStop := false
	for _, b := range stopFn.Blocks {
		ifi := IfOf(b)
		if ifi == nil {
			continue
		}
		cmp, ok := CondCmp(ifi.Cond)
		if !ok {
			continue
		}
		if !(PathOf(cmp.X).LastField() == fHc && IsNilConst(cmp.Y) || PathOf(cmp.Y).LastField() == fHc && IsNilConst(cmp.X)) {
			continue
		}
		nn := 0
		if cmp.Op.String() == "==" {
			nn = 1
		}
		r := MustFollow([]Pt{{b.Succs[nn], 0}}, p.Deep(setTrue), nil)
		okStop = r.OK
	}
	if !okStop && p.Deep(setTrue).Always(stopFn) {
		okStop = true
	}
	c.Check(okStop, rule, "stop-sets-flag", FirstPos(p, stopFn), "the stopped flag is set whenever a checker exists", "Prober.Stop can return without setting the stopped flag (e.g. when hc.Stop() reports 'not running' during the initial delay): the sleeping Start goroutine then starts probing a stopped process and later reports it Ready")
	// Start: after the Sleep, the flag is read before hc.Start
	var body *ssa.Function = startFn
	AllInstrs(startFn, func(in ssa.Instruction) {
		if g, ok := in.(*ssa.Go); ok {
			if fns, _ := p.Callees(&g.Call, false); len(fns) == 1 && len(fns[0].Blocks) > 0 {
				body = fns[0]
			}
		}
	})
	var sleeps, hcStarts []ssa.Instruction
	AllInstrs(body, func(in ssa.Instruction) {
		call, ok := in.(*ssa.Call)
		if !ok {
			return
		}
		o := CalleeObj(&call.Call)
		if o == nil {
			return
		}
		if o.Pkg() != nil && o.Pkg().Path() == "time" && o.Name() == "Sleep" {
			sleeps = append(sleeps, in)
		}
		if o.Name() == "Start" && len(call.Call.Args) > 0 && PathOf(call.Call.Args[0]).LastField() == fHc {
			hcStarts = append(hcStarts, in)
		}
	})
	// a restarted prober clears the flag: Store(false) precedes the re-read of the flag
	{
		clr := Site{Name: "stopped.Store(false)", Call: func(cc *ssa.CallCommon) bool {
			if !sameFunc(CalleeObj(cc), store) || len(cc.Args) != 2 || PathOf(cc.Args[0]).LastField() != fStopped {
				return false
			}
			b, ok := ConstBool(cc.Args[1])
			return ok && !b
		}}
		reads := DirectSites(body, readFlag)
		okClr := len(reads) > 0 && (len(DirectSites(body, clr)) > 0 || len(DirectSites(startFn, clr)) > 0)
		if okClr && len(DirectSites(body, clr)) > 0 {
			r := MustPrecede(body, p.Deep(clr), func(in ssa.Instruction) bool { return isOneOf(in, reads) }, nil)
			okClr = r.OK
		}
		c.Check(okClr, rule, "start-clears-flag", FirstPos(p, startFn), "Start clears the stopped flag before it is re-read", "Prober.Start does not clear the stopped flag: after the first stop (every restart of the process stops its probers) the prober never starts again, so a relaunched process is never Ready and its failures are never counted")
	}
	okStart := len(hcStarts) > 0
	for _, sl := range sleeps {
		vis := Reach([]Pt{after(sl)}, p.Deep(readFlag).MustAt, nil)
		for _, hs := range hcStarts {
			if vis[hs] {
				okStart = false
			}
		}
	}
	// and on the flag-set edge the checker is not started
	for _, rd := range DirectSites(body, readFlag) {
		call, ok := rd.(*ssa.Call)
		if !ok {
			continue
		}
		te, _ := boolResultEdges(call)
		for _, g := range te {
			vis := Reach([]Pt{{g.If.Block().Succs[g.Succ], 0}}, nil, nil)
			for _, hs := range hcStarts {
				if vis[hs] {
					okStart = false
				}
			}
		}
	}
	c.Check(okStart, rule, "start-rechecks-flag", FirstPos(p, startFn), "the checker is started only if the prober was not stopped during the initial delay", "the Start goroutine starts the checker after the initial delay without re-reading the stopped flag")
}

// checkStatusStoreCallsHook (C09, C10): every assignment of Status runs the status-change hook.
func (s *Sel) checkStatusStoreCallsHook(c *Ctx, ruleID string) {
	p := c.P
	rule := c.Rule(ruleID, "every function that stores ProcessState.Status (outside the state constructor) calls, in the same stateMtx critical section and with the stored value, the status-change hook (the function that resets Health and sets the exit code of never-run states)")
	newState := p.Func("types", "NewProcessState")
	// the hook: Process method with one string parameter that stores Health
	var hooks []*ssa.Function
	for _, f := range p.FuncsOfPkg("app") {
		if !s.IsProcessMethod(f) || f.Parent() != nil || f.Signature.Params().Len() != 1 {
			continue
		}
		// ... and the value it stores is the "unknown" health (the reset), decided by its parameter
		resets := false
		unknown, _ := constString(p.Const("types", "ProcessHealthUnknown"))
		for _, in := range DirectSites(f, StoreTo("Health", s.FHealth)) {
			if v, ok := StoredValue(in, s.FHealth); ok {
				if sv, isC := ConstString(v); isC && sv == unknown {
					resets = true
				}
			}
		}
		if resets && len(DirectSites(f, StoreTo("Status", s.FStatus))) == 0 {
			if b, ok := f.Signature.Params().At(0).Type().Underlying().(*types.Basic); ok && b.Info()&types.IsString != 0 {
				hooks = append(hooks, f)
			}
		}
	}
	if !c.Check(len(hooks) == 1, rule, "hook", "", "status-change hook found", fmt.Sprintf("%d status-change hooks found", len(hooks))) {
		return
	}
	hookSite := p.Deep(CallOfFn("hook", hooks...))
	for _, f := range p.Funcs {
		if f == newState {
			continue
		}
		for _, in := range DirectSites(f, StoreTo("Status", s.FStatus)) {
			c.Touch(f)
			v, _ := StoredValue(in, s.FStatus)
			r := MustFollow([]Pt{after(in)}, hookSite, nil)
			sameArg := false
			for _, h := range DirectSites(f, CallOfFn("hook", hooks...)) {
				args := ArgsOf(CallCommonOf(h))
				if len(args) == 1 && SameValue(args[0], v) {
					sameArg = true
				}
			}
			c.Check(r.OK && sameArg, rule, "store:"+p.FuncKey(f), p.InstrPos(in), "the hook follows the store with the same value", "Status is assigned without running the status-change hook: the readiness of the previous run is not forgotten (a restarting process keeps reporting Ready) and never-run states keep exit code 0")
		}
	}
}

// checkProbeFailureIsError (C01, C10): the exec checker reports a failure whenever running the probe command
// returned an error - whatever kind of error (non-zero exit, killed by the probe timeout, not startable).
func (s *Sel) checkProbeFailureIsError(c *Ctx, ruleID string) {
	p := c.P
	rule := c.Rule(ruleID, "in every checker of the health package that runs a command, on the edge on which Run() returned a non-nil error every path returns a non-nil error (a probe command killed by its timeout or by a signal has no ordinary exit status and must not count as a success)")
	n := 0
	for _, f := range p.FuncsOfPkg("health") {
		res := f.Signature.Results()
		if res.Len() != 2 || res.At(1).Type().String() != "error" {
			continue
		}
		AllInstrs(f, func(in ssa.Instruction) {
			call, ok := in.(*ssa.Call)
			if !ok {
				return
			}
			o := CalleeObj(&call.Call)
			if o == nil || o.Name() != "Run" || o.Pkg() == nil || !strings.HasSuffix(o.Pkg().Path(), "/src/command") {
				return
			}
			n++
			c.Touch(f)
			ok2 := true
			nRet := 0
			for x := range Reach([]Pt{after(call)}, nil, ErrNilEdge(call, false)) {
				if ret, isRet := x.(*ssa.Return); isRet {
					nRet++
					if IsNilConst(RetVals(ret)[1]) {
						ok2 = false
					}
				}
			}
			c.Check(ok2 && nRet > 0, rule, p.FuncKey(f), p.InstrPos(call), "a failed probe command is reported as a failure", "when the probe command's Run() returns an error the checker can still report success (for instance because only positive exit codes are treated as failures): a probe that hangs until its timeout kills it, or dies from a signal, makes the process Ready and releases its process_healthy dependents")
		})
	}
	if n == 0 {
		c.Bad(rule, "none", "", "no checker in the health package runs a probe command")
	}
}

// checkIncompatibleHealthChecksRejected (C01, C10): a readiness probe together with a ready log line is rejected
// unconditionally - the output handler reports Ready on the log line, which would release process_healthy
// dependents of a process whose probe never passed.
func (s *Sel) checkIncompatibleHealthChecksRejected(c *Ctx, ruleID string) {
	p := c.P
	rule := c.Rule(ruleID, "a registered validator returns a non-nil error, without consulting the strict flag, on the edge on which a process has both a readiness probe and a ready log line (the output handler stores Health=Ready when the line is printed; process_healthy waits accept that)")
	lp := p.loadPipeline()
	fReady := p.Field("types", "ProcessConfig", "ReadinessProbe")
	fStrict := p.Field("types", "Project", "IsStrict")
	// only needed while the output handler may set Ready from the log line
	setsReady := false
	readyConst, _ := constString(p.Const("types", "ProcessHealthReady"))
	for _, f := range p.FuncsOfPkg("app") {
		for _, in := range DirectSites(f, StoreTo("Health", s.FHealth)) {
			if v, ok := StoredValue(in, s.FHealth); ok {
				if sv, isC := ConstString(v); isC && sv == readyConst {
					for _, gd := range GuardsOf(in) {
						if cmp, isCmp := gd.Cmp(); isCmp && (PathOf(cmp.X).LastField() == s.FReadyLogLine || PathOf(cmp.Y).LastField() == s.FReadyLogLine) {
							setsReady = true
						}
					}
				}
			}
		}
	}
	if !setsReady {
		c.OK(rule, "not-needed", "", "no code reports Ready from the ready log line")
		return
	}
	found := false
	for _, v := range lp.Validators {
		for _, b := range v.Blocks {
			ifi := IfOf(b)
			if ifi == nil {
				continue
			}
			cmp, ok := CondCmp(ifi.Cond)
			if !ok || PathOf(cmp.X).LastField() != s.FReadyLogLine && PathOf(cmp.Y).LastField() != s.FReadyLogLine {
				continue
			}
			// the block is reached under ReadinessProbe != nil
			probeGuard := false
			for _, gd := range GuardsOf(ifi) {
				if c2, isCmp := gd.Cmp(); isCmp && (PathOf(c2.X).LastField() == fReady || PathOf(c2.Y).LastField() == fReady) {
					probeGuard = true
				}
			}
			if !probeGuard {
				continue
			}
			succ := 0
			if cmp.Op == token.EQL {
				succ = 1
			}
			good := true
			nRet := 0
			for x := range Reach([]Pt{{b.Succs[succ], 0}}, nil, nil) {
				if IsLoadOf(x, fStrict) {
					good = false
				}
				if _, isNext := x.(*ssa.Next); isNext {
					good = false
				}
				if ret, isRet := x.(*ssa.Return); isRet {
					nRet++
					if IsNilConst(RetVals(ret)[0]) {
						good = false
					}
				}
			}
			if good && nRet > 0 {
				found = true
				c.Touch(v)
			}
		}
	}
	c.Check(found, rule, "unconditional-rejection", FirstPos(p, lp.Load), "the combination is rejected unconditionally", "no registered validator rejects a process with both a readiness probe and a ready log line unconditionally (only in strict mode, or not at all): printing the line reports the process Ready, so a process_healthy dependent is launched although the probe never passed")
}

// checkTerminalStopsProbers (C03, C10): the terminal function stops both probers on every path, so no probe command
// is launched for a process that has ended and a Completed/Skipped process cannot be flipped to Ready later.
func (s *Sel) checkTerminalStopsProbers(c *Ctx, ruleID string) {
	p := c.P
	rule := c.Rule(ruleID, "every path through the terminal function passes a call that may stop readyProber and liveProber (Prober.Stop when set)")
	proberStop := p.TryMethod("health", "Prober", "Stop")
	if !c.Check(proberStop != nil, rule, "shape", "", "Prober.Stop found", "Prober.Stop not found") {
		return
	}
	for _, t := range s.Terminals {
		c.Touch(t)
		for _, fld := range []*types.Var{s.FReadyProber, s.FLiveProber} {
			stopD := p.Deep(Site{Name: "Prober.Stop on " + fld.Name(), Call: func(cc *ssa.CallCommon) bool {
				return cc.StaticCallee() == proberStop && len(cc.Args) > 0 && PathOf(cc.Args[0]).LastField() == fld
			}})
			barrier := func(in ssa.Instruction) bool {
				switch in.(type) {
				case *ssa.Go, *ssa.Defer:
					return false
				}
				return stopD.MayAt(in)
			}
			bad := false
			for in := range Reach(Entry(t), barrier, nil) {
				if _, isRet := in.(*ssa.Return); isRet {
					bad = true
				}
			}
			c.Check(!bad, rule, p.FuncKey(t)+":"+p.CanonName(fld), FirstPos(p, t), "stopped on every path", "the terminal function can return without stopping "+fld.Name()+": its probe commands keep being launched for a process that has ended (also after the project shutdown returned), and a later success reports a finished process Ready")
		}
	}
}
