package pcv

import (
	"strings"
	"fmt"
	"go/types"

	"golang.org/x/tools/go/ssa"
)

func init() {
	register(&PropCheck{
		ID: "C03",
		Explanation: "Shutdown completeness, structural part: (1) the no-restart flag of every collected instance is stored before the first stop core call on all call chains; " +
			"(2) the instance snapshot is read and the stop/wait phase is run with runProcMutex held (spawn registration cannot interleave); " +
			"(3) after every explicit stop call in the shutdown phase every path joins a completion wait for that instance, and the phase returns only after WaitGroup.Wait; " +
			"(4) decision table of the stop core for explicit stops: run context always cancelled, Pending made terminal, running-class set Terminating and signalled on every path; " +
			"(5) the run entry refuses to launch when a stop was requested while pending; (6) Run() joins the process goroutines (Add before go, deferred Done, Wait before return); " +
			"(7) the launch is atomic with a re-check of the stop request (same stateMtx critical section); (8) automatic starts consult project-level shutdown state.",
		Assumptions: []string{
			"that the OS processes have actually exited, and liveness of the waits, are not decided",
			"lock identity for ProjectRunner mutexes is by field (one runner per program)",
		},
		Run: runC03,
	})
}

// stopRequestRead: instructions that read per-process stop-request state:
// a status test against Terminating, the no-restart flag, or procRunCtx.Err()/Done().
func (s *Sel) stopRequestRead() Site {
	p := s.p
	terminating, _ := constString(p.Const("types", "ProcessStateTerminating"))
	load := s.atomicBool("Load")
	statusLoad := p.Deep(LoadOf("load Status", s.FStatus))
	return Site{Name: "stop-request read", Call: func(c *ssa.CallCommon) bool {
		o := CalleeObj(c)
		if sameFunc(o, load) && len(c.Args) > 0 && PathOf(c.Args[0]).LastField() == s.FIsStopped {
			return true
		}
		if c.IsInvoke() && (c.Method.Name() == "Err" || c.Method.Name() == "Done") && PathOf(c.Value).LastField() == s.FRunCtx {
			return true
		}
		if sc := c.StaticCallee(); sc != nil && s.IsProcessMethod(sc) && statusLoad.May(sc) {
			for _, a := range ArgsOf(c) {
				if v, ok := ConstString(a); ok && v == terminating {
					return true
				}
			}
			// variadic constants
			for _, a := range ArgsOf(c) {
				if sl, ok := a.(*ssa.Slice); ok {
					if al, ok := sl.X.(*ssa.Alloc); ok {
						for _, ref := range *al.Referrers() {
							if ia, ok := ref.(*ssa.IndexAddr); ok {
								for _, r2 := range *ia.Referrers() {
									if st, ok := r2.(*ssa.Store); ok {
										if v, ok := ConstString(st.Val); ok && v == terminating {
											return true
										}
									}
								}
							}
						}
					}
				}
			}
		}
		return false
	}, Instr: func(in ssa.Instruction) bool {
		// direct comparison Status == Terminating
		bo, ok := in.(*ssa.BinOp)
		if !ok {
			return false
		}
		if PathOf(bo.X).LastField() == s.FStatus && isStr(bo.Y, terminating) {
			return true
		}
		if PathOf(bo.Y).LastField() == s.FStatus && isStr(bo.X, terminating) {
			return true
		}
		return false
	}}
}

// shutdownFn: the ProjectRunner method implementing IProject.ShutDownProject.
func (s *Sel) shutdownFn() *ssa.Function {
	m := s.p.IfaceMethod("app", "IProject", "ShutDownProject")
	f := s.p.TryMethod("app", "ProjectRunner", m.Name())
	if f == nil {
		broken("ANCHOR-UNRESOLVED ProjectRunner does not implement IProject.ShutDownProject")
	}
	return f
}

func wgMethod(p *Prog, name string) *types.Func { return p.ExtFunc("sync", "WaitGroup", name) }

func runC03(c *Ctx) {
	p := c.P
	s := p.Selectors()
	shut := s.shutdownFn()
	c.Touch(shut)

	// (1)
	s.checkStopSetsFlagFirst(c, "noRestart-before-any-stop")
	s.checkShutdownFlagsAllFirst(c, "shutdown-flags-all-first")

	// (2)
	rSnap := c.Rule("snapshot-under-lock", "in the shutdown function every access to runningProcesses (including synchronously invoked closures) and the call of the stop/wait phase happen with runProcMutex held, and the lock is not released before return")
	ls := p.Locksets(s.Runner)
	access := Or("access runningProcesses", MapLookupOn("r", s.FRunning), MapUpdateOn("w", s.FRunning), MapDeleteOn("d", s.FRunning))
	fns := []*ssa.Function{shut}
	for _, an := range shut.AnonFuncs {
		fns = append(fns, an)
	}
	nAcc := 0
	for _, f := range fns {
		for _, in := range DirectSites(f, access) {
			nAcc++
			c.Check(ls.Holds(in, s.FRunProcMutex, ""), rSnap, "access:"+p.FuncKey(f), p.InstrPos(in), "runProcMutex held", "runningProcesses is read in the shutdown path without runProcMutex")
		}
	}
	if nAcc == 0 {
		c.Bad(rSnap, "access:none", FirstPos(p, shut), "the shutdown function does not read runningProcesses")
	}
	stopDeep := p.Deep(s.stopCoreCall(true, false))
	for _, in := range FindInstrs(shut, func(in ssa.Instruction) bool {
		call, ok := in.(*ssa.Call)
		return ok && stopDeep.MayAt(call)
	}) {
		c.Check(ls.Holds(in, s.FRunProcMutex, ""), rSnap, "stop-phase-under-lock", p.InstrPos(in), "stop/wait phase runs with runProcMutex held", "the stop/wait phase runs after runProcMutex was released: a concurrently spawned process is missed")
	}
	for _, ret := range returnsOf(shut) {
		// the RunDefers before the return
		held := false
		for _, in := range ret.Block().Instrs {
			if _, ok := in.(*ssa.RunDefers); ok && ls.Holds(in, s.FRunProcMutex, "") {
				held = true
			}
		}
		if !held && ls.Holds(ret, s.FRunProcMutex, "") {
			held = true
		}
		c.Check(held, rSnap, "held-until-return", p.InstrPos(ret), "lock held until the function returns", "runProcMutex is released before the shutdown function returns")
	}

	// (3)
	rAwait := c.Rule("every-instance-awaited", "after every explicit stop call issued by the shutdown phase, every path joins a completion wait of that instance (directly or through a goroutine counted in a WaitGroup) before the next iteration/return, and the phase returns only after WaitGroup.Wait")
	waitDone := s.WaitPrims(latchDone)
	waitDeep := p.Deep(Or("waitForCompletion", CallOfFn("wait", waitDone...), s.waitSite(latchDone)))
	isWaitJoin := func(in ssa.Instruction) bool {
		if waitDeep.MustAt(in) {
			return true
		}
		if g, ok := in.(*ssa.Go); ok {
			fns, complete := p.Callees(&g.Call, false)
			if complete && len(fns) > 0 {
				all := true
				for _, fn := range fns {
					if !waitDeep.Always(fn) {
						all = false
					}
				}
				return all
			}
		}
		return false
	}
	nStops := 0
	for _, f := range p.FuncsOfPkg("app") {
		if !s.IsRunnerMethod(f) || !p.reachedFrom(f, shut) {
			continue
		}
		// an iteration that stops instances is never abandoned: a failing stop of one instance must not leave the
		// remaining ones running (separate from what happens to the failing instance itself)
		for _, lp := range NaturalLoops(f) {
			hasStop := false
			for b := range lp.Blocks {
				for _, in := range b.Instrs {
					if call, ok := in.(*ssa.Call); ok && stopDeep.MayAt(call) {
						if sc := call.Call.StaticCallee(); sc != nil && s.IsProcessMethod(sc) {
							hasStop = true
						}
					}
				}
			}
			if !hasStop {
				continue
			}
			var ex []string
			for b := range lp.Blocks {
				if b == lp.Header {
					continue
				}
				for _, sc := range b.Succs {
					if !lp.Blocks[sc] {
						ex = append(ex, posOfBlock(p, b))
					}
				}
			}
			c.Check(len(ex) == 0, rAwait, "stop-loop-exhaustive:"+p.FuncKey(f), FirstPos(p, f), "every instance of the list is stopped", "the loop that stops the instances is left early ("+strings.Join(ex, ", ")+"), e.g. when one stop fails: the remaining instances are neither stopped nor awaited and survive the shutdown")
		}
		loops := RangeLoops(f)
		for _, in := range FindInstrs(f, func(in ssa.Instruction) bool {
			call, ok := in.(*ssa.Call)
			if !ok || !stopDeep.MayAt(call) {
				return false
			}
			// only direct calls on a Process (the per-instance stop), not the phase functions
			sc := call.Call.StaticCallee()
			return sc != nil && s.IsProcessMethod(sc)
		}) {
			nStops++
			c.Touch(f)
			// loop headers act as "next iteration"; the success edge and the
			// error edge of the stop call are judged separately
			call := in.(*ssa.Call)
			for _, edge := range []struct {
				name    string
				wantNil bool
			}{{"success-edge", true}, {"error-edge", false}} {
				vis := Reach([]Pt{after(in)}, isWaitJoin, ErrNilEdge(call, edge.wantNil))
				bad := ssa.Instruction(nil)
				for v := range vis {
					if isWaitJoin(v) {
						continue
					}
					if _, ok := v.(*ssa.Return); ok {
						bad = v
					}
					for _, l := range loops {
						if v == ssa.Instruction(l.If) && (l.Body == in.Block() || l.Body.Dominates(in.Block())) {
							bad = v
						}
					}
				}
				role := "unordered-loop"
				if f.Parent() != nil {
					role = "ordered-goroutine"
				}
				construct := "stop-then-wait:" + role + ":" + edge.name
				if bad == nil {
					c.OK(rAwait, construct, p.InstrPos(in), "every path after the stop joins the completion wait")
				} else {
					c.Bad(rAwait, construct, p.InstrPos(in), "after the stop call a path ("+edge.name+") continues to the next iteration / return at "+p.InstrPos(bad)+" without waiting for the instance to complete")
				}
			}
		}
	}
	if nStops == 0 {
		c.Bad(rAwait, "stop-then-wait:none", FirstPos(p, shut), "no per-instance stop call reachable from the shutdown function")
	}
	// WaitGroup.Wait before return in functions that Add and spawn waiters
	wgWait, wgAdd := wgMethod(p, "Wait"), wgMethod(p, "Add")
	for _, f := range p.FuncsOfPkg("app") {
		if !s.IsRunnerMethod(f) || f.Parent() != nil || !p.reachedFrom(f, shut) {
			continue
		}
		// local wait groups (Alloc) that are Add-ed in f or its closures and waited in f
		hasLocalWG := false
		AllInstrs(f, func(in ssa.Instruction) {
			if al, ok := in.(*ssa.Alloc); ok {
				if nt, ok := al.Type().(*types.Pointer).Elem().(*types.Named); ok && nt.Obj().Name() == "WaitGroup" && nt.Obj().Pkg().Path() == "sync" {
					hasLocalWG = true
				}
			}
		})
		if !hasLocalWG {
			continue
		}
		_ = wgAdd
		d := p.Deep(CallOf("WaitGroup.Wait", wgWait))
		r := MustPrecede(f, d, func(in ssa.Instruction) bool { _, ok := in.(*ssa.Return); return ok }, nil)
		c.PathCheck(r, rAwait, "joined:"+p.FuncKey(f), FirstPos(p, f), "returns only after WaitGroup.Wait", "a function of the shutdown phase that starts waiter goroutines can return without WaitGroup.Wait")
	}

	// (4)
	s.checkStopCoreTable(c, "stop-core-explicit-table", "explicit")

	// (5)
	rRef := c.Rule("run-refuses-after-stop", "in the run entry every launch is dominated by a read of the stop-request state, and on the stop-requested edge the launch is unreachable")
	launch := p.Deep(s.LaunchSite)
	srr := s.stopRequestRead()
	for _, re := range s.RunEntries {
		c.Touch(re)
		reads := DirectSites(re, srr)
		r := MustPrecede(re, p.Deep(srr), func(in ssa.Instruction) bool {
			call, ok := in.(*ssa.Call)
			return ok && launch.MayAt(call)
		}, nil)
		c.PathCheck(r, rRef, "check-dominates-launch:"+p.FuncKey(re), FirstPos(p, re), "a stop-request read dominates every launch", "the run entry can launch without consulting the stop-request state (a process stopped while pending would start)")
		refuses := false
		for _, rd := range reads {
			call, ok := rd.(*ssa.Call)
			if !ok {
				continue
			}
			te, _ := boolResultEdges(call)
			for _, g := range te {
				vis := Reach([]Pt{{g.If.Block().Succs[g.Succ], 0}}, nil, nil)
				reach := false
				for in := range vis {
					if cc, ok := in.(*ssa.Call); ok && launch.MayAt(cc) {
						reach = true
					}
				}
				if !reach {
					refuses = true
				}
			}
		}
		c.Check(refuses, rRef, "refusal-edge:"+p.FuncKey(re), FirstPos(p, re), "on the stop-requested edge the launch is unreachable", "no branch of the run entry refuses to launch after a stop request")
	}

	// (6)
	s.checkRunJoins(c, "run-joins")

	// (7)
	rAtomic := c.Rule("launch-atomic-with-stop-check", "the launch happens inside a stateMtx critical section in which, before the launch, the stop-request state is read (otherwise a stop that saw Pending marks the instance done, shutdown returns, and the launch follows)")
	nL := 0
	for _, f := range p.FuncsOfPkg("app") {
		for _, in := range FindInstrs(f, func(in ssa.Instruction) bool {
			call, ok := in.(*ssa.Call)
			if !ok || !launch.MayAt(call) {
				return false
			}
			return ls.Holds(in, s.FStateMtx, "")
		}) {
			// innermost: the lock is acquired in this very function
			acquiredHere := false
			var lockInstrs []ssa.Instruction
			AllInstrs(f, func(x ssa.Instruction) {
				if call, ok := x.(*ssa.Call); ok {
					if k, acq, ok := ls.lockOp(&call.Call); ok && acq && k.Field == s.FStateMtx {
						acquiredHere = true
						lockInstrs = append(lockInstrs, x)
					}
				}
			})
			if !acquiredHere {
				continue
			}
			nL++
			c.Touch(f)
			ok := true
			d := p.Deep(srr)
			for _, li := range lockInstrs {
				vis := Reach([]Pt{after(li)}, d.MustAt, nil)
				if vis[in] {
					ok = false
				}
			}
			c.Check(ok, rAtomic, "critical-section:launcher", p.InstrPos(in), "stop-request state is re-read under stateMtx before the launch", "the critical section that sets the running status and launches does not re-check the stop request: refusal check and launch are separated by a lock release")
		}
	}
	if nL == 0 {
		c.Bad(rAtomic, "critical-section:none", "", "the launch is not performed inside a stateMtx critical section at all")
	}

	s.checkShutdownExtras(c)

	// (8)
	rAuto := c.Rule("autostart-consults-shutdown", "before the run entry is called, the process goroutine (or every automatic spawn site) reads project-level shutdown state (ctxApp or a flag stored by the shutdown function)")
	shutState := s.shutdownStateRead(shut)
	for _, g := range s.ProcGo {
		runCalls := DirectSites(g, CallOfFn("RunEntry", s.RunEntries...))
		d := p.Deep(shutState)
		r := MustPrecede(g, d, func(in ssa.Instruction) bool { return isOneOf(in, runCalls) }, nil)
		if r.OK {
			c.OK(rAuto, "process-goroutine", FirstPos(p, g), "shutdown state read dominates the run entry")
			continue
		}
		// alternatively every spawn call site is preceded
		all := true
		var off ssa.Instruction
		for _, sp := range s.Spawns {
			for _, cr := range p.Callers(sp) {
				if ok, o := p.PrecededUp(cr.Instr, d, 2); !ok {
					all = false
					off = o
				}
			}
		}
		pos := FirstPos(p, g)
		if off != nil {
			pos = p.InstrPos(off)
		}
		c.Check(all, rAuto, "process-goroutine", pos, "every spawn site consults the shutdown state", "no project-level shutdown state is consulted between a shutdown request and the (automatic) launch of further processes: a shutdown during start-up is followed by launches")
	}
}

// shutdownStateRead: loads of ctxApp, or of any ProjectRunner field that the
// shutdown function stores to.
func (s *Sel) shutdownStateRead(shut *ssa.Function) Site {
	fields := map[*types.Var]bool{s.FCtxApp: true}
	for _, fld := range StructFields(s.Runner) {
		if len(DirectSites(shut, StoreTo("store", fld))) > 0 {
			fields[fld] = true
		}
	}
	return Site{Name: "project shutdown state read", Instr: func(in ssa.Instruction) bool {
		for fld := range fields {
			if IsLoadOf(in, fld) {
				return true
			}
		}
		return false
	}, Call: func(c *ssa.CallCommon) bool {
		if len(c.Args) > 0 {
			if f := PathOf(c.Args[0]).LastField(); f != nil && fields[f] {
				o := CalleeObj(c)
				if o != nil && (o.Name() == "Load" || o.Name() == "Err" || o.Name() == "Done") {
					return true
				}
			}
		}
		return false
	}}
}

// reachedFrom: f is root or synchronously/asynchronously reachable from root
// through static calls, go statements and closures.
func (p *Prog) reachedFrom(f, root *ssa.Function) bool {
	seen := map[*ssa.Function]bool{}
	work := []*ssa.Function{root}
	for len(work) > 0 {
		g := work[len(work)-1]
		work = work[:len(work)-1]
		if seen[g] {
			continue
		}
		seen[g] = true
		if g == f {
			return true
		}
		if g.Blocks == nil {
			continue
		}
		AllInstrs(g, func(in ssa.Instruction) {
			if c := CallCommonOf(in); c != nil {
				fns, _ := p.Callees(c, false)
				work = append(work, fns...)
			}
			if mc, ok := in.(*ssa.MakeClosure); ok {
				work = append(work, mc.Fn.(*ssa.Function))
			}
		})
	}
	return false
}

// checkRunJoins (C03, C04): Run() returns only after waitGroup.Wait(); Spawn
// adds before go; the goroutine always calls Done.
func (s *Sel) checkRunJoins(c *Ctx, ruleID string) {
	p := c.P
	rule := c.Rule(ruleID, "the function that joins the process goroutines cannot return after a spawn without waitGroup.Wait(); the spawn function calls waitGroup.Add before the go statement; every path of the process goroutine calls waitGroup.Done")
	wait := MethodOnField("waitGroup.Wait", s.FWaitGroup, wgMethod(p, "Wait"))
	add := MethodOnField("waitGroup.Add", s.FWaitGroup, wgMethod(p, "Add"))
	done := MethodOnField("waitGroup.Done", s.FWaitGroup, wgMethod(p, "Done"))
	joiners := p.FuncsWith(wait)
	if len(joiners) == 0 {
		c.Bad(rule, "join:none", "", "no function waits on the runner's WaitGroup: Run() cannot wait for the processes")
	}
	spawnSite := CallOfFn("Spawn", s.Spawns...)
	for _, j := range joiners {
		c.Touch(j)
		spawnCalls := DirectSites(j, spawnSite)
		if len(spawnCalls) == 0 {
			continue
		}
		ok := true
		var off ssa.Instruction
		wd := p.Deep(wait)
		for _, sc := range spawnCalls {
			vis := Reach([]Pt{after(sc)}, wd.MustAt, nil)
			for in := range vis {
				if _, isRet := in.(*ssa.Return); isRet {
					ok = false
					off = in
				}
			}
		}
		pos := FirstPos(p, j)
		if off != nil {
			pos = p.InstrPos(off)
		}
		c.Check(ok, rule, "join:"+p.FuncKey(j), pos, "no return after a spawn without waitGroup.Wait()", "Run() can return after spawning processes without waiting for them")
	}
	for _, sp := range s.Spawns {
		c.Touch(sp)
		r := MustPrecede(sp, p.Deep(add), func(in ssa.Instruction) bool {
			g, ok := in.(*ssa.Go)
			if !ok {
				return false
			}
			fns, _ := p.Callees(&g.Call, false)
			for _, fn := range fns {
				for _, pg := range s.ProcGo {
					if fn == pg {
						return true
					}
				}
			}
			return false
		}, nil)
		c.PathCheck(r, rule, "add-before-go:"+p.FuncKey(sp), FirstPos(p, sp), "waitGroup.Add precedes the go statement", "the process goroutine is started before waitGroup.Add (Run may return early)")
	}
	for _, g := range s.ProcGo {
		c.Touch(g)
		c.Check(p.Deep(done).Always(g), rule, "done:"+p.FuncKey(g), FirstPos(p, g), "every path calls waitGroup.Done", "a path of the process goroutine does not call waitGroup.Done (Run never returns)")
	}
}

// checkShutdownExtras: rules added after the seeded-change round (see DESIGN.md section 12).
func (s *Sel) checkShutdownExtras(c *Ctx) {
	s.checkFailedShutdownCommandKills(c)
	s.checkOrderedOrderComplete(c)
	s.checkRefusalMatchesPendingStop(c, "refusal-matches-pending-stop")
	s.checkDaemonRelease(c, "daemon-released-after-configured-stop")
	s.checkProberLifecycle(c, "prober-lifecycle")
	s.checkTerminalStopsProbers(c, "terminal-stops-probers")
}

// checkFailedShutdownCommandKills (C03, C06, C08): a failing shutdown command escalates to SIGKILL on every path.
func (s *Sel) checkFailedShutdownCommandKills(c *Ctx) {
	p := c.P
	rKill := c.Rule("failed-shutdown-command-kills", "in the function that runs the configured shutdown command, every path on the command's error edge reaches Commander.Stop with the constant SIGKILL on Process.command (a command that could not be stopped gracefully is never left alive)")
	n := 0
	for _, f := range p.FuncsOfPkg("app") {
		if !s.IsProcessMethod(f) {
			continue
		}
		AllInstrs(f, func(in ssa.Instruction) {
			call, ok := in.(*ssa.Call)
			if !ok {
				return
			}
			o := CalleeObj(&call.Call)
			if o == nil || o.Name() != "Run" {
				return
			}
			bc, isB := stripConv(ReceiverOf(&call.Call)).(*ssa.Call)
			if !isB {
				return
			}
			uses := false
			for _, a := range bc.Call.Args {
				if PathOf(a).LastField() == s.FShutDownCommand {
					uses = true
				}
			}
			if !uses {
				return
			}
			n++
			c.Touch(f)
			kill := p.Deep(Site{Name: "Stop(SIGKILL)", Call: func(cc *ssa.CallCommon) bool {
				if !sameFunc(CalleeObj(cc), s.MStop) || PathOf(ReceiverOf(cc)).LastField() != s.FCommand {
					return false
				}
				k, okk := ConstInt(ArgsOf(cc)[0])
				return okk && k == 9
			}})
			r := MustFollow([]Pt{after(call)}, kill, ErrNilEdge(call, false))
			c.PathCheck(r, rKill, p.FuncKey(f), p.InstrPos(call), "a failed shutdown command is followed by SIGKILL on every path", "when the configured shutdown command fails a path returns without killing the command: it stays alive, and the shutdown (which skips the wait on a stop error) returns while it is running")
		})
	}
	if n == 0 {
		c.Bad(rKill, "none", "", "the configured shutdown command is never run")
	}

}

// checkOrderedOrderComplete (C03, C06, C12): the ordered list contains every registered instance.
func (s *Sel) checkOrderedOrderComplete(c *Ctx) {
	p := c.P
	shut := s.shutdownFn()
	rAll := c.Rule("ordered-order-complete", "on the ordered branch of the shutdown function the list of instances is appended to directly in the callback of Project.WithProcesses called with an empty name list; the registry lookup key is the ReplicaName of the callback's parameter and the append is guarded by nothing but the success of that lookup (no process that is registered is left out, e.g. disabled or foreground ones started by hand)")
	withProc := p.TryMethod("types", "Project", "WithProcesses")
	okAll := false
	var where ssa.Instruction
	for _, in := range DirectSites(shut, CallOfFn("WithProcesses", withProc)) {
		where = in
		args := ArgsOf(CallCommonOf(in))
		if len(args) != 2 {
			continue
		}
		// empty list of names
		empty := false
		if sl, ok := args[0].(*ssa.Slice); ok {
			if al, ok := sl.X.(*ssa.Alloc); ok {
				if arr, ok := al.Type().(*types.Pointer).Elem().Underlying().(*types.Array); ok && arr.Len() == 0 {
					empty = true
				}
			}
		}
		fns, _ := p.FuncValues(args[1])
		for _, cb := range fns {
			if len(cb.Params) < 1 {
				continue
			}
			good := empty
			nApp := 0
			AllInstrs(cb, func(x ssa.Instruction) {
				if _, ok := IsBuiltinCall(x, "append"); !ok {
					return
				}
				nApp++
				guards := GuardsOf(x)
				for _, g := range guards {
					v, val := g.BoolVal()
					ex, isEx := v.(*ssa.Extract)
					if !isEx || ex.Index != 1 || !val {
						good = false
						continue
					}
					lk, isLk := ex.Tuple.(*ssa.Lookup)
					if !isLk || PathOf(lk.X).LastField() != s.FRunning {
						good = false
						continue
					}
					kp := PathOf(lk.Index)
					if kp.LastField() != s.FReplicaName {
						good = false
					}
				}
				if len(guards) != 1 {
					good = false
				}
			})
			if good && nApp == 1 {
				okAll = true
			}
		}
	}
	// the traversal itself visits every configured process: it does not filter on Disabled / IsForeground
	if withProc != nil {
		filt := ""
		// the traversal's own code: the method and the Project methods it calls statically (not the callback)
		trav := []*ssa.Function{withProc}
		for i := 0; i < len(trav); i++ {
			AllInstrs(trav[i], func(in ssa.Instruction) {
				if call, ok := in.(*ssa.Call); ok {
					if sc := call.Call.StaticCallee(); sc != nil && len(sc.Blocks) > 0 && recvIs(sc, p.Named("types", "Project")) {
						trav = appendUniq(trav, sc)
					}
				}
			})
		}
		for _, tf := range trav {
			AllInstrs(tf, func(in ssa.Instruction) {
				for _, fld := range []*types.Var{s.FDisabled, s.FIsForeground} {
					if IsLoadOf(in, fld) {
						filt = fld.Name()
					}
					if call, ok := in.(*ssa.Call); ok {
						if sc := call.Call.StaticCallee(); sc != nil && len(sc.Blocks) > 0 && recvIs(sc, s.ProcConf) && len(FindInstrs(sc, func(x ssa.Instruction) bool { return IsLoadOf(x, fld) })) > 0 {
							filt = fld.Name()
						}
					}
				}
			})
		}
		c.Touch(withProc)
		c.Check(filt == "", rAll, "traversal-unfiltered", FirstPos(p, withProc), "the traversal visits every configured process", "the dependency-order traversal skips processes by their "+filt+" flag: a disabled or foreground process that was started on request is registered but never enters the ordered shutdown list, so it is neither stopped nor awaited")
	}
	c.Check(okAll, rAll, p.FuncKey(shut), p.InstrPos(where), "every registered instance enters the ordered list", "the ordered shutdown list is not built by looking every process of the traversal up in runningProcesses (it goes through a filtered helper or an extra condition): a registered instance that the filter drops is neither stopped nor awaited, survives the shutdown and Run() hangs")
}

// checkRefusalMatchesPendingStop (C03, C08).
func (s *Sel) checkRefusalMatchesPendingStop(c *Ctx, ruleID string) {
	p := c.P
	// (c) the refusal check of the run entry recognises the state a pending stop leaves behind
	rRef := c.Rule(ruleID, "the status constants tested by the refusal check at the top of the run entry include the state constant that the stop core hands to the terminal function for a process stopped while Pending (otherwise the goroutine that was waiting on dependencies launches the command after the stop)")
	requireN("StopCore", s.StopCores, 1, 1)
	var pendingArg []string
	for _, in := range DirectSites(s.StopCores[0], CallOfFn("Terminal", s.Terminals...)) {
		for _, a := range ArgsOf(CallCommonOf(in)) {
			if v, ok := ConstString(a); ok {
				pendingArg = append(pendingArg, v)
			}
		}
	}
	var tested []string
	nonStatus := false
	launchD := p.Deep(s.LaunchSite)
	for _, re := range s.RunEntries {
		var launches []ssa.Instruction
		AllInstrs(re, func(x ssa.Instruction) {
			if cc, ok := x.(*ssa.Call); ok && launchD.MayAt(cc) {
				launches = append(launches, x)
			}
		})
		for _, in := range DirectSites(re, s.stopRequestRead()) {
			call, ok := in.(*ssa.Call)
			if !ok {
				continue
			}
			// only the refusal check: a read that dominates every launch
			dom := len(launches) > 0
			for _, l := range launches {
				if !DominatesInstr(in, l) {
					dom = false
				}
			}
			if !dom {
				continue
			}
			if sc := call.Call.StaticCallee(); sc != nil && s.IsProcessMethod(sc) {
				tested = append(tested, constStringArgs(call)...)
			} else {
				nonStatus = true // flag / context based refusal
			}
		}
	}
	okRef := nonStatus
	for _, pa := range pendingArg {
		for _, t := range tested {
			if pa == t {
				okRef = true
			}
		}
	}
	c.Check(okRef && len(pendingArg) > 0, rRef, "run-entry", FirstPos(p, s.RunEntries[0]), "refusal check and pending stop agree", fmt.Sprintf("a process stopped while Pending is left in state %v but the run entry refuses only for %v: its goroutine launches the command once the dependencies are met, although it was stopped", pendingArg, tested))
}
