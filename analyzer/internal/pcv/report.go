package pcv

import (
	"bufio"
	"crypto/sha1"
	"encoding/json"
	"fmt"
	"os"
	"path/filepath"
	"sort"
	"strings"
	"time"

	"golang.org/x/tools/go/ssa"
)

// Obl is one obligation: a rule applied to one construct.
type Obl struct {
	Rule      string `json:"rule"`
	Construct string `json:"construct"`
	Verdict   string `json:"verdict"` // discharged | violated
	Pos       string `json:"pos,omitempty"`
	Detail    string `json:"detail,omitempty"`
}

func (o Obl) Key() string { return o.Rule + "|" + o.Construct }

// Ctx collects the obligations of one property check.
type Ctx struct {
	P     *Prog
	Prop  string
	Tier  string
	Obls  []Obl
	Notes []string
	// counters for the evidence file
	Evaluations int            // sites / table rows / paths inspected
	RuleHits    map[string]int // rule -> number of matched constructs
	Funcs       map[string]bool
	Tables      []map[string]any
	Rules       map[string]string // rule id -> one-line description
	ruleOrder   []string
	Extra       map[string]any // additional coverage keys (thorough tier)
	VerifDir    string
	knownKeys   map[string]bool
}

// IsKnown reports whether rule|construct is listed as a known finding of this property. Rules use it only to
// attribute a violation found in an extracted helper to the listed caller it was extracted from; it never turns
// a violation into a pass.
func (c *Ctx) IsKnown(rule, construct string) bool {
	if c.knownKeys == nil {
		c.knownKeys = map[string]bool{}
		if c.VerifDir != "" {
			fs, _ := LoadFindings(filepath.Join(c.VerifDir, "known_findings.jsonl"))
			for _, f := range fs {
				if f.Status == "known" && f.Property == c.Prop {
					c.knownKeys[f.Key] = true
				}
			}
		}
	}
	return c.knownKeys[rule+"|"+construct]
}

// KnownConstructs lists the constructs of the known findings of a rule (attribution of moved code only).
func (c *Ctx) KnownConstructs(rule string) []string {
	c.IsKnown(rule, "")
	var out []string
	for k := range c.knownKeys {
		if strings.HasPrefix(k, rule+"|") {
			out = append(out, strings.TrimPrefix(k, rule+"|"))
		}
	}
	sort.Strings(out)
	return out
}

func NewCtx(p *Prog, prop, tier string) *Ctx {
	return &Ctx{P: p, Prop: prop, Tier: tier, RuleHits: map[string]int{}, Funcs: map[string]bool{}, Rules: map[string]string{}}
}

// Rule registers a rule with its description (printed in the evidence).
func (c *Ctx) Rule(id, desc string) string {
	id = c.Prop + "." + id
	if _, ok := c.Rules[id]; !ok {
		c.ruleOrder = append(c.ruleOrder, id)
	}
	c.Rules[id] = desc
	return id
}

func (c *Ctx) add(rule, construct, verdict, pos, detail string) {
	c.Obls = append(c.Obls, Obl{Rule: rule, Construct: construct, Verdict: verdict, Pos: pos, Detail: detail})
	c.RuleHits[rule]++
	c.Evaluations++
}

// OK records a discharged obligation.
func (c *Ctx) OK(rule, construct, pos, detail string) {
	c.add(rule, construct, "discharged", pos, detail)
}

// Bad records a violated obligation.
func (c *Ctx) Bad(rule, construct, pos, detail string) {
	c.add(rule, construct, "violated", pos, detail)
}

// Check records OK or Bad depending on cond.
func (c *Ctx) Check(cond bool, rule, construct, pos, okDetail, badDetail string) bool {
	if cond {
		c.OK(rule, construct, pos, okDetail)
	} else {
		c.Bad(rule, construct, pos, badDetail)
	}
	return cond
}

// PathCheck records the result of a path query.
func (c *Ctx) PathCheck(r PathResult, rule, construct, pos, okDetail, badDetail string) bool {
	if r.OK {
		c.OK(rule, construct, pos, okDetail)
		return true
	}
	c.Bad(rule, construct, c.P.InstrPos(r.Offender), badDetail+" (offending point: "+c.P.InstrPos(r.Offender)+" in "+c.P.FuncKey(r.Offender.Parent())+")")
	return false
}

func (c *Ctx) Note(format string, a ...any) { c.Notes = append(c.Notes, fmt.Sprintf(format, a...)) }

// Touch records that a function was analysed.
func (c *Ctx) Touch(fs ...*ssa.Function) {
	for _, f := range fs {
		if f != nil {
			c.Funcs[c.P.FuncKey(f)] = true
		}
	}
}

// Floor makes sure a rule matched at least n constructs; otherwise the rule
// would pass vacuously, which is reported as a violation of the rule itself
// ("mechanism not found").
func (c *Ctx) Floor(rule string, n int, what string) {
	if c.RuleHits[rule] < n {
		c.Bad(rule, "floor:"+what, "", fmt.Sprintf("expected at least %d instance(s) of %s, found %d: the mechanism this rule checks is missing", n, what, c.RuleHits[rule]))
	}
}

// ---------------------------------------------------------------------------
// known findings

type Finding struct {
	Status   string `json:"status"` // known | fixed
	Property string `json:"property"`
	Key      string `json:"key"` // rule|construct
	What     string `json:"what"`
	Commit   string `json:"commit,omitempty"`
	ID       string `json:"id,omitempty"`
}

func LoadFindings(path string) ([]Finding, error) {
	f, err := os.Open(path)
	if err != nil {
		if os.IsNotExist(err) {
			return nil, nil
		}
		return nil, err
	}
	defer f.Close()
	var out []Finding
	sc := bufio.NewScanner(f)
	sc.Buffer(make([]byte, 1<<20), 1<<20)
	for sc.Scan() {
		line := strings.TrimSpace(sc.Text())
		if line == "" || strings.HasPrefix(line, "#") {
			continue
		}
		var fd Finding
		if err := json.Unmarshal([]byte(line), &fd); err != nil {
			return nil, fmt.Errorf("known findings: %v in %q", err, line)
		}
		out = append(out, fd)
	}
	return out, sc.Err()
}

// ---------------------------------------------------------------------------
// finishing: stdout contract + evidence

type Result struct {
	Exit       int
	Violations int
	Known      int
}

// Finish prints the verdict lines, writes replay files and the evidence file.
func (c *Ctx) Finish(verifDir string, seed int, start time.Time, explanation string, assumptions []string) Result {
	findings, err := LoadFindings(filepath.Join(verifDir, "known_findings.jsonl"))
	if err != nil {
		broken("cannot read known findings: %v", err)
	}
	known := map[string]Finding{}
	for _, f := range findings {
		if f.Status == "known" && f.Property == c.Prop {
			known[f.Key] = f
		}
	}
	sort.SliceStable(c.Obls, func(i, j int) bool {
		if c.Obls[i].Rule != c.Obls[j].Rule {
			return c.Obls[i].Rule < c.Obls[j].Rule
		}
		return c.Obls[i].Construct < c.Obls[j].Construct
	})
	replayDir := filepath.Join(verifDir, "evidence", "replay")
	_ = os.MkdirAll(replayDir, 0o755)
	// remove stale replay files of this property
	if ents, err := os.ReadDir(replayDir); err == nil {
		for _, e := range ents {
			if strings.HasPrefix(e.Name(), c.Prop+"-") {
				_ = os.Remove(filepath.Join(replayDir, e.Name()))
			}
		}
	}
	res := Result{}
	discharged := 0
	var knownLines []map[string]string
	seenKnown := map[string]bool{}
	var violSamples []Obl
	for _, o := range c.Obls {
		if o.Verdict == "discharged" {
			discharged++
			continue
		}
		if kf, ok := known[o.Key()]; ok {
			if !seenKnown[o.Key()] {
				seenKnown[o.Key()] = true
				fmt.Printf("KNOWN-FINDING: property=%s %s %s [%s]\n", c.Prop, o.Key(), kf.What, o.Pos)
				knownLines = append(knownLines, map[string]string{"key": o.Key(), "what": kf.What, "pos": o.Pos})
			}
			res.Known++
			continue
		}
		res.Violations++
		violSamples = append(violSamples, o)
		h := sha1.Sum([]byte(o.Key()))
		rp := filepath.Join(replayDir, fmt.Sprintf("%s-%x.json", c.Prop, h[:6]))
		data, _ := json.MarshalIndent(map[string]any{
			"property": c.Prop, "rule": o.Rule, "rule_description": c.Rules[o.Rule], "construct": o.Construct,
			"pos": o.Pos, "detail": o.Detail, "key": o.Key(),
			"replay": "pcverif check " + c.Prop + " --only '" + o.Rule + "'",
		}, "", " ")
		_ = os.WriteFile(rp, data, 0o644)
		fmt.Printf("  violated %s  at %s\n    construct: %s\n    %s\n", o.Rule, o.Pos, o.Construct, o.Detail)
		fmt.Printf("VIOLATION property=%s replay=%s\n", c.Prop, rp)
	}
	// stale known findings are reported informationally (never fatal)
	for k := range known {
		if !seenKnown[k] {
			fmt.Printf("note: known finding %q of %s no longer reported by the analysis (repaired or restructured)\n", k, c.Prop)
		}
	}
	if res.Violations > 0 {
		res.Exit = 1
	}

	// evidence
	distinct := 0
	for _, r := range c.ruleOrder {
		if c.RuleHits[r] > 0 {
			distinct++
		}
	}
	var samples []any
	step := 1
	if len(c.Obls) > 14 {
		step = len(c.Obls) / 14
	}
	for i := 0; i < len(c.Obls); i += step {
		samples = append(samples, c.Obls[i])
	}
	for _, o := range violSamples {
		samples = append(samples, o)
	}
	var rules []map[string]any
	for _, r := range c.ruleOrder {
		rules = append(rules, map[string]any{"rule": r, "description": c.Rules[r], "obligations": c.RuleHits[r]})
	}
	var funcs []string
	for f := range c.Funcs {
		funcs = append(funcs, f)
	}
	sort.Strings(funcs)
	cov := map[string]any{
		"explanation":         explanation,
		"obligations":         len(c.Obls),
		"discharged":          discharged,
		"known_findings":      knownLines,
		"evaluations":         maxInt(c.Evaluations, 1),
		"distinct_nontrivial": distinct,
		"rule":                "one obligation per (rule, construct); a rule instance counts as non-trivial when it matched at least one construct in the current tree",
		"samples":             samples,
		"rules":               rules,
		"functions_analysed":  funcs,
		"packages":            len(c.P.Pkgs),
		"source_functions":    len(c.P.Funcs),
		"checker_cmd":         "bin/pcverif check " + c.Prop + " --tier " + c.Tier,
		"trusted_base":        []string{"go/types", "golang.org/x/tools/go/ssa v0.29.0", "golang.org/x/tools/go/packages", "library models listed in DESIGN.md section 5"},
		"exhaustive":          true,
		"notes":               append(append([]string{}, c.Notes...), c.P.VocabNotes...),
	}
	if len(c.Tables) > 0 {
		cov["decision_tables"] = c.Tables
	}
	for k, v := range c.Extra {
		cov[k] = v
	}
	ev := map[string]any{
		"property_id": c.Prop,
		"tier":        c.Tier,
		"seed":        seed,
		"level":       "other",
		"coverage":    cov,
		"assumptions": assumptions,
		"wall_s":      time.Since(start).Seconds(),
		"violations":  res.Violations,
	}
	data, _ := json.MarshalIndent(ev, "", " ")
	_ = os.MkdirAll(filepath.Join(verifDir, "evidence"), 0o755)
	if err := os.WriteFile(filepath.Join(verifDir, "evidence", c.Prop+".json"), data, 0o644); err != nil {
		broken("cannot write evidence: %v", err)
	}
	fmt.Printf("%s: %d obligations, %d discharged, %d known finding(s), %d violation(s); %d rules, %d functions analysed\n",
		c.Prop, len(c.Obls), discharged, len(knownLines), res.Violations, len(c.ruleOrder), len(funcs))
	return res
}

func maxInt(a, b int) int {
	if a > b {
		return a
	}
	return b
}
