package pcv

import (
	"path/filepath"
	"encoding/json"
	"fmt"
	"os"
	"sort"
	"strings"
	"time"
)

// PropCheck is the rule set of one property.
type PropCheck struct {
	ID          string
	Explanation string
	Assumptions []string
	Run         func(c *Ctx)
}

var registry = map[string]*PropCheck{}

func register(pc *PropCheck) { registry[pc.ID] = pc }

// RunCheck runs all rules of one property and returns the process exit code.
func RunCheck(prop, repo, verif, tier, only string, seed int, start time.Time) int {
	pc := registry[prop]
	if pc == nil {
		var ids []string
		for k := range registry {
			ids = append(ids, k)
		}
		sort.Strings(ids)
		fmt.Printf("CHECK-BROKEN unknown property %q (have %s)\n", prop, strings.Join(ids, " "))
		return 2
	}
	p, err := Load(repo, nil)
	if err != nil {
		fmt.Println("CHECK-BROKEN", err)
		return 2
	}
	c := NewCtx(p, prop, tier)
	c.VerifDir = verif
	pc.Run(c)
	if only != "" {
		var keep []Obl
		for _, o := range c.Obls {
			if strings.HasPrefix(o.Rule, only) {
				keep = append(keep, o)
			}
		}
		c.Obls = keep
	}
	broken := 0
	if tier == "thorough" && only == "" {
		self, _ := os.Executable()
		wr := RunWitnessesOf(self, repo, verif, prop, seed)
		flagged, na, silent, falseAlarms := 0, 0, 0, 0
		baseViol := false
		for _, o := range c.Obls {
			if o.Verdict == "violated" {
				baseViol = true
			}
		}
		for _, r := range wr {
			switch r.Status {
			case "flagged":
				flagged++
			case "silent":
				silent++
			case "false-alarm":
				// on a tree that itself violates the property (also through a listed finding's sibling) the
				// refactored overlay reports that violation too; only a clean tree makes this a checker defect
				falseAlarms++
				if !baseViol {
					broken++
					fmt.Printf("WITNESS-FALSE-ALARM property=%s witness=%d (%s): reported on a behaviour-preserving refactoring: [%s]\n", prop, r.Index, r.Note, r.Reports)
				}
			case "not-applicable", "does-not-compile":
				na++
			default:
				broken++
				fmt.Printf("WITNESS-NOT-FLAGGED property=%s witness=%d (%s): rule %s did not report the seeded break; reported: [%s]\n", prop, r.Index, r.Note, r.Expect, r.Reports)
			}
		}
		c.Extra = map[string]any{
			"mutation_witnesses_total":          len(wr),
			"mutation_witnesses_flagged":        flagged,
			"mutation_witnesses_not_applicable": na,
			"refactoring_witnesses_silent":      silent,
			"refactoring_witnesses_alarmed":     falseAlarms,
			"mutation_witnesses":                wr,
			"tier_note":                         "thorough = all rules of the quick tier + checker self-validation: every mutation witness of this property (an overlay edit that still type-checks) must be reported by its rule, and every behaviour-preserving refactoring witness must be analysed without a new report",
		}
		c.Evaluations += len(wr)
		fmt.Printf("%s: %d witnesses: %d breaking changes flagged, %d refactorings silent, %d not applicable on this tree\n", prop, len(wr), flagged, silent, na)
	}
	res := c.Finish(verif, seed, start, pc.Explanation, pc.Assumptions)
	if res.Exit == 0 && broken > 0 {
		fmt.Printf("CHECK-BROKEN %d mutation witness(es) of %s are no longer detected by the analyzer\n", broken, prop)
		return 2
	}
	return res.Exit
}

// Explain re-runs the rule recorded in a replay file and prints its obligations.
func Explain(path, repo, verif string) int {
	data, err := os.ReadFile(path)
	if err != nil {
		fmt.Println("CHECK-BROKEN cannot read replay file:", err)
		return 2
	}
	var r struct {
		Property string `json:"property"`
		Rule     string `json:"rule"`
		Key      string `json:"key"`
	}
	if err := json.Unmarshal(data, &r); err != nil {
		fmt.Println("CHECK-BROKEN bad replay file:", err)
		return 2
	}
	pc := registry[r.Property]
	if pc == nil {
		fmt.Println("CHECK-BROKEN unknown property in replay file")
		return 2
	}
	p, err := Load(repo, nil)
	if err != nil {
		fmt.Println("CHECK-BROKEN", err)
		return 2
	}
	c := NewCtx(p, r.Property, "quick")
	pc.Run(c)
	fmt.Printf("rule %s: %s\n", r.Rule, c.Rules[r.Rule])
	found := false
	for _, o := range c.Obls {
		if o.Rule != r.Rule {
			continue
		}
		mark := " "
		if o.Key() == r.Key {
			mark = ">"
			found = o.Verdict == "violated"
		}
		fmt.Printf("%s %-10s %s @ %s\n    %s\n", mark, o.Verdict, o.Construct, o.Pos, o.Detail)
	}
	if found {
		fmt.Printf("VIOLATION property=%s replay=%s\n", r.Property, path)
		return 1
	}
	fmt.Println("the recorded obligation is not violated on the current tree")
	return 0
}

// RunAll loads the program once and runs the rules of every property (developer tool for mass experiments: no
// evidence is written). It prints one line per unlisted violation: "<property> <rule>|<construct>".
func RunAll(repo, verif string) int {
	p, err := Load(repo, nil)
	if err != nil {
		fmt.Println("CHECK-BROKEN", err)
		return 2
	}
	findings, _ := LoadFindings(filepath.Join(verif, "known_findings.jsonl"))
	var ids []string
	for k := range registry {
		ids = append(ids, k)
	}
	sort.Strings(ids)
	rc := 0
	for _, prop := range ids {
		pc := registry[prop]
		known := map[string]bool{}
		for _, f := range findings {
			if f.Status == "known" && f.Property == prop {
				known[f.Key] = true
			}
		}
		func() {
			defer func() {
				if r := recover(); r != nil {
					if be, ok := r.(*BrokenError); ok {
						fmt.Printf("%s BROKEN:%s\n", prop, be.Msg)
						rc = 2
						return
					}
					panic(r)
				}
			}()
			c := NewCtx(p, prop, "quick")
			c.VerifDir = verif
			pc.Run(c)
			for _, o := range c.Obls {
				if o.Verdict == "violated" && !known[o.Key()] {
					fmt.Printf("%s %s\n", prop, o.Key())
					if rc == 0 {
						rc = 1
					}
				}
			}
		}()
	}
	return rc
}
