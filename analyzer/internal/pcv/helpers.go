package pcv

import (
	"go/token"
	"go/types"
	"sort"

	"golang.org/x/tools/go/ssa"
)

// DominatedBlocks returns the blocks dominated by b (including b).
func DominatedBlocks(b *ssa.BasicBlock) map[*ssa.BasicBlock]bool {
	out := map[*ssa.BasicBlock]bool{}
	for _, x := range b.Parent().Blocks {
		if b.Dominates(x) || x == b {
			out[x] = true
		}
	}
	return out
}

// EdgeDominates: every path from entry to block x goes through the CFG edge
// (from -> from.Succs[succ]).
func EdgeDominates(from *ssa.BasicBlock, succ int, x *ssa.BasicBlock) bool {
	t := from.Succs[succ]
	// the edge dominates x iff t dominates x and t's only way in is this edge
	// (or all other predecessors of t are dominated by t - back edges).
	if !(t == x || t.Dominates(x)) {
		return false
	}
	for _, pr := range t.Preds {
		if pr == from {
			// from may have both successors equal to t
			if len(from.Succs) == 2 && from.Succs[0] == from.Succs[1] {
				return false
			}
			continue
		}
		if !(t == pr || t.Dominates(pr)) {
			return false
		}
	}
	return true
}

// Guard describes a conditional edge that dominates an instruction.
type Guard struct {
	If   *ssa.If
	Succ int // 0 = condition true
}

// GuardsOf lists the conditional edges that dominate the instruction's block.
func GuardsOf(in ssa.Instruction) []Guard {
	var out []Guard
	f := in.Parent()
	for _, b := range f.Blocks {
		ifi := IfOf(b)
		if ifi == nil {
			continue
		}
		for si := range b.Succs {
			if EdgeDominates(b, si, in.Block()) {
				out = append(out, Guard{ifi, si})
			}
		}
	}
	return out
}

// CondHolds describes what is known on a guard edge about a comparison.
// For guard g with condition "X op Y", Known returns the comparison that holds
// on that edge.
func (g Guard) Cmp() (Cmp, bool) {
	c, ok := CondCmp(g.If.Cond)
	if !ok {
		return Cmp{}, false
	}
	if g.Succ == 1 {
		c.Op = negateOp(c.Op)
	}
	return c, true
}

// BoolVal: for a guard whose condition is a plain boolean value (possibly
// negated), returns that value and the truth value it has on this edge.
func (g Guard) BoolVal() (ssa.Value, bool) {
	v, pos := BoolCond(g.If.Cond)
	if g.Succ == 1 {
		pos = !pos
	}
	return v, pos
}

// StringConstsComparedWith collects, in f, the string constants that values
// ending in field fld are compared with (==), mapping each constant to the If
// instructions and the successor index taken when equal.
type EqCase struct {
	If     *ssa.If
	Succ   int // successor taken when the comparison is "equal"
	Const  string
	Target *ssa.BasicBlock
}

func EqCasesOn(f *ssa.Function, isSubject func(v ssa.Value) bool) []EqCase {
	var out []EqCase
	for _, b := range f.Blocks {
		ifi := IfOf(b)
		if ifi == nil {
			continue
		}
		c, ok := CondCmp(ifi.Cond)
		if !ok || (c.Op != token.EQL && c.Op != token.NEQ) {
			continue
		}
		var cv ssa.Value
		if isSubject(c.X) {
			cv = c.Y
		} else if isSubject(c.Y) {
			cv = c.X
		} else {
			continue
		}
		s, ok := ConstString(cv)
		if !ok {
			continue
		}
		succ := 0
		if c.Op == token.NEQ {
			succ = 1
		}
		out = append(out, EqCase{If: ifi, Succ: succ, Const: s, Target: b.Succs[succ]})
	}
	return out
}

// CaseRegion returns the blocks that belong to the body of a switch case whose
// entry block is target: the blocks dominated by target.
func CaseRegion(target *ssa.BasicBlock) map[*ssa.BasicBlock]bool {
	return DominatedBlocks(target)
}

// ReachWithin explores forward from block start (its first instruction) but
// only inside the region; it returns the visited instructions and whether a
// path left the region (exited) without being stopped.
func ReachWithin(start *ssa.BasicBlock, region map[*ssa.BasicBlock]bool, stop func(in ssa.Instruction) bool) (map[ssa.Instruction]bool, bool) {
	visited := map[ssa.Instruction]bool{}
	seen := map[*ssa.BasicBlock]bool{}
	left := false
	work := []*ssa.BasicBlock{start}
	for len(work) > 0 {
		b := work[len(work)-1]
		work = work[:len(work)-1]
		if seen[b] {
			continue
		}
		seen[b] = true
		stopped := false
		for _, in := range b.Instrs {
			visited[in] = true
			if stop != nil && stop(in) {
				stopped = true
				break
			}
			if isNoReturn(in) {
				stopped = true
				break
			}
			if _, ok := in.(*ssa.Return); ok {
				left = true
			}
		}
		if stopped {
			continue
		}
		for _, s := range b.Succs {
			if !region[s] {
				left = true
				continue
			}
			work = append(work, s)
		}
	}
	return visited, left
}

// ReceiverOf returns the receiver value of a method call.
func ReceiverOf(c *ssa.CallCommon) ssa.Value {
	if c.IsInvoke() {
		return c.Value
	}
	if sc := c.StaticCallee(); sc != nil && sc.Signature.Recv() != nil && len(c.Args) > 0 {
		return c.Args[0]
	}
	if len(c.Args) > 0 {
		if o := CalleeObj(c); o != nil && o.Type().(*types.Signature).Recv() != nil {
			return c.Args[0]
		}
	}
	return nil
}

// ArgsOf returns the non-receiver arguments of a call.
func ArgsOf(c *ssa.CallCommon) []ssa.Value {
	if c.IsInvoke() {
		return c.Args
	}
	if o := CalleeObj(c); o != nil && o.Type().(*types.Signature).Recv() != nil && len(c.Args) > 0 {
		return c.Args[1:]
	}
	if sc := c.StaticCallee(); sc != nil && sc.Signature.Recv() != nil && len(c.Args) > 0 {
		return c.Args[1:]
	}
	return c.Args
}

// SameValue: a and b denote the same value modulo loads of the same local cell
// and trivial conversions.
func SameValue(a, b ssa.Value) bool {
	a, b = stripConv(a), stripConv(b)
	if a == b {
		return true
	}
	ua, ok1 := a.(*ssa.UnOp)
	ub, ok2 := b.(*ssa.UnOp)
	if ok1 && ok2 && ua.Op == token.MUL && ub.Op == token.MUL && ua.X == ub.X {
		return true
	}
	return false
}

func stripConv(v ssa.Value) ssa.Value {
	for {
		switch x := v.(type) {
		case *ssa.ChangeType:
			v = x.X
		case *ssa.Convert:
			v = x.X
		default:
			return v
		}
	}
}

// IsRecvFrom reports whether `in` is a blocking receive (plain receive or a
// select without default) on a channel for which isChan holds; for selects all
// receive states are examined and the indices of matching states returned.
func IsRecvFrom(in ssa.Instruction, isChan func(ch ssa.Value) bool) bool {
	switch x := in.(type) {
	case *ssa.UnOp:
		return x.Op == token.ARROW && isChan(x.X)
	case *ssa.Select:
		if !x.Blocking {
			return false
		}
		for _, st := range x.States {
			if st.Dir == types.RecvOnly && isChan(st.Chan) {
				return true
			}
		}
	}
	return false
}

// CtxDoneOf: ch is the result of calling Done() on a context value loaded from field.
func CtxDoneOf(ch ssa.Value, field *types.Var) bool {
	c, ok := ch.(*ssa.Call)
	if !ok {
		return false
	}
	if !c.Call.IsInvoke() || c.Call.Method.Name() != "Done" {
		return false
	}
	return PathOf(c.Call.Value).LastField() == field
}

// SortedKeys returns the sorted keys of a string-keyed map.
func SortedKeys[V any](m map[string]V) []string {
	var ks []string
	for k := range m {
		ks = append(ks, k)
	}
	sort.Strings(ks)
	return ks
}

// FirstInstr returns the first instruction of the function (for positions).
func FirstPos(p *Prog, f *ssa.Function) string {
	if f == nil {
		return "?"
	}
	return p.Pos(f.Pos())
}

// ErrNilEdge builds an edge filter for a call whose (last) result is an error
// that is subsequently tested against nil: when wantNil is true the edges on
// which the error is non-nil are blocked, and vice versa. Conditions that do
// not test this call's error are left open.
func ErrNilEdge(call *ssa.Call, wantNil bool) EdgeFilter {
	return NilEdgeOf(errValueMatcher(call), wantNil)
}

// NilEdgeOf is ErrNilEdge for an arbitrary value (for instance an error parameter).
func NilEdgeOf(isErrVal func(v ssa.Value) bool, wantNil bool) EdgeFilter {
	return func(from *ssa.BasicBlock, succ int) bool {
		ifi := IfOf(from)
		if ifi == nil {
			return true
		}
		c, ok := CondCmp(ifi.Cond)
		if !ok || (c.Op != token.EQL && c.Op != token.NEQ) {
			return true
		}
		var other ssa.Value
		if isErrVal(c.X) {
			other = c.Y
		} else if isErrVal(c.Y) {
			other = c.X
		} else {
			return true
		}
		if !IsNilConst(other) {
			return true
		}
		// on succ 0 the condition holds
		isNilOnEdge := (c.Op == token.EQL) == (succ == 0)
		return isNilOnEdge == wantNil
	}
}

// errValueMatcher recognises values that carry the error result of the call:
// the call itself (single result), the Extract of its last result, or a load
// of a local cell into which that result was stored.
func errValueMatcher(call *ssa.Call) func(v ssa.Value) bool {
	var direct func(v ssa.Value) bool
	direct = func(v ssa.Value) bool {
		v = stripConv(v)
		if v == ssa.Value(call) {
			return true
		}
		if ex, ok := v.(*ssa.Extract); ok && ex.Tuple == ssa.Value(call) {
			return true
		}
		if ph, ok := v.(*ssa.Phi); ok {
			for _, e := range ph.Edges {
				if _, isPhi := e.(*ssa.Phi); isPhi {
					continue
				}
				if direct(e) {
					return true
				}
			}
		}
		return false
	}
	// cells the result is stored to
	cells := map[ssa.Value]bool{}
	AllInstrs(call.Parent(), func(in ssa.Instruction) {
		if st, ok := in.(*ssa.Store); ok && direct(st.Val) {
			cells[st.Addr] = true
		}
	})
	return func(v ssa.Value) bool {
		if direct(v) {
			return true
		}
		if u, ok := stripConv(v).(*ssa.UnOp); ok && u.Op == token.MUL && cells[u.X] {
			return true
		}
		return false
	}
}

// NatLoop is a natural loop found through a back edge.
type NatLoop struct {
	Header *ssa.BasicBlock
	Blocks map[*ssa.BasicBlock]bool
}

// NaturalLoops finds the natural loops of f (one per header).
func NaturalLoops(f *ssa.Function) []NatLoop {
	byHeader := map[*ssa.BasicBlock]map[*ssa.BasicBlock]bool{}
	for _, b := range f.Blocks {
		for _, s := range b.Succs {
			if s == b || s.Dominates(b) {
				// back edge b -> s
				body := byHeader[s]
				if body == nil {
					body = map[*ssa.BasicBlock]bool{s: true}
					byHeader[s] = body
				}
				// walk predecessors from b until the header
				work := []*ssa.BasicBlock{b}
				for len(work) > 0 {
					x := work[len(work)-1]
					work = work[:len(work)-1]
					if body[x] {
						continue
					}
					body[x] = true
					work = append(work, x.Preds...)
				}
			}
		}
	}
	var out []NatLoop
	for _, b := range f.Blocks {
		if body, ok := byHeader[b]; ok {
			out = append(out, NatLoop{Header: b, Blocks: body})
		}
	}
	return out
}

// InnermostLoopOf returns the smallest natural loop containing the instruction.
func InnermostLoopOf(in ssa.Instruction) *NatLoop {
	var best *NatLoop
	loops := NaturalLoops(in.Parent())
	for i := range loops {
		l := &loops[i]
		if l.Blocks[in.Block()] && (best == nil || len(l.Blocks) < len(best.Blocks)) {
			best = l
		}
	}
	return best
}

// EveryIterationPasses: every path from the loop header back to the header
// (one full iteration) passes an instruction for which pred holds.
func (l *NatLoop) EveryIterationPasses(pred func(in ssa.Instruction) bool) bool {
	// start after the header's last instruction into successors inside the loop
	var starts []Pt
	hdrOK := false
	for _, in := range l.Header.Instrs {
		if pred(in) {
			hdrOK = true
		}
	}
	if hdrOK {
		return true
	}
	for _, s := range l.Header.Succs {
		if l.Blocks[s] {
			starts = append(starts, Pt{s, 0})
		}
	}
	first := l.Header.Instrs[0]
	vis := Reach(starts, func(in ssa.Instruction) bool { return pred(in) || in == first }, nil)
	return !vis[first] || pred(first)
}

// RetVals returns the values a Return instruction returns. In functions with defer statements go/ssa spills the
// results into local cells ("*r = v; rundefers; t = *r; return t"): such a result is resolved to the value stored
// into the cell last in the returning block.
func RetVals(ret *ssa.Return) []ssa.Value {
	out := make([]ssa.Value, len(ret.Results))
	for i, r := range ret.Results {
		out[i] = r
		u, ok := r.(*ssa.UnOp)
		if !ok || u.Op != token.MUL {
			continue
		}
		al, ok := u.X.(*ssa.Alloc)
		if !ok || al.Heap {
			continue
		}
		b := ret.Block()
		for j := len(b.Instrs) - 1; j >= 0; j-- {
			if st, isSt := b.Instrs[j].(*ssa.Store); isSt && st.Addr == ssa.Value(al) {
				out[i] = st.Val
				break
			}
		}
	}
	return out
}

// EarlyLoopExits lists the places where a loop of f is left other than through its header (break, goto, and -
// unless allowReturn - return). Used for iterations that must examine every element of a collection.
func EarlyLoopExits(p *Prog, f *ssa.Function, allowReturn bool) []string {
	var out []string
	for _, lp := range NaturalLoops(f) {
		// the regular exits: successors of the header outside the loop
		regular := map[*ssa.BasicBlock]bool{}
		for _, sc := range lp.Header.Succs {
			if !lp.Blocks[sc] {
				regular[sc] = true
			}
		}
		if len(regular) == 0 {
			continue // for { ... }: leaving it is its normal end
		}
		reachesRegular := func(from *ssa.BasicBlock) bool {
			seen := map[*ssa.BasicBlock]bool{}
			work := []*ssa.BasicBlock{from}
			for len(work) > 0 {
				b := work[len(work)-1]
				work = work[:len(work)-1]
				if seen[b] {
					continue
				}
				seen[b] = true
				if regular[b] {
					return true
				}
				work = append(work, b.Succs...)
			}
			return false
		}
		for b := range lp.Blocks {
			if b == lp.Header {
				continue
			}
			for _, sc := range b.Succs {
				if lp.Blocks[sc] {
					continue
				}
				// a return out of the loop does not rejoin the code after the loop
				if allowReturn && !reachesRegular(sc) {
					continue
				}
				out = append(out, posOfBlock(p, b))
			}
		}
	}
	sort.Strings(out)
	return out
}

func posOfBlock(p *Prog, b *ssa.BasicBlock) string {
	for i := len(b.Instrs) - 1; i >= 0; i-- {
		if b.Instrs[i].Pos().IsValid() {
			return p.Pos(b.Instrs[i].Pos())
		}
	}
	return p.FuncKey(b.Parent())
}
