package pcv

import (
	"encoding/json"
	"fmt"
	"os"
	"os/exec"
	"path/filepath"
	"regexp"
	"sort"
	"strings"
	"sync"
)

// Witness is one mutation witness of the checker's self-validation: an edit of
// the repository's source that still type-checks and must make the named rule
// report a violation. The edit is applied through a go/packages overlay; the
// mutated program is analysed, never executed.
type Witness struct {
	Property string `json:"property"`
	File     string `json:"file"`
	Find     string `json:"find,omitempty"`
	Replace  string `json:"replace,omitempty"`
	Edits    []struct {
		Find    string `json:"find"`
		Replace string `json:"replace"`
	} `json:"edits,omitempty"`
	Expect string `json:"expect"`
	Note   string `json:"note"`
	// Patch names a unified diff (relative to the verification directory) that
	// is applied instead of the regexp edits: a seeded breaking change kept
	// under seeded/. Expect may be empty: any violation of the property counts.
	Patch string `json:"patch,omitempty"`
	// Silent marks a behaviour-preserving refactoring (property "*": applies to every property): the check must
	// report nothing new on it. A report is a false alarm of the checker.
	Silent bool `json:"silent,omitempty"`
}

func LoadWitnesses(verif string) ([]Witness, error) {
	data, err := os.ReadFile(filepath.Join(verif, "witnesses", "witnesses.json"))
	if err != nil {
		return nil, err
	}
	var ws []Witness
	if err := json.Unmarshal(data, &ws); err != nil {
		return nil, err
	}
	return ws, nil
}

// WitnessResult: applied / compiled / flagged.
type WitnessResult struct {
	Index   int    `json:"index"`
	Note    string `json:"note"`
	Expect  string `json:"expect"`
	Status  string `json:"status"` // flagged | not-flagged | silent | false-alarm | not-applicable | does-not-compile
	Reports string `json:"reports,omitempty"`
}

// RunWitness applies witness idx and runs the property's rules on the overlay.
func RunWitness(repo, verif string, idx int, prop string) WitnessResult {
	ws, err := LoadWitnesses(verif)
	if err != nil || idx < 0 || idx >= len(ws) {
		return WitnessResult{Index: idx, Status: "not-applicable", Reports: "cannot load witness"}
	}
	w := ws[idx]
	if w.Property == "*" {
		w.Property = prop
	}
	res := WitnessResult{Index: idx, Note: w.Note, Expect: w.Expect}
	if w.Patch != "" {
		return runPatchWitness(repo, verif, idx, w)
	}
	path := filepath.Join(repo, w.File)
	src, err := os.ReadFile(path)
	if err != nil {
		res.Status = "not-applicable"
		return res
	}
	edits := w.Edits
	if w.Find != "" {
		edits = append(edits, struct {
			Find    string `json:"find"`
			Replace string `json:"replace"`
		}{w.Find, w.Replace})
	}
	out := string(src)
	for _, e := range edits {
		re, err := regexp.Compile(e.Find)
		if err != nil {
			res.Status = "not-applicable"
			res.Reports = "bad regexp: " + err.Error()
			return res
		}
		loc := re.FindStringSubmatchIndex(out)
		if loc == nil {
			res.Status = "not-applicable"
			res.Reports = "pattern does not occur in " + w.File + " (the source was restructured)"
			return res
		}
		var dst []byte
		dst = re.ExpandString(dst, e.Replace, out, loc)
		out = out[:loc[0]] + string(dst) + out[loc[1]:]
	}
	p, err := Load(repo, map[string][]byte{path: []byte(out)})
	if err != nil {
		res.Status = "does-not-compile"
		res.Reports = err.Error()
		return res
	}
	pc := registry[w.Property]
	if pc == nil {
		res.Status = "not-applicable"
		return res
	}
	var viol []string
	func() {
		defer func() {
			if r := recover(); r != nil {
				if be, ok := r.(*BrokenError); ok {
					viol = append(viol, "BROKEN:"+be.Msg)
					return
				}
				panic(r)
			}
		}()
		c := NewCtx(p, w.Property, "quick")
		pc.Run(c)
		for _, o := range c.Obls {
			if o.Verdict == "violated" {
				viol = append(viol, o.Rule)
			}
		}
	}()
	sort.Strings(viol)
	res.Reports = strings.Join(viol, ",")
	res.Status = "not-flagged"
	for _, v := range viol {
		if strings.HasSuffix(v, "."+w.Expect) {
			res.Status = "flagged"
		}
	}
	return res
}

func runPatchWitness(repo, verif string, idx int, w Witness) WitnessResult {
	res := WitnessResult{Index: idx, Note: w.Note, Expect: w.Expect}
	diff, err := os.ReadFile(filepath.Join(verif, w.Patch))
	if err != nil {
		res.Status = "not-applicable"
		res.Reports = err.Error()
		return res
	}
	overlay, err := ApplyUnifiedDiff(repo, string(diff))
	if err != nil {
		res.Status = "not-applicable"
		res.Reports = "patch does not apply to this tree: " + err.Error()
		return res
	}
	p, err := Load(repo, overlay)
	if err != nil {
		res.Status = "does-not-compile"
		res.Reports = err.Error()
		return res
	}
	pc := registry[w.Property]
	if pc == nil {
		res.Status = "not-applicable"
		return res
	}
	var viol []string
	func() {
		defer func() {
			if r := recover(); r != nil {
				if be, ok := r.(*BrokenError); ok {
					viol = append(viol, "BROKEN:"+be.Msg)
					return
				}
				panic(r)
			}
		}()
		c := NewCtx(p, w.Property, "quick")
		c.VerifDir = verif
		pc.Run(c)
		known := map[string]bool{}
		if fs, err := LoadFindings(filepath.Join(verif, "known_findings.jsonl")); err == nil {
			for _, f := range fs {
				if f.Status == "known" && f.Property == w.Property {
					known[f.Key] = true
				}
			}
		}
		for _, o := range c.Obls {
			if o.Verdict == "violated" && !known[o.Key()] {
				if w.Silent {
					viol = append(viol, o.Rule+"|"+o.Construct)
				} else {
					viol = append(viol, o.Rule)
				}
			}
		}
	}()
	sort.Strings(viol)
	res.Reports = strings.Join(viol, ",")
	if w.Silent {
		res.Status = "silent"
		if len(viol) > 0 {
			res.Status = "false-alarm"
		}
		return res
	}
	res.Status = "not-flagged"
	for _, v := range viol {
		if w.Expect == "" || strings.HasSuffix(v, "."+w.Expect) {
			res.Status = "flagged"
		}
	}
	return res
}

// RunWitnessesOf runs all witnesses of a property as sub-processes (bounded
// parallelism keeps the memory of the type-checked programs bounded).
func RunWitnessesOf(self, repo, verif, prop string, seed int) []WitnessResult {
	ws, err := LoadWitnesses(verif)
	if err != nil {
		return nil
	}
	var idxs []int
	for i, w := range ws {
		if w.Property == prop || w.Property == "*" {
			idxs = append(idxs, i)
		}
	}
	// the seed rotates the order (the set is always complete)
	if len(idxs) > 0 && seed > 0 {
		k := seed % len(idxs)
		idxs = append(idxs[k:], idxs[:k]...)
	}
	results := make([]WitnessResult, len(idxs))
	sem := make(chan struct{}, 12)
	var wg sync.WaitGroup
	for n, i := range idxs {
		wg.Add(1)
		go func(n, i int) {
			defer wg.Done()
			sem <- struct{}{}
			defer func() { <-sem }()
			cmd := exec.Command(self, "witness", "--repo", repo, "--verif", verif, fmt.Sprint(i), prop)
			out, err := cmd.Output()
			var r WitnessResult
			if jerr := json.Unmarshal(out, &r); jerr != nil {
				r = WitnessResult{Index: i, Status: "not-applicable", Reports: fmt.Sprintf("witness run failed: %v %v", err, jerr)}
			}
			results[n] = r
		}(n, i)
	}
	wg.Wait()
	return results
}
