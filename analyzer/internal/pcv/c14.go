package pcv

import (
	"fmt"
	"go/types"
	"sort"
	"strings"

	"golang.org/x/tools/go/ssa"
)

func init() {
	register(&PropCheck{
		ID: "C14",
		Explanation: "Live update, structural part: (1) every field of ProcessConfig that the launch slice reads (functions of Process reachable from the run entry, the stop core and the constructor) is compared by the configuration comparison on both operands, except the named derived fields; " +
			"(2) no compared field has a static type containing interface{} (the update arrives through JSON, where numbers in `any` become float64, so such a field never compares equal after the transport); " +
			"(3) the classification of the update operation: a name only in the new project is added, a name only in the current one is removed, a name in both is updated iff the comparison reports a difference, and the status constants written per class are added/removed/updated/error; " +
			"(4) replacing a process removes (stops without restart, awaits) the old instance before adding and running the new configuration.",
		Assumptions: []string{"which OS processes were kept or restarted is a runtime fact and not decided"},
		Run:         runC14,
	})
}

func runC14(c *Ctx) {
	p := c.P
	s := p.Selectors()
	{
		roots := p.reachableFrom(s.apiMethod("UpdateProject"), s.apiMethod("UpdateProcess"), s.apiMethod("ReloadProject"))
		s.checkErrorsNotSwallowed(c, "errors-not-swallowed", func(f *ssa.Function) bool { return roots[f] && inPkgs("app", "loader")(f) }, "a failed update would be reported as applied")
	}

	// the comparison: method of *ProcessConfig with a *ProcessConfig parameter returning bool
	var cmpFns []*ssa.Function
	for _, f := range p.FuncsOfPkg("types") {
		if !recvIs(f, s.ProcConf) || f.Parent() != nil {
			continue
		}
		sig := f.Signature
		if sig.Params().Len() == 1 && isPtrTo(sig.Params().At(0).Type(), s.ProcConf) && sig.Results().Len() == 1 && types.Identical(sig.Results().At(0).Type(), types.Typ[types.Bool]) {
			cmpFns = append(cmpFns, f)
		}
	}
	// several candidates (helper predicates on two configurations): the comparison is the one that reads the most
	// fields of both operands
	if len(cmpFns) > 1 {
		best, bestN := cmpFns[0], -1
		for _, f := range cmpFns {
			n := 0
			AllInstrs(f, func(in ssa.Instruction) {
				if _, ok := in.(*ssa.FieldAddr); ok {
					n++
				}
			})
			if n > bestN {
				best, bestN = f, n
			}
		}
		cmpFns = []*ssa.Function{best}
	}
	requireN("CfgCompare", cmpFns, 1, 1)
	cmp := cmpFns[0]
	c.Touch(cmp)

	// fields compared on both operands
	onRecv, onOther := map[*types.Var]bool{}, map[*types.Var]bool{}
	AllInstrs(cmp, func(in ssa.Instruction) {
		fa, ok := in.(*ssa.FieldAddr)
		if !ok {
			return
		}
		st := derefStruct(fa.X.Type())
		if st == nil {
			return
		}
		switch fa.X {
		case ssa.Value(cmp.Params[0]):
			onRecv[st.Field(fa.Field)] = true
		case ssa.Value(cmp.Params[1]):
			onOther[st.Field(fa.Field)] = true
		}
	})
	compared := map[*types.Var]bool{}
	for f := range onRecv {
		if onOther[f] {
			compared[f] = true
		}
	}

	// ------------------------------------------------------------------ (1)
	r1 := c.Rule("compare-covers-launch-fields", "every field of ProcessConfig loaded by a Process method (the launch slice: run entry, starter, stop core, probes set-up, environment, logging) is read on both operands of the configuration comparison; exempt: ReplicaName (map key), ReplicaNum (function of name and Replicas), OriginalConfig (snapshot of the others)")
	exempt := map[string]string{"ReplicaName": "map key of the comparison", "ReplicaNum": "function of ReplicaName and Replicas", "OriginalConfig": "derived snapshot"}
	read := map[*types.Var][]string{}
	for _, f := range p.FuncsOfPkg("app") {
		if !s.IsProcessMethod(f) {
			continue
		}
		AllInstrs(f, func(in ssa.Instruction) {
			fa, ok := in.(*ssa.FieldAddr)
			if !ok {
				return
			}
			st := derefStruct(fa.X.Type())
			if st == nil {
				return
			}
			if nt, ok := deref(fa.X.Type()).(*types.Named); !ok || nt.Obj() != s.ProcConf.Obj() {
				return
			}
			// reads only (the address is loaded, not stored to)
			isRead := false
			for _, ref := range *fa.Referrers() {
				switch r := ref.(type) {
				case *ssa.UnOp:
					isRead = true
				case *ssa.FieldAddr, *ssa.IndexAddr:
					isRead = true
				case *ssa.Store:
					if r.Addr != ssa.Value(fa) {
						isRead = true
					}
				default:
					isRead = true
				}
			}
			if isRead {
				fld := st.Field(fa.Field)
				read[fld] = append(read[fld], p.FuncKey(f))
			}
		})
	}
	var names []string
	byName := map[string]*types.Var{}
	for f := range read {
		names = append(names, f.Name())
		byName[f.Name()] = f
	}
	sort.Strings(names)
	for _, n := range names {
		f := byName[n]
		if why, ok := exempt[n]; ok {
			c.Note("field %s exempt: %s", n, why)
			continue
		}
		users := read[f]
		sort.Strings(users)
		c.Check(compared[f], r1, "field:"+n, FirstPos(p, cmp), "compared on both operands", "ProcessConfig."+n+" is read by the launch slice ("+users[0]+") but not compared: an update that changes only this field is reported 'up to date' and the old instance keeps running")
	}
	c.Floor(r1, 15, "launch-slice fields")
	// derived launch fields assigned from compared ones
	for _, n := range []string{"Executable", "Args", "Entrypoint"} {
		if f := p.TryField("types", "ProcessConfig", n); f != nil {
			if _, isRead := read[f]; !isRead {
				c.Check(compared[f], r1, "field:"+n, FirstPos(p, cmp), "compared on both operands", "ProcessConfig."+n+" determines the launched command but is not compared")
			}
		}
	}

	// a "true" result is reached only after every compared field was examined
	{
		rAll := c.Rule("compare-no-shortcut", "every return of the constant true in the configuration comparison is reached only after, on every path, each compared field was loaded from both operands (no fast path that declares two configurations equal on partial evidence)")
		var trueRets []ssa.Instruction
		for _, ret := range returnsOf(cmp) {
			if b, ok := ConstBool(RetVals(ret)[0]); ok && b {
				trueRets = append(trueRets, ret)
			}
			// phi of constants
			if ph, ok := RetVals(ret)[0].(*ssa.Phi); ok {
				for _, e := range ph.Edges {
					if b, okb := ConstBool(e); okb && b {
						trueRets = append(trueRets, ret)
					}
				}
			}
		}
		okAll := len(trueRets) > 0
		var miss string
		for f := range compared {
			for _, prm := range []int{0, 1} {
				ld := p.Deep(Site{Name: "load", Instr: func(in ssa.Instruction) bool {
					fa, ok := in.(*ssa.FieldAddr)
					if !ok || fa.X != ssa.Value(cmp.Params[prm]) {
						return false
					}
					st := derefStruct(fa.X.Type())
					return st != nil && st.Field(fa.Field) == f
				}})
				r := MustPrecede(cmp, ld, func(in ssa.Instruction) bool { return isOneOf(in, trueRets) }, nil)
				if !r.OK {
					okAll = false
					miss = f.Name()
				}
			}
		}
		c.Check(okAll, rAll, p.FuncKey(cmp), FirstPos(p, cmp), "true is returned only after all compared fields were examined", "the comparison can return true without having examined every compared field (e.g. "+miss+"): a changed configuration is judged 'up to date' and the old instance keeps running")
	}

	// ------------------------------------------------------------------ (2)
	r2 := c.Rule("compare-transport-stable", "no field compared by == or reflect.DeepEqual has a static type containing an interface type, unless both operands are normalised first")
	var cn []string
	cb := map[string]*types.Var{}
	for f := range compared {
		cn = append(cn, f.Name())
		cb[f.Name()] = f
	}
	sort.Strings(cn)
	for _, n := range cn {
		f := cb[n]
		c.Check(!containsInterface(f.Type(), map[types.Type]bool{}), r2, "field:"+n, FirstPos(p, cmp), "type is transport stable",
			"ProcessConfig."+n+" has a static type containing interface{} and is compared with DeepEqual: after the JSON hop of a remote update numeric values are float64 (e.g. PC_REPLICA_NUM stored as int by the templater), so the field never compares equal and every process is restarted by `project update`")
	}

	// ------------------------------------------------------------------ (3)
	r3 := c.Rule("classification", "in the update operation: the iteration over the new project inserts into the 'new' set exactly on the not-found edge of the lookup in the current project and into the 'updated' set exactly on the found edge when the comparison is false; the iteration over the current project inserts into the 'removed' set exactly on the not-found edge of the lookup in the new project; the loops over the three sets call remove / add-and-run / update-process and write the status constants removed / added / updated (error on failure)")
	upd := s.apiMethod("UpdateProject")
	c.Touch(upd)
	stConst := func(n string) string { v, _ := constString(p.Const("types", n)); return v }
	added, removed, updated, errored := stConst("ProcessUpdateAdded"), stConst("ProcessUpdateRemoved"), stConst("ProcessUpdateUpdated"), stConst("ProcessUpdateError")
	// lookups with comma-ok
	type lkInfo struct {
		ifi      *ssa.If
		found    int
		inOuter  bool // lookup in the runner's (current) project
		lk       *ssa.Lookup
	}
	var lks []lkInfo
	// the classification is made in the update operation itself or in a helper it calls and whose results it uses
	diffFn := upd
	var diffCall *ssa.Call
	hasLookups := func(f *ssa.Function) bool {
		n := 0
		AllInstrs(f, func(in ssa.Instruction) {
			if lk, ok := in.(*ssa.Lookup); ok && lk.CommaOk && PathOf(lk.X).LastField() == s.FProcesses {
				n++
			}
		})
		return n >= 2
	}
	if !hasLookups(upd) {
		AllInstrs(upd, func(in ssa.Instruction) {
			if call, ok := in.(*ssa.Call); ok && diffCall == nil {
				if sc := call.Call.StaticCallee(); sc != nil && len(sc.Blocks) > 0 && pkgOfFunc(sc) != nil && pkgOfFunc(sc).Name() == "app" && hasLookups(sc) {
					diffFn, diffCall = sc, call
				}
			}
		})
	}
	c.Touch(diffFn)
	// toUpd maps a set built in the helper to the value the update operation receives for it
	toUpd := func(v ssa.Value) ssa.Value {
		if diffCall == nil || v == nil {
			return v
		}
		var out ssa.Value
		AllInstrs(diffFn, func(in ssa.Instruction) {
			ret, ok := in.(*ssa.Return)
			if !ok {
				return
			}
			for i, r := range ret.Results {
				if stripConv(r) != stripConv(v) {
					continue
				}
				if len(ret.Results) == 1 {
					out = diffCall
					continue
				}
				for _, ref := range *diffCall.Referrers() {
					if ex, ok := ref.(*ssa.Extract); ok && ex.Index == i {
						out = ex
					}
				}
			}
		})
		return out
	}
	for _, b := range diffFn.Blocks {
		ifi := IfOf(b)
		if ifi == nil {
			continue
		}
		v, pos := BoolCond(ifi.Cond)
		ex, ok := v.(*ssa.Extract)
		if !ok || ex.Index != 1 {
			continue
		}
		lk, ok := ex.Tuple.(*ssa.Lookup)
		if !ok || !lk.CommaOk || PathOf(lk.X).LastField() != s.FProcesses {
			continue
		}
		found := 0
		if !pos {
			found = 1
		}
		lks = append(lks, lkInfo{ifi, found, PathOf(lk.X).HasField(s.FProject), lk})
	}
	if ex := EarlyLoopExits(p, diffFn, true); diffFn != upd || true {
		// only the loops of the classification (the action loops legitimately continue after an error)
		var exScan []string
		for _, lp := range NaturalLoops(diffFn) {
			scans := false
			for b := range lp.Blocks {
				for _, in := range b.Instrs {
					if lk, ok := in.(*ssa.Lookup); ok && lk.CommaOk && PathOf(lk.X).LastField() == s.FProcesses {
						scans = true
					}
				}
			}
			if !scans {
				continue
			}
			for b := range lp.Blocks {
				if b == lp.Header {
					continue
				}
				for _, sc := range b.Succs {
					if !lp.Blocks[sc] {
						exScan = append(exScan, posOfBlock(p, b))
					}
				}
			}
		}
		_ = ex
		c.Check(len(exScan) == 0, r3, "scans-exhaustive", FirstPos(p, diffFn), "both scans examine every process", "a scan of the update is left early ("+strings.Join(exScan, ", ")+"), e.g. at the first unchanged process: the processes after it are neither added, updated nor removed")
	}
	c.Check(len(lks) == 2, r3, "lookups", FirstPos(p, upd), "two membership tests", fmt.Sprintf("expected one membership test in each direction, found %d", len(lks)))
	// both scans run unconditionally: every path from the entry to a return passes both iterations
	for _, dir := range []struct {
		name  string
		outer bool // iterating the runner's current project
	}{{"scan-of-new-project", false}, {"scan-of-current-project", true}} {
		isScan := func(in ssa.Instruction) bool {
			rg, ok := in.(*ssa.Range)
			if !ok || PathOf(rg.X).LastField() != s.FProcesses {
				return false
			}
			return PathOf(rg.X).HasField(s.FProject) == dir.outer
		}
		vis := Reach(Entry(diffFn), isScan, nil)
		bad := false
		for in := range vis {
			if _, isRet := in.(*ssa.Return); isRet {
				bad = true
			}
		}
		if diffCall != nil {
			for in := range Reach(Entry(upd), func(in ssa.Instruction) bool { return in == ssa.Instruction(diffCall) }, nil) {
				if _, isRet := in.(*ssa.Return); isRet {
					bad = true
				}
			}
		}
		c.Check(!bad, r3, dir.name+":unconditional", FirstPos(p, upd), "the scan is performed on every path", "the "+dir.name+" is skipped under some condition (e.g. only when the process count shrinks): a process replaced by a differently named one is never terminated and stays listed")
	}
	isMapInsert := func(in ssa.Instruction) (*ssa.MapUpdate, bool) {
		mu, ok := in.(*ssa.MapUpdate)
		if !ok {
			return nil, false
		}
		if _, isLocal := stripConv(mu.Map).(*ssa.MakeMap); isLocal {
			return mu, true
		}
		return nil, false
	}
	var newSet, updSet, delSet ssa.Value
	for _, lk := range lks {
		b := lk.ifi.Block()
		notFound := b.Succs[1-lk.found]
		foundB := b.Succs[lk.found]
		if lk.inOuter {
			// iterating the NEW project, looking up in the current one
			nfIns := insertsIn(notFound, lk.ifi, isMapInsert)
			if c.Check(len(nfIns) == 1, r3, "new:on-not-found", p.InstrPos(lk.ifi), "exactly one set receives the process on the not-found edge", "a process that exists only in the new project is not recorded as new (exactly once)") {
				newSet = nfIns[0].Map
			}
			// found edge: Compare call and its false edge
			var cmpCall *ssa.Call
			vis := Reach([]Pt{{foundB, 0}}, func(in ssa.Instruction) bool { return in == ssa.Instruction(lk.ifi) }, nil)
			for in := range vis {
				if call, ok := in.(*ssa.Call); ok && call.Call.StaticCallee() == cmp {
					cmpCall = call
				}
			}
			if !c.Check(cmpCall != nil, r3, "updated:compare-called", p.InstrPos(lk.ifi), "the comparison is consulted for processes present in both", "processes present in both projects are not compared") {
				continue
			}
			te, fe := boolResultEdges(cmpCall)
			okEq, okNe := len(te) > 0, len(fe) > 0
			for _, g := range te {
				ins := insertsIn(g.If.Block().Succs[g.Succ], lk.ifi, isMapInsert)
				if len(ins) != 0 {
					okEq = false
				}
			}
			for _, g := range fe {
				ins := insertsIn(g.If.Block().Succs[g.Succ], lk.ifi, isMapInsert)
				if len(ins) != 1 {
					okNe = false
				} else {
					updSet = ins[0].Map
				}
			}
			c.Check(okEq, r3, "equal:no-action", p.InstrPos(cmpCall), "an unchanged process is put in no set", "a process whose configuration compares equal is still scheduled for a change (its running instance would be disturbed)")
			// "no action" is decided by the comparison alone: no path from the found edge reaches the next
			// iteration without an insertion unless it went through the comparison
			{
				stop := func(in ssa.Instruction) bool {
					if in == ssa.Instruction(cmpCall) {
						return true
					}
					_, isIns := isMapInsert(in)
					return isIns
				}
				short := false
				hdr := lk.ifi.Block()
				if lp := InnermostLoopOf(lk.ifi); lp != nil {
					hdr = lp.Header
				}
				for in := range Reach([]Pt{{foundB, 0}}, stop, nil) {
					if in.Block() == hdr && in != ssa.Instruction(lk.ifi) && !stop(in) {
						short = true
					}
					if _, isRet := in.(*ssa.Return); isRet {
						short = true
					}
				}
				c.Check(!short, r3, "equal:only-by-comparison", p.InstrPos(cmpCall), "a process is left alone only when the comparison says so", "a process present in both projects can be treated as unchanged without consulting the configuration comparison (a shortcut such as equal source text): a change that only shows after rendering - project variables, shell - is not applied and not reported")
			}
			c.Check(okNe, r3, "updated:on-difference", p.InstrPos(cmpCall), "a changed process is recorded as updated", "a process whose configuration differs is not recorded as updated")
			// the comparison is current.Compare(&new)
			args := ArgsOf(&cmpCall.Call)
			rcv := ReceiverOf(&cmpCall.Call)
			c.Check(rcv != nil && len(args) == 1 && rcv != args[0], r3, "updated:operands", p.InstrPos(cmpCall), "current and new configuration are compared", "the comparison is not made between the current and the new configuration")
		} else {
			nfIns := insertsIn(notFound, lk.ifi, isMapInsert)
			if c.Check(len(nfIns) == 1, r3, "removed:on-not-found", p.InstrPos(lk.ifi), "exactly one set receives the process on the not-found edge", "a process that no longer exists in the new project is not recorded as removed") {
				delSet = nfIns[0].Map
			}
			fIns := insertsIn(foundB, lk.ifi, isMapInsert)
			c.Check(len(fIns) == 0, r3, "removed:only-missing", p.InstrPos(lk.ifi), "processes still present are not removed", "a process that still exists in the new project is recorded as removed")
		}
	}
	c.Check(newSet != nil && updSet != nil && delSet != nil && newSet != updSet && newSet != delSet && updSet != delSet, r3, "three-sets", FirstPos(p, upd), "three distinct sets", "the update does not keep three distinct sets for new, updated and removed processes")
	// the values through which each set reaches the action loops: results of the classifying helper as seen by its
	// caller, and parameters of helpers the sets are handed to
	flows := func(v ssa.Value) map[ssa.Value]bool {
		out := map[ssa.Value]bool{}
		if v == nil {
			return out
		}
		out[stripConv(v)] = true
		for round := 0; round < 4; round++ {
			for _, g := range p.FuncsOfPkg("app") {
				AllInstrs(g, func(in ssa.Instruction) {
					switch x := in.(type) {
					case *ssa.Return:
						for i, r := range x.Results {
							if !out[stripConv(r)] {
								continue
							}
							for _, cr := range p.Callers(g) {
								call, ok := cr.Instr.(*ssa.Call)
								if !ok {
									continue
								}
								if len(x.Results) == 1 {
									out[call] = true
									continue
								}
								for _, ref := range *call.Referrers() {
									if ex, ok := ref.(*ssa.Extract); ok && ex.Index == i {
										out[ex] = true
									}
								}
							}
						}
					case *ssa.Call:
						sc := x.Call.StaticCallee()
						if sc == nil || len(sc.Blocks) == 0 || pkgOfFunc(sc) == nil || pkgOfFunc(sc).Name() != "app" {
							return
						}
						args := x.Call.Args
						for j, a := range args {
							if out[stripConv(a)] && j < len(sc.Params) {
								out[sc.Params[j]] = true
							}
						}
					}
				})
			}
		}
		return out
	}
	_ = toUpd
	newFlow, updFlow, delFlow := flows(newSet), flows(updSet), flows(delSet)
	// the action loops: in the update operation or in a helper it calls
	actionFns := []*ssa.Function{upd}
	AllInstrs(upd, func(in ssa.Instruction) {
		if call, ok := in.(*ssa.Call); ok {
			if sc := call.Call.StaticCallee(); sc != nil && len(sc.Blocks) > 0 && s.IsRunnerMethod(sc) && sc != diffFn {
				actionFns = appendUniq(actionFns, sc)
			}
		}
	})
	// the action loops
	removeDeep := p.Deep(MapDeleteOn("delete Processes", s.FProcesses))
	addDeep := p.Deep(MapUpdateOn("insert Processes", s.FProcesses))
	roleLoop := map[string]RangeLoop{}
	var allLoops []RangeLoop
	for _, af := range actionFns {
		allLoops = append(allLoops, RangeLoops(af)...)
	}
	for _, l := range allLoops {
		var role string
		var wantOK, wantErr string
		switch {
		case newFlow[stripConv(l.Coll)]:
			role, wantOK = "added", added
		case delFlow[stripConv(l.Coll)]:
			role, wantOK, wantErr = "removed", removed, errored
		case updFlow[stripConv(l.Coll)]:
			role, wantOK, wantErr = "updated", updated, errored
		default:
			continue
		}
		if _, dup := roleLoop[role]; dup {
			continue
		}
		c.Touch(l.If.Parent())
		roleLoop[role] = l
		region := DominatedBlocks(l.Body)
		var statuses []string
		actions := map[string]bool{}
		for b := range region {
			for _, in := range b.Instrs {
				if mu, ok := in.(*ssa.MapUpdate); ok {
					if sv, oks := ConstString(mu.Value); oks {
						statuses = append(statuses, sv)
					}
				}
				if call, ok := in.(*ssa.Call); ok {
					if removeDeep.MayAt(call) {
						actions["remove"] = true
					}
					if addDeep.MayAt(call) {
						actions["add"] = true
					}
				}
			}
		}
		sort.Strings(statuses)
		want := []string{wantOK}
		if wantErr != "" {
			want = append(want, wantErr)
		}
		sort.Strings(want)
		c.Check(strings.Join(statuses, ",") == strings.Join(want, ","), r3, "status:"+role, p.InstrPos(l.If), "status constants "+strings.Join(want, "/"), fmt.Sprintf("the loop over the %s processes writes status {%s}, expected {%s}", role, strings.Join(statuses, ","), strings.Join(want, ",")))
		switch role {
		case "added":
			c.Check(actions["add"] && !actions["remove"], r3, "action:added", p.InstrPos(l.If), "new processes are added and run", "new processes are not added (or something is removed) in the 'added' loop")
		case "removed":
			c.Check(actions["remove"] && !actions["add"], r3, "action:removed", p.InstrPos(l.If), "removed processes are removed", "removed processes are not removed in the 'removed' loop")
		case "updated":
			c.Check(actions["remove"] && actions["add"], r3, "action:updated", p.InstrPos(l.If), "updated processes are replaced", "updated processes are not replaced (remove + add) in the 'updated' loop")
		}
	}
	// order of the actions: new processes are registered before changed ones are
	// replaced (replacing a process re-derives its replica set from the registered configurations)
	precedes := func(a, b string) bool {
		la, oka := roleLoop[a]
		lb, okb := roleLoop[b]
		if !oka || !okb {
			return false
		}
		vis := Reach([]Pt{{lb.Body, 0}}, nil, nil)
		return !vis[ssa.Instruction(la.If)]
	}
	if len(roleLoop) == 3 {
		c.Check(precedes("added", "updated"), r3, "order:added-before-updated", FirstPos(p, upd), "new processes are registered before changed ones are replaced", "changed processes are replaced before the new ones are registered: replacing re-scales a process from the registered configurations, so a raised replica count launches the new replicas there and the add step launches them a second time (orphaned duplicates)")
	}
	c.Floor(r3, 12, "classification obligations")

	// ------------------------------------------------------------------ (3b)
	{
		rImm := c.Rule("probe-config-not-rewritten-at-run-time", "fields of the probe configuration (health.Probe, HttpProbe, ExecProbe) are stored only by the defaulting functions (reached from Probe.ValidateAndSetDefaults), by copies into fresh objects and by the template renderer: the stored project configuration shares these objects with the running probers, so a store at run time makes an untouched process compare as changed on the next update")
		vsd := p.TryMethod("health", "Probe", "ValidateAndSetDefaults")
		probeTypes := map[string]bool{"Probe": true, "HttpProbe": true, "ExecProbe": true}
		allowed := map[*ssa.Function]bool{}
		if vsd != nil {
			work := []*ssa.Function{vsd}
			for len(work) > 0 {
				f := work[0]
				work = work[1:]
				if allowed[f] {
					continue
				}
				allowed[f] = true
				AllInstrs(f, func(in ssa.Instruction) {
					if call, ok := in.(*ssa.Call); ok {
						if sc := call.Call.StaticCallee(); sc != nil && len(sc.Blocks) > 0 && pkgOfFunc(sc) != nil && pkgOfFunc(sc).Name() == "health" {
							work = append(work, sc)
						}
					}
				})
			}
		}
		n := 0
		for _, f := range p.Funcs {
			pk := pkgOfFunc(f)
			if pk == nil || pk.Name() == "templater" || pk.Name() == "loader" {
				continue
			}
			AllInstrs(f, func(in ssa.Instruction) {
				st, ok := in.(*ssa.Store)
				if !ok {
					return
				}
				fa, ok := st.Addr.(*ssa.FieldAddr)
				if !ok {
					return
				}
				pt, ok := fa.X.Type().(*types.Pointer)
				if !ok {
					return
				}
				nt, ok := pt.Elem().(*types.Named)
				if !ok || nt.Obj().Pkg() == nil || nt.Obj().Pkg().Name() != "health" || !probeTypes[nt.Obj().Name()] {
					return
				}
				n++
				if al, isAl := PathOf(fa).Base.(*ssa.Alloc); isAl && len(PathOf(fa).Fields) == 1 {
					_ = al
					return // a copy under construction
				}
				c.Check(allowed[f], rImm, "store:"+p.FuncKey(f)+":"+derefStruct(fa.X.Type()).Field(fa.Field).Name(), p.InstrPos(in), "stored by a defaulting function", "a probe configuration field is rewritten outside the defaulting functions (e.g. a getter that normalises and writes back): after the first launch the stored configuration differs from what a load produces, so every update restarts this untouched process and reports it as updated")
			})
		}
		c.Check(n >= 5, rImm, "floor:probe-field-stores", "", "probe field stores found", "expected the defaulting stores of the probe configuration")
	}

	// ------------------------------------------------------------------ (4)
	r4 := c.Rule("replace-order", "in the process-update operation the removal of the old instance (which stops it without restart and awaits its completion) precedes the add-and-run of the new configuration on every path, and the added value is the updated configuration")
	up := s.apiMethod("UpdateProcess")
	c.Touch(up)
	var removes, adds []ssa.Instruction
	AllInstrs(up, func(in ssa.Instruction) {
		call, ok := in.(*ssa.Call)
		if !ok {
			return
		}
		sc := call.Call.StaticCallee()
		if sc == nil || !s.IsRunnerMethod(sc) || sc == s.apiMethod("ScaleProcess") {
			return
		}
		if removeDeep.MayAt(call) && !addDeep.MayAt(call) {
			removes = append(removes, in)
		}
		if addDeep.MayAt(call) && !removeDeep.MayAt(call) {
			adds = append(adds, in)
		}
	})
	// the old instance is addressed by the registry key of the updated configuration (its ReplicaName)
	for _, rmi := range removes {
		okKey := false
		for _, a := range ArgsOf(CallCommonOf(rmi)) {
			if PathOf(a).LastField() == s.FReplicaName {
				okKey = true
			}
		}
		c.Check(okKey, r4, "removal-key", p.InstrPos(rmi), "the old instance is removed under its replica name", "the update removes the old instance under another name than the ReplicaName the registries are keyed by (e.g. Name): for a replica nothing is found, the old instance keeps running beside the new one and is orphaned")
	}
	// the incoming configuration is normalised (executable/args assigned, probes defaulted) before it is compared
	// with the stored, normalised one - otherwise an unchanged process compares as changed and is restarted
	{
		assign := p.TryMethod("types", "ProcessConfig", "AssignProcessExecutableAndArgs")
		vsd := p.TryMethod("health", "Probe", "ValidateAndSetDefaults")
		var cmpCalls []ssa.Instruction
		AllInstrs(up, func(in ssa.Instruction) {
			if call, ok := in.(*ssa.Call); ok && call.Call.StaticCallee() == cmp {
				cmpCalls = append(cmpCalls, in)
			}
		})
		if len(cmpCalls) > 0 && assign != nil && vsd != nil {
			for _, nm := range []struct {
				name string
				fn   *ssa.Function
			}{{"executable-and-args", assign}, {"probe-defaults", vsd}} {
				d := p.Deep(CallOfFn(nm.name, nm.fn))
				barrier := func(in ssa.Instruction) bool {
					switch in.(type) {
					case *ssa.Go, *ssa.Defer:
						return false
					}
					return d.MayAt(in)
				}
				bad := false
				vis := Reach(Entry(up), barrier, nil)
				for _, cc := range cmpCalls {
					if vis[cc] {
						bad = true
					}
				}
				c.Check(!bad, r4, "normalised-before-compare:"+nm.name, FirstPos(p, up), "normalised before the comparison", "the updated configuration is compared with the stored one before its "+nm.name+" were normalised: a configuration that did not come through the loader always differs, so re-applying an unchanged process terminates and relaunches it")
			}
		}
	}
	if c.Check(len(removes) >= 1 && len(adds) >= 1, r4, "shape", FirstPos(p, up), "remove and add present", "the process update does not remove the old and add the new configuration") {
		rm := p.Deep(Site{Name: "remove", Instr: func(in ssa.Instruction) bool { return isOneOf(in, removes) }})
		r := MustPrecede(up, rm, func(in ssa.Instruction) bool { return isOneOf(in, adds) }, nil)
		c.PathCheck(r, r4, "remove-before-add", FirstPos(p, up), "the old instance is removed first", "the new configuration can be added while the old instance is still registered/running")
		// add is not reachable on the error edge of remove
		for _, rmi := range removes {
			call := rmi.(*ssa.Call)
			vis := Reach([]Pt{after(call)}, nil, ErrNilEdge(call, false))
			bad := false
			for _, a := range adds {
				if vis[a] {
					bad = true
				}
			}
			c.Check(!bad, r4, "no-add-after-failed-remove", p.InstrPos(call), "a failed removal aborts the update", "the new configuration is added although removing the old instance failed")
		}
		// the added value is *updated
		for _, a := range adds {
			args := ArgsOf(CallCommonOf(a))
			ok := false
			for _, av := range args {
				if u, isU := stripConv(av).(*ssa.UnOp); isU {
					if _, isP := u.X.(*ssa.Parameter); isP {
						ok = true
					}
				}
			}
			c.Check(ok, r4, "adds-updated-config", p.InstrPos(a), "the updated configuration is added", "the configuration added back is not the updated one")
		}
		// the removal function stops without restart and awaits (shared with C13)
		stopDeep := p.Deep(s.stopCoreCall(true, false))
		waitDone := p.Deep(Or("waitForCompletion", CallOfFn("wait", s.WaitPrims(latchDone)...), s.waitSite(latchDone)))
		for _, rmi := range removes {
			sc := rmi.(*ssa.Call).Call.StaticCallee()
			c.Check(stopDeep.May(sc) && waitDone.May(sc) && p.Deep(s.flagStoreSite()).May(sc), r4, "removal-stops-and-awaits", FirstPos(p, sc), "removal stops without restart and awaits", "the removal used by the update does not stop the old instance without restart and wait for it")
		}
	}
	s.checkRemovalStopsRegistered(c, r4)
	// unknown process: error without effects
	{
		var errRet bool
		for _, b := range up.Blocks {
			ifi := IfOf(b)
			if ifi == nil {
				continue
			}
			v, pos := BoolCond(ifi.Cond)
			ex, ok := v.(*ssa.Extract)
			if !ok || ex.Index != 1 {
				continue
			}
			lk, ok := ex.Tuple.(*ssa.Lookup)
			if !ok || PathOf(lk.X).LastField() != s.FProcesses {
				continue
			}
			nf := 1
			if !pos {
				nf = 0
			}
			vis := Reach([]Pt{{b.Succs[nf], 0}}, nil, nil)
			errRet = true
			for in := range vis {
				if isOneOf(in, adds) || isOneOf(in, removes) {
					errRet = false
				}
				if ret, ok := in.(*ssa.Return); ok && IsNilConst(RetVals(ret)[0]) {
					errRet = false
				}
			}
		}
		c.Check(errRet, r4, "unknown-process", FirstPos(p, up), "updating an unknown process fails without effect", "updating an unknown process does not fail cleanly")
	}
}

// insertsIn lists the local-map insertions reachable from start before the
// loop header `stop`.
func insertsIn(start *ssa.BasicBlock, stop *ssa.If, isIns func(in ssa.Instruction) (*ssa.MapUpdate, bool)) []*ssa.MapUpdate {
	// stop at the loop header: the Next instruction of the enclosing range
	vis := Reach([]Pt{{start, 0}}, func(in ssa.Instruction) bool {
		_, isNext := in.(*ssa.Next)
		return isNext
	}, nil)
	var out []*ssa.MapUpdate
	var ins []ssa.Instruction
	for in := range vis {
		ins = append(ins, in)
	}
	sortInstrs(ins)
	for _, in := range ins {
		if mu, ok := isIns(in); ok {
			out = append(out, mu)
		}
	}
	return out
}

// containsInterface: the type contains an interface type (any) somewhere.
func containsInterface(t types.Type, seen map[types.Type]bool) bool {
	if seen[t] {
		return false
	}
	seen[t] = true
	switch u := t.Underlying().(type) {
	case *types.Interface:
		return true
	case *types.Pointer:
		return containsInterface(u.Elem(), seen)
	case *types.Slice:
		return containsInterface(u.Elem(), seen)
	case *types.Array:
		return containsInterface(u.Elem(), seen)
	case *types.Map:
		return containsInterface(u.Key(), seen) || containsInterface(u.Elem(), seen)
	case *types.Struct:
		for i := 0; i < u.NumFields(); i++ {
			if containsInterface(u.Field(i).Type(), seen) {
				return true
			}
		}
	}
	return false
}
