package pcv

import (
	"fmt"
	"go/constant"
	"go/types"
	"strings"

	"golang.org/x/tools/go/ssa"
)

func init() {
	register(&PropCheck{
		ID: "C04",
		Explanation: "Project completion and exit code, structural part: (1) Run() joins the process goroutines; (2) the terminal function unconditionally releases every latch a dependent can block on " +
			"(done+broadcast, ready context, log-ready context, started channel or run context) and every path of the process goroutine passes the terminal function (except the refusal path after a stop); " +
			"(3) the project exit code is stored only by the shutdown triggers, before the shutdown call, once-guarded, with the trigger's own code (1 for a skip), and Run() returns ExitError exactly when it is non-zero; " +
			"(4) decision table of the two triggers; (5) in cmd the error of Run() is propagated unchanged to the handler that passes ExitError.Code to os.Exit.",
		Assumptions: []string{
			"termination of Run() in general (liveness of children) and the exit status of the built binary are not decided",
			"sync.Once.Do(f) is modelled as calling f (first call)",
		},
		Run: runC04,
	})
}

// latchReleaseSite: the operations that release latch k.
func (s *Sel) latchReleaseSite(k latchKind) Site {
	p := s.p
	switch k {
	case latchDone:
		return MethodOnField("procCond.Broadcast", s.FProcCond, p.ExtFunc("sync", "Cond", "Broadcast"))
	case latchReady:
		return CallFieldFn("readyCancelFn()", s.FReadyCancel)
	case latchLogReady:
		return CallFieldFn("readyLogCancelFn()", s.FLogReadyCancel)
	default:
		return Or("close(procStartedChan)|runCancelFn()", CloseOf("close", s.FStartedChan), CallFieldFn("runCancelFn()", s.FRunCancel))
	}
}

// checkLatchesReleased (C04, C05, C09).
func (s *Sel) checkLatchesReleased(c *Ctx, ruleID string) {
	p := c.P
	rule := c.Rule(ruleID, "for every wait primitive, the terminal function releases at least one object of its latch on all paths (not under a configuration-dependent test): done is stored and broadcast, readyCancelFn, readyLogCancelFn, and close(procStartedChan) or runCancelFn are called unconditionally; every path of the process goroutine passes the terminal function except the refusal path of the run entry")
	requireN("Terminal", s.Terminals, 1, 2)
	for _, t := range s.Terminals {
		c.Touch(t)
		for _, k := range []latchKind{latchDone, latchReady, latchLogReady, latchStarted} {
			if len(s.WaitPrims(k)) == 0 {
				continue
			}
			d := p.Deep(s.latchReleaseSite(k))
			c.Check(d.Always(t), rule, "terminal-releases:"+k.String(), FirstPos(p, t), "released on every path of the terminal function",
				"the terminal function does not release "+k.String()+" on every path: a dependent blocked on it waits forever when the process ends without having met the condition, and Run() never returns")
		}
		// done=true store before broadcast
		dStore := p.Deep(StoreTo("done", s.FDone))
		c.Check(dStore.Always(t), rule, "terminal-sets-done", FirstPos(p, t), "done is set on every path", "the terminal function does not set done on every path")
	}
	// every path of the goroutine passes Terminal
	term := p.Deep(CallOfFn("Terminal", s.Terminals...))
	srr := p.Deep(s.stopRequestRead())
	for _, re := range s.RunEntries {
		c.Touch(re)
		// block the refusal edges (true edge of a stop-request read)
		refusal := map[*ssa.If]int{}
		for _, rd := range DirectSites(re, s.stopRequestRead()) {
			if call, ok := rd.(*ssa.Call); ok {
				te, _ := boolResultEdges(call)
				for _, g := range te {
					refusal[g.If] = g.Succ
				}
			}
		}
		_ = srr
		vis := Reach(Entry(re), term.MustAt, func(from *ssa.BasicBlock, succ int) bool {
			if ifi := IfOf(from); ifi != nil {
				if sx, ok := refusal[ifi]; ok && sx == succ {
					return false
				}
			}
			return true
		})
		ok := true
		var off ssa.Instruction
		for in := range vis {
			if _, isRet := in.(*ssa.Return); isRet {
				ok = false
				off = in
			}
		}
		pos := FirstPos(p, re)
		if off != nil {
			pos = p.InstrPos(off)
		}
		c.Check(ok, rule, "run-entry-ends-terminal:"+p.FuncKey(re), pos, "every non-refusal path of the run entry passes the terminal function", "the run entry can return without passing the terminal function: the instance never becomes done")
	}
	for _, g := range s.ProcGo {
		c.Touch(g)
		d := p.Deep(Or("Terminal|RunEntry", CallOfFn("Terminal", s.Terminals...), CallOfFn("RunEntry", s.RunEntries...)))
		c.Check(d.Always(g), rule, "goroutine-ends-terminal:"+p.FuncKey(g), FirstPos(p, g), "every path passes the terminal function or the run entry", "a path of the process goroutine neither runs the process nor marks it terminal (dependents and Run() wait forever)")
	}
}

// triggerFns: ProjectRunner methods that may call the shutdown function and
// read exit_on_end / exit_on_skipped / the exit_on_failure policy.
func (s *Sel) triggerFns() (onEnd, onSkip []*ssa.Function) {
	p := s.p
	shut := s.shutdownFn()
	sd := p.Deep(CallOfFn("ShutDownProject", shut))
	for _, f := range p.FuncsOfPkg("app") {
		if !s.IsRunnerMethod(f) || f.Parent() != nil || f == shut {
			continue
		}
		if len(DirectSites(f, CallOfFn("ShutDownProject", shut))) == 0 || !sd.May(f) {
			continue
		}
		if len(FindInstrs(f, func(in ssa.Instruction) bool { return IsLoadOf(in, s.FExitOnEnd) })) > 0 {
			onEnd = appendUniq(onEnd, f)
		}
		if len(FindInstrs(f, func(in ssa.Instruction) bool { return IsLoadOf(in, s.FExitOnSkipped) })) > 0 {
			onSkip = appendUniq(onSkip, f)
		}
	}
	return
}

func runC04(c *Ctx) {
	p := c.P
	s := p.Selectors()
	s.checkExitCodeProvenance(c, "exitcode-provenance")
	s.checkDaemonRelease(c, "daemon-released-after-configured-stop")
	s.checkOrderedOrderComplete(c)
	shut := s.shutdownFn()

	s.checkRunJoins(c, "run-joins")
	s.checkLatchesReleased(c, "latches-released-on-terminal")

	// ------------------------------------------------------------------
	rExit := c.Rule("exitcode-first-writer", "ProjectRunner.exitCode is stored only on behalf of the shutdown triggers, before the trigger calls the shutdown function, under a once-guard (sync.Once / CompareAndSwap), with the trigger's own exit-code argument (constant 1 for the skip trigger)")
	onEnd, onSkip := s.triggerFns()
	triggers := append(append([]*ssa.Function{}, onEnd...), onSkip...)
	if len(onEnd) == 0 {
		c.Bad(rExit, "trigger:on-end:none", "", "no function triggers the project shutdown on exit_on_end / exit_on_failure")
	}
	if len(onSkip) == 0 {
		c.Bad(rExit, "trigger:on-skip:none", "", "no function triggers the project shutdown on exit_on_skipped")
	}
	storeSite := StoreTo("store exitCode", s.FRunnerExitCode)
	nStores := 0
	for _, f := range p.Funcs {
		for _, in := range DirectSites(f, storeSite) {
			nStores++
			c.Touch(f)
			okCtx := false
			for _, t := range triggers {
				if p.onlyReachedFrom(f, []*ssa.Function{t}, 0) || p.onlyReachedFrom(f, triggers, 0) {
					okCtx = true
				}
			}
			c.Check(okCtx, rExit, "writer:"+p.FuncKey(f), p.InstrPos(in), "exit code written on behalf of a shutdown trigger", "ProjectRunner.exitCode is written outside the shutdown triggers")
			c.Check(onceGuarded(in), rExit, "once-guard:"+p.FuncKey(f), p.InstrPos(in), "the store is once-guarded", "the exit code store is not once-guarded: a process that was merely terminated by the shutdown (and carries exit_on_end/exit_on_failure) overwrites the code of the process that triggered it")
		}
	}
	if nStores == 0 {
		c.Bad(rExit, "writer:none", "", "ProjectRunner.exitCode is never written: Run() always reports success")
	}
	dStore := p.Deep(storeSite)
	for _, t := range triggers {
		c.Touch(t)
		shutCalls := DirectSites(t, CallOfFn("ShutDownProject", shut))
		r := MustPrecede(t, s.deepWithOnce(storeSite), func(in ssa.Instruction) bool { return isOneOf(in, shutCalls) }, nil)
		_ = dStore
		c.PathCheck(r, rExit, "store-before-shutdown:"+p.FuncKey(t), FirstPos(p, t), "the exit code is recorded before the shutdown is started", "the trigger calls the shutdown function before recording its exit code: processes killed by that shutdown run their own trigger first and their code wins")
	}
	// what a process goroutine hands to the completion trigger when no command was launched
	{
		rNo := c.Rule("no-launch-result-is-constant", "every return of the run entry that is reachable without passing the launch returns a constant (0 for a process stopped before it started, non-zero for one that cannot be started): the value goes to the exit_on_failure / exit_on_end trigger and must not be a code some other goroutine stored into the state record")
		launchD := p.Deep(s.LaunchSite)
		for _, re := range s.RunEntries {
			c.Touch(re)
			barrier := func(in ssa.Instruction) bool {
				cc, ok := in.(*ssa.Call)
				return ok && launchD.MayAt(cc)
			}
			n := 0
			for in := range Reach(Entry(re), barrier, nil) {
				ret, ok := in.(*ssa.Return)
				if !ok || len(ret.Results) != 1 {
					continue
				}
				n++
				_, isK := ConstInt(RetVals(ret)[0])
				c.Check(isK, rNo, fmt.Sprintf("%s:return-before-launch", p.FuncKey(re)), p.InstrPos(ret), "constant result", "a return of the run entry that is reached without launching the command returns the recorded exit code instead of a constant: a process that was merely stopped before it started (for instance by the project shutdown) can carry a code written by a waiting dependent and makes Run() report a failure")
			}
			if n == 0 {
				c.OK(rNo, p.FuncKey(re)+":none", FirstPos(p, re), "no return before the launch")
			}
		}
	}
	// Run returns ExitError exactly when exitCode != 0
	rRet := c.Rule("run-returns-exitcode", "the joining function returns &ExitError{exitCode} on the exitCode != 0 edge and the earlier error value otherwise")
	exitErr := p.Named("app", "ExitError")
	for _, j := range p.FuncsWith(MethodOnField("waitGroup.Wait", s.FWaitGroup, wgMethod(p, "Wait"))) {
		if len(DirectSites(j, CallOfFn("Spawn", s.Spawns...))) == 0 {
			continue
		}
		c.Touch(j)
		found := false
		for _, b := range j.Blocks {
			ifi := IfOf(b)
			if ifi == nil {
				continue
			}
			cmp, ok := CondCmp(ifi.Cond)
			if !ok {
				continue
			}
			var other ssa.Value
			if PathOf(cmp.X).LastField() == s.FRunnerExitCode {
				other = cmp.Y
			} else if PathOf(cmp.Y).LastField() == s.FRunnerExitCode {
				other = cmp.X
			} else {
				continue
			}
			if z, ok := ConstInt(other); !ok || z != 0 {
				continue
			}
			nzSucc := 0
			if cmp.Op.String() == "==" {
				nzSucc = 1
			} else if cmp.Op.String() != "!=" {
				continue
			}
			// on the non-zero edge an ExitError whose Code is exitCode is built
			region := DominatedBlocks(b.Succs[nzSucc])
			for rb := range region {
				for _, in := range rb.Instrs {
					if al, ok := in.(*ssa.Alloc); ok && isPtrTo(al.Type(), exitErr) {
						for _, ref := range *al.Referrers() {
							if fa, ok := ref.(*ssa.FieldAddr); ok {
								for _, r2 := range *fa.Referrers() {
									if st, ok := r2.(*ssa.Store); ok && PathOf(st.Val).LastField() == s.FRunnerExitCode {
										found = true
									}
								}
							}
						}
					}
				}
			}
		}
		c.Check(found, rRet, p.FuncKey(j), FirstPos(p, j), "ExitError{exitCode} built on the non-zero edge", "Run() does not turn a non-zero project exit code into an ExitError carrying that code")
	}
	c.Floor(rRet, 1, "joining function")

	s.checkTriggerTable(c, "trigger-table", "trigger-arguments")

	// ------------------------------------------------------------------
	s.checkBinaryExitMapping(c)
}

// deepWithOnce lifts a site so that sync.Once.Do(closure) counts as
// performing what the closure always performs.
func (s *Sel) deepWithOnce(site Site) *Deep {
	p := s.p
	onceDo := p.ExtFunc("sync", "Once", "Do")
	inner := p.Deep(site)
	wrapped := Site{Name: site.Name + "+once", Call: func(c *ssa.CallCommon) bool {
		if site.Call != nil && site.Call(c) {
			return true
		}
		if sameFunc(CalleeObj(c), onceDo) && len(c.Args) == 2 {
			fns, ok := p.FuncValues(c.Args[1])
			if ok && len(fns) > 0 {
				for _, fn := range fns {
					if !inner.Always(fn) {
						return false
					}
				}
				return true
			}
		}
		return false
	}, Instr: site.Instr}
	return p.Deep(wrapped)
}

// onceGuarded: the instruction is inside a closure passed to sync.Once.Do, or
// dominated by the true edge of an atomic CompareAndSwap.
func onceGuarded(in ssa.Instruction) bool {
	f := in.Parent()
	if f.Parent() != nil {
		ok := false
		AllInstrs(f.Parent(), func(x ssa.Instruction) {
			mc, isMc := x.(*ssa.MakeClosure)
			if !isMc || mc.Fn != f {
				return
			}
			for _, ref := range *mc.Referrers() {
				if c := CallCommonOf(ref); c != nil {
					if o := CalleeObj(c); o != nil && o.Pkg() != nil && o.Pkg().Path() == "sync" && o.Name() == "Do" {
						ok = true
					}
				}
			}
		})
		if ok {
			return true
		}
	}
	for _, g := range GuardsOf(in) {
		v, val := g.BoolVal()
		if call, ok := v.(*ssa.Call); ok && val {
			if o := CalleeObj(&call.Call); o != nil && o.Pkg() != nil && o.Pkg().Path() == "sync/atomic" && strings.HasPrefix(o.Name(), "CompareAndSwap") {
				return true
			}
		}
	}
	return false
}

// checkBinaryExitMapping (C04.binary-exit-mapping).
func (s *Sel) checkBinaryExitMapping(c *Ctx) {
	p := c.P
	rule := c.Rule("binary-exit-mapping", "in cmd, the error returned by (*ProjectRunner).Run is propagated unchanged through every function that returns an error and, where the chain ends, handed to the handler that calls os.Exit with ExitError.Code when errors.As finds an *app.ExitError (and a non-zero constant otherwise)")
	exitErr := p.Named("app", "ExitError")
	codeFld := p.Field("app", "ExitError", "Code")
	runFn := p.TryMethod("app", "ProjectRunner", "Run")
	if runFn == nil {
		broken("ANCHOR-UNRESOLVED (*ProjectRunner).Run")
	}
	// handlers
	var handlers []*ssa.Function
	for _, f := range p.FuncsOfPkg("cmd") {
		ok := false
		AllInstrs(f, func(in ssa.Instruction) {
			call, isCall := in.(*ssa.Call)
			if !isCall {
				return
			}
			o := CalleeObj(&call.Call)
			if o == nil || o.Pkg() == nil || o.Pkg().Path() != "errors" || o.Name() != "As" || len(call.Call.Args) != 2 {
				return
			}
			// target **ExitError
			tt := call.Call.Args[1]
			if mi, isMi := tt.(*ssa.MakeInterface); isMi {
				tt = mi.X
			}
			pt, isPtr := tt.Type().(*types.Pointer)
			if !isPtr || !isPtrTo(pt.Elem(), exitErr) {
				return
			}
			te, fe := boolResultEdges(call)
			good := len(te) > 0
			for _, g := range te {
				vis := Reach([]Pt{{g.If.Block().Succs[g.Succ], 0}}, nil, nil)
				exitWithCode := false
				for x := range vis {
					if cc, isC := x.(*ssa.Call); isC {
						if oo := CalleeObj(&cc.Call); oo != nil && oo.Pkg() != nil && oo.Pkg().Path() == "os" && oo.Name() == "Exit" {
							if PathOf(cc.Call.Args[0]).LastField() == codeFld {
								exitWithCode = true
							}
						}
					}
				}
				if !exitWithCode {
					good = false
				}
			}
			for _, g := range fe {
				vis := Reach([]Pt{{g.If.Block().Succs[g.Succ], 0}}, nil, nil)
				nz := false
				for x := range vis {
					if cc, isC := x.(*ssa.Call); isC {
						if oo := CalleeObj(&cc.Call); oo != nil && oo.Pkg() != nil && oo.Pkg().Path() == "os" && oo.Name() == "Exit" {
							if z, isK := ConstInt(cc.Call.Args[0]); isK && z != 0 {
								nz = true
							}
						}
					}
				}
				if !nz {
					good = false
				}
			}
			if good {
				ok = true
			}
		})
		if ok {
			handlers = appendUniq(handlers, f)
			c.Touch(f)
		}
	}
	c.Check(len(handlers) >= 1, rule, "handler", "", "an exit handler maps *ExitError to os.Exit(Code)", "no function in cmd maps *app.ExitError to os.Exit(exitErr.Code) with a non-zero fallback")
	// propagation
	runDeep := p.Deep(CallOfFn("Run", runFn))
	n := 0
	for _, f := range p.FuncsOfPkg("cmd") {
		for _, in := range FindInstrs(f, func(in ssa.Instruction) bool {
			call, ok := in.(*ssa.Call)
			if !ok || !runDeep.MayAt(call) {
				return false
			}
			res := call.Call.Signature().Results()
			return res.Len() >= 1 && res.At(res.Len()-1).Type().String() == "error"
		}) {
			call := in.(*ssa.Call)
			n++
			c.Touch(f)
			isErr := errValueMatcher(call)
			returnsErr := f.Signature.Results().Len() >= 1 && f.Signature.Results().At(f.Signature.Results().Len()-1).Type().String() == "error"
			if returnsErr {
				vis := Reach([]Pt{after(call)}, nil, ErrNilEdge(call, false))
				ok := true
				hasTest := false
				for _, b := range f.Blocks {
					if ifi := IfOf(b); ifi != nil {
						if cmp, okc := CondCmp(ifi.Cond); okc && (isErr(cmp.X) || isErr(cmp.Y)) {
							hasTest = true
						}
					}
				}
				for x := range vis {
					ret, isRet := x.(*ssa.Return)
					if !isRet {
						continue
					}
					rv := RetVals(ret)[len(ret.Results)-1]
					if isErr(rv) {
						continue
					}
					if hasTest {
						// with an explicit nil test only the non-nil edge must return it;
						// returns reachable from the merged flow are fine if they are
						// not on the non-nil edge exclusively
						onlyNonNil := true
						vis2 := Reach([]Pt{after(call)}, nil, ErrNilEdge(call, true))
						if vis2[ret] {
							onlyNonNil = false
						}
						if !onlyNonNil {
							continue
						}
					}
					ok = false
				}
				c.Check(ok, rule, "propagate:"+p.FuncKey(f), p.InstrPos(call), "the error is returned unchanged", "the error of Run() is dropped or replaced on its way to the exit handler")
			} else {
				d := p.Deep(Site{Name: "handler(err)", Call: func(cc *ssa.CallCommon) bool {
					sc := cc.StaticCallee()
					for _, h := range handlers {
						if sc == h {
							for _, a := range cc.Args {
								if isErr(a) {
									return true
								}
							}
						}
					}
					return false
				}})
				r := MustFollow([]Pt{after(call)}, d, nil)
				c.PathCheck(r, rule, "handled:"+p.FuncKey(f), p.InstrPos(call), "the error reaches the exit handler on every path", "the error of Run() does not reach the exit handler on every path: the binary's exit code is lost")
			}
		}
	}
	if n < 4 {
		c.Bad(rule, "floor:propagation-sites", "", fmt.Sprintf("expected at least 4 call sites on the path from Run() to the exit handler, found %d", n))
	}
}

// checkTriggerTable (C04, C05).
func (s *Sel) checkTriggerTable(c *Ctx, ruleID, argsRuleID string) {
	p := c.P
	shut := s.shutdownFn()
	onEnd, onSkip := s.triggerFns()
	rTrig := c.Rule(ruleID, "end trigger: shutdown <=> (exit!=0 AND policy=exit_on_failure) OR exit_on_end, recorded code = the exit code argument; skip trigger: shutdown <=> exit_on_skipped, recorded code = 1")
	exitOnFail, _ := constString(p.Const("types", "RestartPolicyExitOnFailure"))
	pol := p.ConstGroup("types", "RestartPolicy")
	var pols []string
	for _, k := range SortedKeys(pol) {
		pols = append(pols, pol[k])
	}
	rename := func(raw string) string {
		switch {
		case strings.HasSuffix(raw, ".RestartPolicy.Restart"):
			return "policy"
		case strings.HasSuffix(raw, ".RestartPolicy.ExitOnEnd"):
			return "exitOnEnd"
		case strings.HasSuffix(raw, ".RestartPolicy.ExitOnSkipped"):
			return "exitOnSkipped"
		case raw == "p1":
			return "arg1"
		case raw == "p0."+s.FRunnerExitCode.Name():
			return "exitCode"
		}
		return ""
	}
	stopAt := func(callee *ssa.Function, cc *ssa.CallCommon) (string, bool) {
		if callee == shut {
			return "Shutdown", true
		}
		return "", false
	}
	recorded := func(l *Leaf) string {
		if m, ok := l.Mem["exitCode"]; ok {
			return m.String()
		}
		return "unset"
	}
	for _, t := range onEnd {
		intArg := len(t.Params) >= 2 && types.Identical(t.Params[1].Type(), types.Typ[types.Int])
		if !intArg {
			c.Bad(rTrig, p.FuncKey(t)+":shape", FirstPos(p, t), "the end trigger does not take the exit code as its first argument")
			continue
		}
		c.RunTable(rTrig, p.FuncKey(t), &TableSpec{Fn: t, Rename: rename, StopAt: stopAt, ExtraStrings: pols},
			&TableCheck{
				Keys: map[string][]constant.Value{"arg1": Ints(-1, 0, 1, 2, 42), "policy": Strs(append(pols, "", OtherString)...), "exitOnEnd": Bools()},
				Judge: func(val map[string]constant.Value, l *Leaf) (bool, string, string) {
					want := (VInt(val, "arg1") != 0 && VStr(val, "policy") == exitOnFail) || VBool(val, "exitOnEnd")
					got := l.HasEffect("Shutdown")
					obs := fmt.Sprintf("shutdown=%v code=%s", got, recorded(l))
					exp := fmt.Sprintf("shutdown=%v", want)
					ok := got == want
					if want {
						exp += " code=$arg1"
						rc := recorded(l)
						if !(rc == "$p1" || rc == "$arg1" || rc == fmt.Sprint(VInt(val, "arg1"))) {
							ok = false
						}
					} else if recorded(l) != "unset" {
						ok = false
						exp += " code=unset"
					}
					return ok, exp, obs
				},
			})
	}
	for _, t := range onSkip {
		c.RunTable(rTrig, p.FuncKey(t), &TableSpec{Fn: t, Rename: rename, StopAt: stopAt},
			&TableCheck{
				Keys: map[string][]constant.Value{"exitOnSkipped": Bools()},
				Judge: func(val map[string]constant.Value, l *Leaf) (bool, string, string) {
					want := VBool(val, "exitOnSkipped")
					got := l.HasEffect("Shutdown")
					obs := fmt.Sprintf("shutdown=%v code=%s", got, recorded(l))
					exp := fmt.Sprintf("shutdown=%v", want)
					ok := got == want
					if want {
						exp += " code=1"
						if recorded(l) != "1" {
							ok = false
						}
					} else if recorded(l) != "unset" {
						ok = false
					}
					return ok, exp, obs
				},
			})
	}
	// the goroutine hands the run entry's result and the same process's config to the end trigger
	rArgs := c.Rule(argsRuleID, "the process goroutine calls the end trigger with the value returned by the run entry and the skip trigger on the gate-error edge")
	for _, g := range s.ProcGo {
		c.Touch(g)
		for _, in := range DirectSites(g, CallOfFn("onEnd", onEnd...)) {
			args := ArgsOf(CallCommonOf(in))
			ok := false
			if len(args) >= 1 {
				if call, isCall := stripConv(args[0]).(*ssa.Call); isCall {
					for _, re := range s.RunEntries {
						if call.Call.StaticCallee() == re {
							ok = true
						}
					}
				}
			}
			c.Check(ok, rArgs, "end-trigger:"+p.FuncKey(g), p.InstrPos(in), "exit code argument is the run entry's result", "the end trigger is not given the exit code returned by the run entry")
		}
		nSkip := 0
		for _, gc := range DirectSites(g, CallOfFn("Gate", s.Gates...)) {
			call, ok := gc.(*ssa.Call)
			if !ok {
				continue
			}
			d := p.Deep(CallOfFn("onSkip", onSkip...))
			r := MustFollow([]Pt{after(call)}, d, ErrNilEdge(call, false))
			nSkip++
			c.PathCheck(r, rArgs, "skip-trigger:"+p.FuncKey(g), p.InstrPos(call), "the skip trigger is reached on the gate-error edge", "on the gate-error (skip) edge the skip trigger is not reached on every path: exit_on_skipped has no effect")
		}
		if nSkip == 0 {
			c.Bad(rArgs, "skip-trigger:"+p.FuncKey(g), FirstPos(p, g), "no gate call in the goroutine")
		}
	}
	c.Floor(rArgs, 2, "trigger call sites")

}
