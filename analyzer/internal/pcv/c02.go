package pcv

import (
	"fmt"
	"go/constant"
	"go/token"
	"go/types"
	"strings"

	"golang.org/x/tools/go/ssa"
)

func init() {
	register(&PropCheck{
		ID: "C02",
		Explanation: "Restart policy, decided structurally: (1) the decision table of the restart-decision function is extracted by finite predicate abstraction over " +
			"{stop flag, exit code vs 0, policy constant, max_restarts vs 0, restarts vs max_restarts} and compared row by row with the table derived from the property; " +
			"(2) the back-off value is max(1, backoff_seconds) seconds for every integer; (3) on every path from the restart edge to the next launch the run loop blocks on a timer of exactly that value, " +
			"and the stop case of that select leaves the loop without reaching the launch; (4) the restart counter is written only by +1 exactly once on that path; " +
			"(5) every explicit stop path stores the no-restart flag before the stop core runs and the flag is consumed only by the decision; (6) the internal (probe-failure) stop neither sets that flag nor cancels the run context.",
		Assumptions: []string{
			"real elapsed time and the simultaneity of timer expiry and stop request are not decided",
			"max_restarts < 0 is outside the property (don't-care rows)",
		},
		Run: runC02,
	})
}

func restartSpecRename(raw string) string {
	switch {
	case strings.HasSuffix(raw, ".RestartPolicy.Restart"):
		return "policy"
	case strings.HasSuffix(raw, ".RestartPolicy.MaxRestarts"):
		return "max"
	case strings.HasSuffix(raw, ".procState.Restarts"):
		return "restarts"
	case strings.HasSuffix(raw, ".procState.ExitCode"):
		return "exit"
	case strings.Contains(raw, "atomic.Bool).Swap(") && strings.Contains(raw, ".isStopped"):
		return "stopped"
	case strings.Contains(raw, "atomic.Bool).Load(") && strings.Contains(raw, ".isStopped"):
		return "stopped"
	case strings.HasSuffix(raw, ".RestartPolicy.BackoffSeconds"):
		return "backoff"
	}
	return ""
}

func runC02(c *Ctx) {
	p := c.P
	s := p.Selectors()
	s.checkExitCodeProvenance(c, "exitcode-provenance")
	requireN("RestartDecision", s.RestartDecs, 1, 1)
	requireN("RunEntry", s.RunEntries, 1, 1)
	dec := s.RestartDecs[0]
	run := s.RunEntries[0]
	pol := func(n string) string { x, _ := constString(p.Const("types", n)); return x }
	always, onFail, exitOnFail, no := pol("RestartPolicyAlways"), pol("RestartPolicyOnFailure"), pol("RestartPolicyExitOnFailure"), pol("RestartPolicyNo")

	// ------------------------------------------------------------------ (1)
	rTab := c.Rule("decision-table", "restart <=> not stopped AND (policy=always OR (policy=on_failure AND exit!=0)) AND (max_restarts=0 OR restarts<max_restarts), for every row of the finite partition")
	c.RunTable(rTab, p.FuncKey(dec), &TableSpec{
		Fn:           dec,
		Rename:       restartSpecRename,
		ExtraStrings: []string{always, onFail, exitOnFail, no},
	}, &TableCheck{
		Keys: map[string][]constant.Value{
			"stopped":  Bools(),
			"exit":     Ints(-1, 0, 1, 2),
			"policy":   Strs(always, onFail, exitOnFail, no, "", OtherString),
			"max":      Ints(0, 1, 2, 3),
			"restarts": Ints(0, 1, 2, 3, 4),
		},
		Relevant: func(val map[string]constant.Value) bool {
			return VInt(val, "max") >= 0 && VInt(val, "restarts") >= 0
		},
		Expected: func(val map[string]constant.Value) string {
			pl := VStr(val, "policy")
			want := !VBool(val, "stopped") &&
				(pl == always || (pl == onFail && VInt(val, "exit") != 0)) &&
				(VInt(val, "max") == 0 || VInt(val, "restarts") < VInt(val, "max"))
			return fmt.Sprint(want)
		},
		Observed: func(l *Leaf) string {
			if len(l.Returns) == 1 && l.Returns[0].K == avConst {
				return l.Returns[0].C.ExactString()
			}
			return "non-constant:" + fmt.Sprint(l.Returns)
		},
	})

	// ------------------------------------------------------------------ (2)
	rBack := c.Rule("backoff-min-1s", "the back-off function returns max(1, backoff_seconds) * time.Second for every integer backoff_seconds")
	backoffFns := s.backoffFuncs()
	for _, bf := range backoffFns {
		c.RunTable(rBack, p.FuncKey(bf), &TableSpec{Fn: bf, Rename: restartSpecRename, ExtraInts: []int64{0, 1, 2, 5}},
			&TableCheck{
				Keys: map[string][]constant.Value{"backoff": Ints(-3, -1, 0, 1, 2, 3, 6)},
				Expected: func(val map[string]constant.Value) string {
					b := VInt(val, "backoff")
					if b < 1 {
						b = 1
					}
					return fmt.Sprint(b * 1000000000)
				},
				Observed: func(l *Leaf) string {
					if len(l.Returns) == 1 && l.Returns[0].K == avConst {
						return l.Returns[0].C.ExactString()
					}
					return "non-constant:" + fmt.Sprint(l.Returns)
				},
			})
	}
	c.Floor(rBack, 1, "back-off function (returns time.Duration, reads BackoffSeconds)")

	// ------------------------------------------------------------------ (3)
	rWait := c.Rule("wait-before-relaunch", "on every path from the restart edge of the decision to the next launch the run loop passes a select that receives from time.After(backoff()); the procRunCtx.Done() case of that select cannot reach the launch")
	launch := p.Deep(s.LaunchSite)
	decCalls := DirectSites(run, CallOfFn("RestartDecision", dec))
	c.Touch(run)
	if len(decCalls) == 0 {
		c.Bad(rWait, p.FuncKey(run)+":decision-call", FirstPos(p, run), "the run loop does not consult the restart decision")
	}
	for _, dc := range decCalls {
		call := dc.(*ssa.Call)
		restartEdges, stopEdges := boolResultEdges(call)
		if len(restartEdges) == 0 {
			c.Bad(rWait, p.FuncKey(run)+":decision-branch", p.InstrPos(call), "the result of the restart decision does not control a branch")
			continue
		}
		isTimerSelect := func(in ssa.Instruction) bool {
			sel, ok := in.(*ssa.Select)
			if !ok || !sel.Blocking {
				return false
			}
			for _, st := range sel.States {
				if st.Dir == types.RecvOnly && s.isTimerOfBackoff(st.Chan, backoffFns) {
					return true
				}
			}
			return false
		}
		isSleep := func(in ssa.Instruction) bool {
			cc, ok := in.(*ssa.Call)
			if !ok {
				return false
			}
			o := CalleeObj(&cc.Call)
			if o == nil || o.Pkg() == nil || o.Pkg().Path() != "time" || o.Name() != "Sleep" || len(cc.Call.Args) != 1 {
				return false
			}
			return s.isBackoffValue(cc.Call.Args[0], backoffFns)
		}
		// the wait may live in a helper: a bool method whose every path passes such a select (or sleep), whose
		// procRunCtx.Done() case returns false and whose timer case returns true
		waitHelper := func(in ssa.Instruction) (*ssa.Call, bool) {
			cc, ok := in.(*ssa.Call)
			if !ok {
				return nil, false
			}
			w := cc.Call.StaticCallee()
			if w == nil || len(w.Blocks) == 0 || !s.IsProcessMethod(w) || w.Signature.Results().Len() != 1 {
				return nil, false
			}
			if b, isB := w.Signature.Results().At(0).Type().Underlying().(*types.Basic); !isB || b.Kind() != types.Bool {
				return nil, false
			}
			hasSel := false
			for x := range Reach(Entry(w), func(x ssa.Instruction) bool { return isTimerSelect(x) || isSleep(x) }, nil) {
				if isTimerSelect(x) || isSleep(x) {
					hasSel = true
				}
				if _, isRet := x.(*ssa.Return); isRet {
					return nil, false // a path returns without waiting
				}
			}
			if !hasSel {
				return nil, false
			}
			// result polarity
			okPol := true
			AllInstrs(w, func(x ssa.Instruction) {
				sel, isSel := x.(*ssa.Select)
				if !isSel || !isTimerSelect(sel) {
					return
				}
				for i, st := range sel.States {
					if st.Dir != types.RecvOnly {
						continue
					}
					want := s.isTimerOfBackoff(st.Chan, backoffFns)
					if !want && !CtxDoneOf(st.Chan, s.FRunCtx) {
						continue
					}
					for y := range Reach([]Pt{after(sel)}, nil, selectCaseEdge(sel, i)) {
						if ret, isRet := y.(*ssa.Return); isRet {
							b, isK := ConstBool(RetVals(ret)[0])
							if !isK || b != want {
								okPol = false
							}
						}
					}
				}
			})
			return cc, okPol
		}
		for _, g := range restartEdges {
			start := g.If.Block().Succs[g.Succ]
			vis := Reach([]Pt{{start, 0}}, func(in ssa.Instruction) bool {
				_, isH := waitHelper(in)
				return isTimerSelect(in) || isSleep(in) || isH
			}, nil)
			bad := false
			var sels []*ssa.Select
			for in := range vis {
				if hc, isH := waitHelper(in); isH {
					c.Touch(hc.Call.StaticCallee())
					// the "stopped" result must not reach the launch
					_, fe := boolResultEdges(hc)
					okH := len(fe) > 0
					for _, g2 := range fe {
						for y := range Reach([]Pt{{g2.If.Block().Succs[g2.Succ], 0}}, nil, nil) {
							if launch.MayAt(y) {
								okH = false
							}
						}
					}
					c.Check(okH, rWait, p.FuncKey(run)+":stop-case-leaves-loop", p.InstrPos(hc), "a stop during the back-off wait does not reach the launch", "after a stop request during the back-off wait (the wait helper returned false) the launch is still reachable")
					c.OK(rWait, p.FuncKey(run)+":stop-case-present", p.InstrPos(hc), "the back-off wait helper has a procRunCtx.Done() case")
					continue
				}
				if sel, ok := in.(*ssa.Select); ok && isTimerSelect(sel) {
					sels = append(sels, sel)
					continue
				}
				if isSleep(in) {
					continue
				}
				if launch.MayAt(in) {
					bad = true
					c.Bad(rWait, p.FuncKey(run)+":relaunch-without-wait", p.InstrPos(in), "a launch is reachable from the restart edge without waiting for the back-off timer")
				}
			}
			if !bad {
				c.OK(rWait, p.FuncKey(run)+":relaunch-without-wait", p.InstrPos(g.If), "every path from the restart edge to the launch passes the back-off wait")
			}
			for _, sel := range sels {
				// the stop case must not reach the launch
				found := false
				for i, st := range sel.States {
					if st.Dir == types.RecvOnly && CtxDoneOf(st.Chan, s.FRunCtx) {
						found = true
						vis2 := Reach([]Pt{after(sel)}, nil, selectCaseEdge(sel, i))
						ok := true
						for in := range vis2 {
							if launch.MayAt(in) {
								ok = false
							}
						}
						c.Check(ok, rWait, p.FuncKey(run)+":stop-case-leaves-loop", p.InstrPos(sel), "the procRunCtx.Done() case does not reach the launch", "after a stop request during the back-off wait the launch is still reachable")
					}
				}
				c.Check(found, rWait, p.FuncKey(run)+":stop-case-present", p.InstrPos(sel), "the back-off select has a procRunCtx.Done() case", "the back-off wait cannot be interrupted by a stop request (no procRunCtx.Done() case)")
			}
			if len(sels) == 0 && !bad {
				c.Note("back-off wait is a time.Sleep: not interruptible by stop")
			}
		}
		// no-restart edge: launch not reachable
		for _, g := range stopEdges {
			start := g.If.Block().Succs[g.Succ]
			vis := Reach([]Pt{{start, 0}}, nil, nil)
			ok := true
			for in := range vis {
				if launch.MayAt(in) {
					ok = false
				}
			}
			c.Check(ok, rWait, p.FuncKey(run)+":no-restart-edge", p.InstrPos(g.If), "when the decision is negative the launch is not reachable", "the launch is reachable although the restart decision was negative")
		}
	}
	c.Floor(rWait, 3, "restart edge in the run loop")

	// ------------------------------------------------------------------ (4)
	rCnt := c.Rule("restart-counter", "ProcessState.Restarts is written only by Restarts+1, dominated by the restart edge, exactly once on every path from that edge to the next launch (plus zero initialisation)")
	nInc := 0
	for _, f := range p.Funcs {
		for _, in := range DirectSites(f, StoreTo("Restarts", s.FRestarts)) {
			v, _ := StoredValue(in, s.FRestarts)
			if z, ok := ConstInt(v); ok && z == 0 {
				continue // initialisation
			}
			isInc := false
			if bo, ok := v.(*ssa.BinOp); ok && bo.Op == token.ADD {
				if one, ok := ConstInt(bo.Y); ok && one == 1 && PathOf(bo.X).LastField() == s.FRestarts {
					isInc = true
				}
			}
			if !c.Check(isInc && f == run, rCnt, "store:"+p.FuncKey(f), p.InstrPos(in), "Restarts is incremented by one in the run loop", "Restarts is written by something other than Restarts+1 in the run loop") {
				continue
			}
			nInc++
			dominated := false
			for _, dc := range decCalls {
				re, _ := boolResultEdges(dc.(*ssa.Call))
				for _, g := range re {
					if EdgeDominates(g.If.Block(), g.Succ, in.Block()) {
						dominated = true
					}
				}
			}
			c.Check(dominated, rCnt, "store-on-restart-edge:"+p.FuncKey(f), p.InstrPos(in), "the increment is dominated by the restart edge", "the restart counter is incremented on a path that does not relaunch")
		}
	}
	// every path restart-edge -> launch passes the increment
	for _, dc := range decCalls {
		re, _ := boolResultEdges(dc.(*ssa.Call))
		inc := p.Deep(StoreTo("Restarts", s.FRestarts))
		for _, g := range re {
			start := g.If.Block().Succs[g.Succ]
			vis := Reach([]Pt{{start, 0}}, inc.MustAt, nil)
			ok := true
			for in := range vis {
				if !inc.MustAt(in) && launch.MayAt(in) {
					ok = false
				}
			}
			c.Check(ok, rCnt, "every-relaunch-counted:"+p.FuncKey(run), p.InstrPos(g.If), "every relaunch path increments the counter", "a relaunch path does not increment the restart counter")
		}
	}
	c.Check(nInc == 1, rCnt, "single-increment", FirstPos(p, run), "exactly one increment site", fmt.Sprintf("%d increment sites of Restarts", nInc))

	// ------------------------------------------------------------------ (5)
	s.checkStopSetsFlagFirst(c, "stop-sets-flag-first")
	s.checkShutdownFlagsAllFirst(c, "shutdown-flags-all-first")

	// ------------------------------------------------------------------ (6)
	s.checkStopCoreTable(c, "internal-stop-keeps-policy", "internal")
}

// backoffFuncs: Process methods returning time.Duration that read BackoffSeconds.
func (s *Sel) backoffFuncs() []*ssa.Function {
	var out []*ssa.Function
	for _, f := range s.p.FuncsOfPkg("app") {
		if !s.IsProcessMethod(f) || f.Parent() != nil {
			continue
		}
		res := f.Signature.Results()
		if res.Len() != 1 || res.At(0).Type().String() != "time.Duration" {
			continue
		}
		if len(FindInstrs(f, func(in ssa.Instruction) bool { return IsLoadOf(in, s.FBackoff) })) > 0 {
			out = append(out, f)
		}
	}
	return out
}

func (s *Sel) isBackoffValue(v ssa.Value, backoffFns []*ssa.Function) bool {
	call, ok := stripConv(v).(*ssa.Call)
	if !ok {
		return false
	}
	sc := call.Call.StaticCallee()
	for _, bf := range backoffFns {
		if sc == bf {
			return true
		}
	}
	return false
}

// isTimerOfBackoff: ch is time.After(backoff()).
func (s *Sel) isTimerOfBackoff(ch ssa.Value, backoffFns []*ssa.Function) bool {
	call, ok := ch.(*ssa.Call)
	if !ok {
		return false
	}
	o := CalleeObj(&call.Call)
	if o == nil || o.Pkg() == nil || o.Pkg().Path() != "time" || o.Name() != "After" || len(call.Call.Args) != 1 {
		return false
	}
	return s.isBackoffValue(call.Call.Args[0], backoffFns)
}

// boolResultEdges returns the guard edges on which the boolean result of call
// is true resp. false.
func boolResultEdges(call *ssa.Call) (trueEdges, falseEdges []Guard) {
	f := call.Parent()
	for _, b := range f.Blocks {
		ifi := IfOf(b)
		if ifi == nil {
			continue
		}
		v, pos := BoolCond(ifi.Cond)
		if stripConv(v) != ssa.Value(call) {
			continue
		}
		if pos {
			trueEdges = append(trueEdges, Guard{ifi, 0})
			falseEdges = append(falseEdges, Guard{ifi, 1})
		} else {
			trueEdges = append(trueEdges, Guard{ifi, 1})
			falseEdges = append(falseEdges, Guard{ifi, 0})
		}
	}
	return
}

// selectCaseEdge builds an edge filter that follows only the dispatch edges
// consistent with "select chose state idx".
func selectCaseEdge(sel *ssa.Select, idx int) EdgeFilter {
	return func(from *ssa.BasicBlock, succ int) bool {
		ifi := IfOf(from)
		if ifi == nil {
			return true
		}
		cmp, ok := CondCmp(ifi.Cond)
		if !ok || cmp.Op != token.EQL && cmp.Op != token.NEQ {
			return true
		}
		isIdx := func(v ssa.Value) bool {
			ex, ok := v.(*ssa.Extract)
			return ok && ex.Tuple == ssa.Value(sel) && ex.Index == 0
		}
		var k ssa.Value
		if isIdx(cmp.X) {
			k = cmp.Y
		} else if isIdx(cmp.Y) {
			k = cmp.X
		} else {
			return true
		}
		ci, ok := ConstInt(k)
		if !ok {
			return true
		}
		equalOnEdge := (cmp.Op == token.EQL) == (succ == 0)
		if int(ci) == idx {
			return equalOnEdge
		}
		return !equalOnEdge
	}
}
