package pcv

import (
	"fmt"
	"os"
	"go/constant"
	"go/token"
	"go/types"
	"sort"
	"strconv"
	"strings"

	"golang.org/x/tools/go/ssa"
)

// ---------------------------------------------------------------------------
// Decision-table extraction (rule kind K6).
//
// A function (with its repository callees inlined) is evaluated abstractly
// over a *finite partition* of its inputs. Inputs are discovered on demand:
// every memory cell the code loads, every result of a call that is not
// inlined, every parameter is a symbolic source; a source is given a value
// only when a branch, comparison or arithmetic operation forces it, and then
// every value of its finite domain is explored (booleans: both; strings: the
// constants the code compares with plus "" and an "other" value; integers: a
// window around the constants it is compared with, wide enough to realise
// every ordering of the compared quantities). The result is a decision tree
// whose leaves carry the outcome (returned values, ordered effect calls,
// final stores). The specification is a Go function over the same sources,
// written from the property statement; every leaf is compared with it for all
// completions of the sources the leaf did not consult. Nothing of the
// repository is executed: the evaluator interprets the SSA form over the
// abstract values.

type avKind int

const (
	avConst avKind = iota
	avNil
	avLazy   // symbolic source, not yet forced
	avAddr   // address of memory cell Key
	avStruct // struct value stored at cell Key (by reference)
	avSlice  // slice over cells Key[0..Len)
	avFunc   // function value
	avTuple
	avOpaque
)

// AV is an abstract value.
type AV struct {
	K      avKind
	C      constant.Value
	Key    string // cell key (Addr/Struct/Slice) or source key (Lazy)
	T      types.Type
	Len    int
	Fn     *ssa.Function
	Bind   []AV
	Tup    []AV
	Origin string // symbolic description, valuation independent
}

func (a AV) String() string {
	switch a.K {
	case avConst:
		return a.C.ExactString()
	case avNil:
		return "nil"
	case avLazy:
		return "$" + a.Key
	case avAddr:
		return "&" + a.Key
	case avStruct:
		return "{" + a.Key + "}"
	case avSlice:
		return fmt.Sprintf("%s[:%d]", a.Key, a.Len)
	case avFunc:
		if a.Fn != nil {
			return "func:" + a.Fn.Name()
		}
		return "func"
	case avTuple:
		var s []string
		for _, t := range a.Tup {
			s = append(s, t.String())
		}
		return "(" + strings.Join(s, ",") + ")"
	}
	if a.Origin != "" {
		return "?" + a.Origin
	}
	return "?"
}

// Leaf is one row of the extracted table.
type Leaf struct {
	Val     map[string]constant.Value // the sources consulted on this path
	Order   []string                  // order in which sources were consulted
	Returns []AV
	Effects []Effect
	Mem     map[string]AV // final values of stored cells
	Panics  bool
	Err     string // evaluation failed (unsupported construct)
}

// Effect is a call that was not inlined (or a go/send/close operation).
type Effect struct {
	Name string
	Args []AV
	Pos  token.Pos
}

func (e Effect) String() string {
	var s []string
	for _, a := range e.Args {
		s = append(s, a.String())
	}
	return e.Name + "(" + strings.Join(s, ",") + ")"
}

// TableSpec configures an extraction.
type TableSpec struct {
	Fn *ssa.Function
	// Rename maps raw source keys to stable names used by the specification.
	// It is tried on every raw key; the first non-empty answer wins.
	Rename func(raw string) string
	// StopAt lists callees that are not inlined; their call is recorded as an
	// effect with the given name and their results become sources.
	StopAt func(callee *ssa.Function, c *ssa.CallCommon) (name string, stop bool)
	// ExternEffect names calls of functions without body (or dynamic calls)
	// that must be recorded as effects; others are ignored as effects but
	// their results still become sources when used.
	ExternEffect func(obj *types.Func, c *ssa.CallCommon) (name string, record bool)
	// Domain overrides the default domain of a source.
	Domain func(key string, t types.Type) []constant.Value
	// Args presets the parameters (by index, receiver first).
	Args map[int]AV
	// MaxLeaves bounds the exploration.
	MaxLeaves int
	// ExtraStrings extends the string domain.
	ExtraStrings []string
	// ExtraInts extends the int domain.
	ExtraInts []int64
	// Inline depth bound (default 5).
	Depth int
	// Focus, when set, lists the (renamed) sources that get their full
	// domain; every other source gets a two-point domain ("" / other string,
	// 0 / 1, plus both booleans), which keeps the tree small while still
	// exposing a dependency of the outcome on such a source.
	Focus map[string]bool
}

// OtherString is the representative of "any string not compared with".
const OtherString = "\x00other"

type needSource struct {
	key string
	t   types.Type
}

type evalAbort struct{ msg string }

type evaluator struct {
	p       *Prog
	spec    *TableSpec
	val     map[string]constant.Value
	order   []string
	mem     map[string]AV
	stored  map[string]bool
	effects []Effect
	steps   int
	allocN  int
	strs    []string
	ints    []int64
	callN   map[string]int
}

// ExtractTable explores the decision tree of spec.Fn.
func (p *Prog) ExtractTable(spec *TableSpec) ([]Leaf, error) {
	if spec.Depth == 0 {
		spec.Depth = 5
	}
	if spec.MaxLeaves == 0 {
		spec.MaxLeaves = 20000
	}
	strs, ints := p.scanConstants(spec.Fn, spec.Depth)
	for _, s := range spec.ExtraStrings {
		strs[s] = true
	}
	strs[""] = true
	strs[OtherString] = true
	for _, i := range spec.ExtraInts {
		ints[i] = true
	}
	base := []int64{}
	for i := range ints {
		base = append(base, i)
	}
	for _, i := range base {
		ints[i-1] = true
		ints[i+1] = true
	}
	for _, i := range []int64{-1, 0, 1, 2, 3} {
		ints[i] = true
	}
	var sl []string
	for s := range strs {
		sl = append(sl, s)
	}
	sort.Strings(sl)
	var il []int64
	for i := range ints {
		il = append(il, i)
	}
	sort.Slice(il, func(a, b int) bool { return il[a] < il[b] })

	var leaves []Leaf
	var explore func(val map[string]constant.Value, order []string) error
	explore = func(val map[string]constant.Value, order []string) error {
		if len(leaves) > spec.MaxLeaves {
			return fmt.Errorf("decision table of %s exceeds %d leaves", p.FuncKey(spec.Fn), spec.MaxLeaves)
		}
		ev := &evaluator{p: p, spec: spec, val: val, mem: map[string]AV{}, stored: map[string]bool{}, strs: sl, ints: il, callN: map[string]int{}}
		leaf, need := ev.run()
		if need != nil {
			dom := ev.domain(need.key, need.t)
			if len(dom) == 0 {
				return fmt.Errorf("no finite domain for source %s of type %v", need.key, need.t)
			}
			for _, d := range dom {
				nv := map[string]constant.Value{}
				for k, v := range val {
					nv[k] = v
				}
				nv[need.key] = d
				if err := explore(nv, append(append([]string{}, order...), need.key)); err != nil {
					return err
				}
			}
			return nil
		}
		leaf.Val = val
		leaf.Order = order
		if os.Getenv("PCV_DEBUG_TABLE") != "" {
			fmt.Fprintf(os.Stderr, "leaf %s: %s => ret=%v eff=%v err=%s\n", p.FuncKey(spec.Fn), valString(val), leaf.Returns, leaf.EffectNames(), leaf.Err)
		}
		leaves = append(leaves, *leaf)
		return nil
	}
	if err := explore(map[string]constant.Value{}, nil); err != nil {
		return leaves, err
	}
	return leaves, nil
}

// scanConstants collects the string and integer constants compared in f and
// its static repository callees.
func (p *Prog) scanConstants(f *ssa.Function, depth int) (map[string]bool, map[int64]bool) {
	strs, ints := map[string]bool{}, map[int64]bool{}
	seen := map[*ssa.Function]bool{}
	var visit func(g *ssa.Function, d int)
	visit = func(g *ssa.Function, d int) {
		if g == nil || seen[g] || g.Blocks == nil || d > depth {
			return
		}
		seen[g] = true
		AllInstrs(g, func(in ssa.Instruction) {
			switch x := in.(type) {
			case *ssa.BinOp:
				for _, o := range []ssa.Value{x.X, x.Y} {
					if s, ok := ConstString(o); ok {
						strs[s] = true
					}
					if i, ok := ConstInt(o); ok && i > -1000 && i < 100000 {
						ints[i] = true
					}
				}
			case *ssa.Call:
				fns, _ := p.Callees(&x.Call, false)
				inRepo := false
				for _, fn := range fns {
					if p.InRepo(fn) {
						inRepo = true
						visit(fn, d+1)
					}
				}
				if inRepo {
					for _, a := range x.Call.Args {
						if s, ok := ConstString(a); ok && len(s) < 40 {
							strs[s] = true
						}
					}
				}
			case *ssa.Store:
				if s, ok := ConstString(x.Val); ok && len(s) < 64 {
					strs[s] = true
				}
			case *ssa.MakeClosure:
				visit(x.Fn.(*ssa.Function), d+1)
			}
		})
		for _, an := range g.AnonFuncs {
			visit(an, d+1)
		}
	}
	visit(f, 0)
	return strs, ints
}

func (ev *evaluator) domain(key string, t types.Type) []constant.Value {
	if ev.spec.Domain != nil {
		if d := ev.spec.Domain(key, t); d != nil {
			return d
		}
	}
	if strings.HasPrefix(key, "nil:") || strings.HasPrefix(key, "nonempty:") {
		return []constant.Value{constant.MakeBool(false), constant.MakeBool(true)}
	}
	if ev.spec.Focus != nil && !ev.spec.Focus[key] && !strings.HasPrefix(key, "select:") {
		if b, ok := t.Underlying().(*types.Basic); ok {
			switch {
			case b.Info()&types.IsString != 0:
				return []constant.Value{constant.MakeString(""), constant.MakeString(OtherString)}
			case b.Info()&types.IsInteger != 0:
				return []constant.Value{constant.MakeInt64(0), constant.MakeInt64(1)}
			}
		}
	}
	if strings.HasPrefix(key, "len:") {
		return []constant.Value{constant.MakeInt64(0), constant.MakeInt64(1), constant.MakeInt64(2)}
	}
	if strings.HasPrefix(key, "select:") {
		n, _ := strconv.Atoi(key[strings.LastIndex(key, "/")+1:])
		var out []constant.Value
		for i := 0; i < n; i++ {
			out = append(out, constant.MakeInt64(int64(i)))
		}
		return out
	}
	b, ok := t.Underlying().(*types.Basic)
	if !ok {
		return nil
	}
	switch {
	case b.Info()&types.IsBoolean != 0:
		return []constant.Value{constant.MakeBool(false), constant.MakeBool(true)}
	case b.Info()&types.IsString != 0:
		var out []constant.Value
		for _, s := range ev.strs {
			out = append(out, constant.MakeString(s))
		}
		return out
	case b.Info()&types.IsInteger != 0:
		var out []constant.Value
		for _, i := range ev.ints {
			if b.Info()&types.IsUnsigned != 0 && i < 0 {
				continue
			}
			out = append(out, constant.MakeInt64(i))
		}
		return out
	}
	return nil
}

func (ev *evaluator) rename(raw string) string {
	if ev.spec.Rename != nil {
		if n := ev.spec.Rename(raw); n != "" {
			return n
		}
	}
	return raw
}

// run evaluates the function once under ev.val. It returns either a leaf or
// the source that must be given a value first.
func (ev *evaluator) run() (leaf *Leaf, need *needSource) {
	defer func() {
		if r := recover(); r != nil {
			switch x := r.(type) {
			case *needSource:
				leaf, need = nil, x
			case *evalAbort:
				leaf = &Leaf{Err: x.msg, Effects: ev.effects, Mem: ev.finalMem()}
			default:
				panic(r)
			}
		}
	}()
	f := ev.spec.Fn
	var args []AV
	for i, prm := range f.Params {
		if a, ok := ev.spec.Args[i]; ok {
			args = append(args, a)
			continue
		}
		args = append(args, ev.paramValue(fmt.Sprintf("p%d", i), prm.Type()))
	}
	var fvs []AV
	for i, fv := range f.FreeVars {
		fvs = append(fvs, ev.paramValue(fmt.Sprintf("fv%d", i), fv.Type()))
	}
	rets, panics := ev.call(f, args, fvs, 0)
	for i := range rets {
		rets[i] = ev.resolve(rets[i])
	}
	for i := range ev.effects {
		for j := range ev.effects[i].Args {
			ev.effects[i].Args[j] = ev.resolve(ev.effects[i].Args[j])
		}
	}
	return &Leaf{Returns: rets, Effects: ev.effects, Mem: ev.finalMem(), Panics: panics}, nil
}

func (ev *evaluator) finalMem() map[string]AV {
	out := map[string]AV{}
	for k := range ev.stored {
		out[ev.rename(k)] = ev.resolve(ev.mem[k])
	}
	return out
}

// resolve replaces a lazy source by its constant when the valuation of this
// path fixed it (without demanding it otherwise), and renames it.
func (ev *evaluator) resolve(a AV) AV {
	if a.K == avLazy {
		name := ev.rename(a.Key)
		if v, ok := ev.val[name]; ok {
			return AV{K: avConst, C: v, T: a.T, Origin: a.Origin}
		}
		a.Key = name
	}
	return a
}

// paramValue builds the abstract value of an input of the given type rooted at key.
func (ev *evaluator) paramValue(key string, t types.Type) AV {
	switch u := t.Underlying().(type) {
	case *types.Pointer:
		return AV{K: avAddr, Key: key, T: u.Elem(), Origin: key}
	case *types.Struct:
		return AV{K: avStruct, Key: key, T: t, Origin: key}
	case *types.Basic:
		return AV{K: avLazy, Key: key, T: t, Origin: key}
	case *types.Slice:
		return AV{K: avOpaque, Key: key, T: t, Origin: key}
	case *types.Signature:
		return AV{K: avOpaque, Key: key, T: t, Origin: key}
	}
	return AV{K: avOpaque, Key: key, T: t, Origin: key}
}

func (ev *evaluator) abort(format string, a ...any) {
	panic(&evalAbort{fmt.Sprintf(format, a...)})
}

// force turns a lazy source into a constant under the current valuation.
func (ev *evaluator) force(a AV) AV {
	if a.K != avLazy {
		return a
	}
	name := ev.rename(a.Key)
	if v, ok := ev.val[name]; ok {
		return AV{K: avConst, C: v, T: a.T, Origin: a.Origin}
	}
	panic(&needSource{key: name, t: a.T})
}

func (ev *evaluator) demandBool(key string) bool {
	name := ev.rename(key)
	if v, ok := ev.val[name]; ok {
		return constant.BoolVal(v)
	}
	panic(&needSource{key: name, t: types.Typ[types.Bool]})
}

func (ev *evaluator) demandInt(key string) int64 {
	name := ev.rename(key)
	if v, ok := ev.val[name]; ok {
		i, _ := constant.Int64Val(v)
		return i
	}
	panic(&needSource{key: name, t: types.Typ[types.Int]})
}

// load reads a memory cell.
func (ev *evaluator) load(key string, t types.Type) AV {
	if v, ok := ev.mem[key]; ok {
		return v
	}
	var v AV
	switch u := t.Underlying().(type) {
	case *types.Basic:
		v = AV{K: avLazy, Key: key, T: t, Origin: key}
	case *types.Pointer:
		v = AV{K: avAddr, Key: key, T: u.Elem(), Origin: key}
	case *types.Struct:
		v = AV{K: avStruct, Key: key, T: t, Origin: key}
	default:
		v = AV{K: avOpaque, Key: key, T: t, Origin: key}
	}
	ev.mem[key] = v
	return v
}

type frame struct {
	fn    *ssa.Function
	env   map[ssa.Value]AV
	defer_ []*ssa.Defer
	deferArgs [][]AV
	deferFns  []AV
}

func (ev *evaluator) call(f *ssa.Function, args []AV, fvs []AV, depth int) (rets []AV, panics bool) {
	if f.Blocks == nil {
		ev.abort("call of function without body %s", f.Name())
	}
	fr := &frame{fn: f, env: map[ssa.Value]AV{}}
	for i, prm := range f.Params {
		if i < len(args) {
			fr.env[prm] = args[i]
		}
	}
	for i, fv := range f.FreeVars {
		if i < len(fvs) {
			fr.env[fv] = fvs[i]
		}
	}
	var prev *ssa.BasicBlock
	b := f.Blocks[0]
	for {
		var next *ssa.BasicBlock
		for _, in := range b.Instrs {
			ev.steps++
			if ev.steps > 200000 {
				ev.abort("step bound exceeded in %s (unbounded loop?)", ev.p.FuncKey(f))
			}
			switch x := in.(type) {
			case *ssa.Phi:
				for i, pr := range b.Preds {
					if pr == prev {
						fr.env[x] = ev.get(fr, x.Edges[i])
					}
				}
			case *ssa.If:
				c := ev.force(ev.get(fr, x.Cond))
				if c.K != avConst {
					ev.abort("branch on non-constant %s at %s", c, ev.p.InstrPos(in))
				}
				if constant.BoolVal(c.C) {
					next = b.Succs[0]
				} else {
					next = b.Succs[1]
				}
			case *ssa.Jump:
				next = b.Succs[0]
			case *ssa.Return:
				var out []AV
				for _, r := range x.Results {
					out = append(out, ev.get(fr, r))
				}
				return out, false
			case *ssa.Panic:
				return nil, true
			case *ssa.RunDefers:
				for i := len(fr.defer_) - 1; i >= 0; i-- {
					ev.doCall(fr, &fr.defer_[i].Call, fr.defer_[i], depth, fr.deferFns[i], fr.deferArgs[i])
				}
			case *ssa.Defer:
				fr.defer_ = append(fr.defer_, x)
				var as []AV
				for _, a := range x.Call.Args {
					as = append(as, ev.get(fr, a))
				}
				fr.deferArgs = append(fr.deferArgs, as)
				var fv AV
				if !x.Call.IsInvoke() {
					if _, isB := x.Call.Value.(*ssa.Builtin); !isB {
						if _, isF := x.Call.Value.(*ssa.Function); !isF {
							fv = ev.get(fr, x.Call.Value)
						}
					}
				}
				fr.deferFns = append(fr.deferFns, fv)
			case *ssa.Go:
				var as []AV
				for _, a := range x.Call.Args {
					as = append(as, ev.get(fr, a))
				}
				name := "go"
				if sc := x.Call.StaticCallee(); sc != nil {
					name = "go:" + ev.p.FuncKey(sc)
				}
				ev.effects = append(ev.effects, Effect{Name: name, Args: as, Pos: x.Pos()})
			case *ssa.Store:
				addr := ev.get(fr, x.Addr)
				v := ev.get(fr, x.Val)
				if addr.K != avAddr {
					ev.abort("store through non-address %s at %s", addr, ev.p.InstrPos(in))
				}
				ev.mem[addr.Key] = v
				ev.stored[addr.Key] = true
			case *ssa.Send:
				ch := ev.get(fr, x.Chan)
				ev.effects = append(ev.effects, Effect{Name: "send:" + ev.rename(ch.Origin), Args: []AV{ev.get(fr, x.X)}, Pos: x.Pos()})
			case *ssa.MapUpdate:
				m := ev.get(fr, x.Map)
				ev.effects = append(ev.effects, Effect{Name: "mapupdate:" + ev.rename(m.Origin), Args: []AV{ev.get(fr, x.Key), ev.get(fr, x.Value)}, Pos: x.Pos()})
			case *ssa.DebugRef:
			case ssa.Value:
				fr.env[x] = ev.evalValue(fr, x, depth)
			default:
				ev.abort("unsupported instruction %T at %s", in, ev.p.InstrPos(in))
			}
		}
		if next == nil {
			ev.abort("fell off block %d of %s", b.Index, ev.p.FuncKey(f))
		}
		prev, b = b, next
	}
}

func (ev *evaluator) get(fr *frame, v ssa.Value) AV {
	switch x := v.(type) {
	case *ssa.Const:
		if x.Value == nil {
			// zero value
			switch u := x.Type().Underlying().(type) {
			case *types.Basic:
				switch {
				case u.Info()&types.IsBoolean != 0:
					return AV{K: avConst, C: constant.MakeBool(false), T: x.Type()}
				case u.Info()&types.IsString != 0:
					return AV{K: avConst, C: constant.MakeString(""), T: x.Type()}
				case u.Info()&types.IsNumeric != 0:
					return AV{K: avConst, C: constant.MakeInt64(0), T: x.Type()}
				}
			}
			return AV{K: avNil, T: x.Type(), Origin: "nil"}
		}
		return AV{K: avConst, C: x.Value, T: x.Type(), Origin: x.Value.ExactString()}
	case *ssa.Function:
		return AV{K: avFunc, Fn: x, T: x.Type(), Origin: ev.p.FuncKey(x)}
	case *ssa.Global:
		return AV{K: avAddr, Key: "g:" + x.Pkg.Pkg.Name() + "." + x.Name(), T: x.Type().(*types.Pointer).Elem(), Origin: "g:" + x.Pkg.Pkg.Name() + "." + x.Name()}
	case *ssa.Builtin:
		return AV{K: avOpaque, Origin: "builtin:" + x.Name()}
	}
	if a, ok := fr.env[v]; ok {
		return a
	}
	ev.abort("use of unevaluated value %s (%T) in %s", v.Name(), v, ev.p.FuncKey(fr.fn))
	return AV{}
}

func (ev *evaluator) evalValue(fr *frame, v ssa.Value, depth int) AV {
	switch x := v.(type) {
	case *ssa.Alloc:
		ev.allocN++
		key := fmt.Sprintf("alloc%d:%s", ev.allocN, x.Comment)
		elem := x.Type().(*types.Pointer).Elem()
		// zero-initialise basic cells lazily: mark as zero
		ev.zeroInit(key, elem)
		return AV{K: avAddr, Key: key, T: elem, Origin: key}
	case *ssa.FieldAddr:
		base := ev.get(fr, x.X)
		st := derefStruct(x.X.Type())
		fld := st.Field(x.Field)
		switch base.K {
		case avAddr, avStruct:
			k := base.Key + "." + fld.Name()
			return AV{K: avAddr, Key: k, T: fld.Type(), Origin: k}
		case avNil:
			ev.abort("nil dereference at %s", ev.p.InstrPos(x))
		}
		ev.abort("field address of %s at %s", base, ev.p.InstrPos(x))
	case *ssa.Field:
		base := ev.get(fr, x.X)
		st, _ := x.X.Type().Underlying().(*types.Struct)
		fld := st.Field(x.Field)
		if base.K == avStruct || base.K == avAddr {
			return ev.load(base.Key+"."+fld.Name(), fld.Type())
		}
		if base.K == avTuple {
			ev.abort("field of tuple")
		}
		return AV{K: avOpaque, T: fld.Type(), Origin: base.Origin + "." + fld.Name()}
	case *ssa.IndexAddr:
		base := ev.get(fr, x.X)
		idx := ev.force(ev.get(fr, x.Index))
		if idx.K != avConst {
			ev.abort("non-constant index at %s", ev.p.InstrPos(x))
		}
		i, _ := constant.Int64Val(idx.C)
		var et types.Type
		switch t := x.X.Type().Underlying().(type) {
		case *types.Pointer:
			et = t.Elem().Underlying().(*types.Array).Elem()
		case *types.Slice:
			et = t.Elem()
		}
		switch base.K {
		case avAddr, avSlice:
			k := fmt.Sprintf("%s[%d]", base.Key, i)
			return AV{K: avAddr, Key: k, T: et, Origin: k}
		}
		k := fmt.Sprintf("%s[%d]", base.Origin, i)
		return AV{K: avAddr, Key: k, T: et, Origin: k}
	case *ssa.Slice:
		base := ev.get(fr, x.X)
		if base.K == avAddr {
			if arr, ok := base.T.Underlying().(*types.Array); ok && x.Low == nil && x.High == nil {
				return AV{K: avSlice, Key: base.Key, Len: int(arr.Len()), T: x.Type(), Origin: base.Origin}
			}
		}
		return AV{K: avOpaque, T: x.Type(), Origin: base.Origin + "[:]", Key: base.Key}
	case *ssa.UnOp:
		a := ev.get(fr, x.X)
		switch x.Op {
		case token.MUL:
			switch a.K {
			case avAddr:
				return ev.load(a.Key, x.Type())
			case avNil:
				ev.abort("nil dereference at %s", ev.p.InstrPos(x))
			}
			ev.abort("load through %s at %s", a, ev.p.InstrPos(x))
		case token.NOT:
			a = ev.force(a)
			if a.K == avConst {
				return AV{K: avConst, C: constant.MakeBool(!constant.BoolVal(a.C)), T: x.Type()}
			}
			ev.abort("negation of %s", a)
		case token.SUB:
			a = ev.force(a)
			if a.K == avConst {
				return AV{K: avConst, C: constant.UnaryOp(token.SUB, a.C, 0), T: x.Type(), Origin: "-" + a.Origin}
			}
			ev.abort("negation of %s", a)
		case token.ARROW:
			ev.effects = append(ev.effects, Effect{Name: "recv:" + ev.rename(a.Origin), Pos: x.Pos()})
			return AV{K: avOpaque, T: x.Type(), Origin: "<-" + a.Origin}
		}
		ev.abort("unsupported unary op %s", x.Op)
	case *ssa.BinOp:
		return ev.binop(fr, x)
	case *ssa.Convert:
		a := ev.get(fr, x.X)
		if a.K == avConst {
			// int <-> int64 / duration conversions keep the value
			bt, ok := x.Type().Underlying().(*types.Basic)
			if ok && bt.Info()&types.IsNumeric != 0 && a.C.Kind() == constant.Int {
				return AV{K: avConst, C: a.C, T: x.Type(), Origin: a.Origin}
			}
			if ok && bt.Info()&types.IsString != 0 && a.C.Kind() == constant.String {
				return AV{K: avConst, C: a.C, T: x.Type(), Origin: a.Origin}
			}
			return AV{K: avOpaque, T: x.Type(), Origin: "conv(" + a.Origin + ")"}
		}
		if a.K == avLazy {
			// keep the source identity through numeric/string conversions
			b1, ok1 := x.X.Type().Underlying().(*types.Basic)
			b2, ok2 := x.Type().Underlying().(*types.Basic)
			if ok1 && ok2 && ((b1.Info()&types.IsInteger != 0 && b2.Info()&types.IsInteger != 0) || (b1.Info()&types.IsString != 0 && b2.Info()&types.IsString != 0)) {
				return AV{K: avLazy, Key: a.Key, T: a.T, Origin: a.Origin}
			}
		}
		a.T = x.Type()
		return a
	case *ssa.ChangeType:
		a := ev.get(fr, x.X)
		return a
	case *ssa.ChangeInterface:
		return ev.get(fr, x.X)
	case *ssa.MakeInterface:
		return ev.get(fr, x.X)
	case *ssa.TypeAssert:
		a := ev.get(fr, x.X)
		if x.CommaOk {
			return AV{K: avTuple, Tup: []AV{a, {K: avLazy, Key: "typeassert:" + a.Origin, T: types.Typ[types.Bool], Origin: "typeassert:" + a.Origin}}}
		}
		return a
	case *ssa.MakeClosure:
		var bind []AV
		for _, b := range x.Bindings {
			bind = append(bind, ev.get(fr, b))
		}
		fn := x.Fn.(*ssa.Function)
		return AV{K: avFunc, Fn: fn, Bind: bind, T: x.Type(), Origin: ev.p.FuncKey(fn)}
	case *ssa.Extract:
		t := ev.get(fr, x.Tuple)
		if t.K == avTuple && x.Index < len(t.Tup) {
			return t.Tup[x.Index]
		}
		return AV{K: avLazy, Key: fmt.Sprintf("%s#%d", t.Origin, x.Index), T: x.Type(), Origin: fmt.Sprintf("%s#%d", t.Origin, x.Index)}
	case *ssa.Call:
		return ev.doCall(fr, &x.Call, x, depth, AV{}, nil)
	case *ssa.Lookup:
		m := ev.get(fr, x.X)
		k := ev.get(fr, x.Index)
		o := fmt.Sprintf("%s[%s]", m.Origin, k.Origin)
		if x.CommaOk {
			return AV{K: avTuple, Tup: []AV{ev.paramValue(o, x.Type().(*types.Tuple).At(0).Type()), {K: avLazy, Key: "has:" + o, T: types.Typ[types.Bool], Origin: "has:" + o}}}
		}
		return ev.paramValue(o, x.Type())
	case *ssa.MakeMap, *ssa.MakeChan, *ssa.MakeSlice:
		ev.allocN++
		k := fmt.Sprintf("make%d", ev.allocN)
		return AV{K: avOpaque, T: v.Type(), Origin: k, Key: k}
	case *ssa.Select:
		n := len(x.States)
		if !x.Blocking {
			n++
		}
		var chans []string
		for _, st := range x.States {
			chans = append(chans, ev.rename(ev.get(fr, st.Chan).Origin))
		}
		key := fmt.Sprintf("select:%s/%d", strings.Join(chans, "|"), n)
		ev.callN[key]++
		if ev.callN[key] > 1 {
			key = fmt.Sprintf("select:%s@%d/%d", strings.Join(chans, "|"), ev.callN[key], n)
		}
		idx := ev.demandInt(key)
		if !x.Blocking && int(idx) == n-1 {
			idx = -1
		}
		ev.effects = append(ev.effects, Effect{Name: fmt.Sprintf("select:%d", idx), Pos: x.Pos()})
		tup := []AV{{K: avConst, C: constant.MakeInt64(idx), T: types.Typ[types.Int]}, {K: avConst, C: constant.MakeBool(true), T: types.Typ[types.Bool]}}
		for i := range x.States {
			if x.States[i].Dir == types.RecvOnly {
				tup = append(tup, AV{K: avOpaque, Origin: "selrecv"})
			}
		}
		return AV{K: avTuple, Tup: tup}
	case *ssa.Range:
		m := ev.get(fr, x.X)
		ev.allocN++
		return AV{K: avOpaque, Key: fmt.Sprintf("range%d:%s", ev.allocN, m.Origin), Origin: "range:" + m.Origin, T: x.Type()}
	case *ssa.Next:
		// collections are abstracted to at most one element: the first Next
		// of an iteration asks whether there is an element, the second ends it
		it := ev.get(fr, x.Iter)
		ev.callN["next:"+it.Key]++
		has := false
		if ev.callN["next:"+it.Key] == 1 {
			has = ev.demandBool("nonempty:" + it.Origin)
		}
		tup := []AV{{K: avConst, C: constant.MakeBool(has), T: types.Typ[types.Bool]}}
		tt := x.Type().(*types.Tuple)
		for i := 1; i < tt.Len(); i++ {
			tup = append(tup, ev.paramValue(fmt.Sprintf("%s.elem%d", it.Origin, i), tt.At(i).Type()))
		}
		return AV{K: avTuple, Tup: tup}
	}
	ev.abort("unsupported value %T at %s", v, ev.p.InstrPos(v.(ssa.Instruction)))
	return AV{}
}

func (ev *evaluator) zeroInit(key string, t types.Type) {
	switch u := t.Underlying().(type) {
	case *types.Basic:
		switch {
		case u.Info()&types.IsBoolean != 0:
			ev.mem[key] = AV{K: avConst, C: constant.MakeBool(false), T: t}
		case u.Info()&types.IsString != 0:
			ev.mem[key] = AV{K: avConst, C: constant.MakeString(""), T: t}
		case u.Info()&types.IsNumeric != 0:
			ev.mem[key] = AV{K: avConst, C: constant.MakeInt64(0), T: t}
		}
	case *types.Pointer, *types.Interface, *types.Slice, *types.Map, *types.Signature, *types.Chan:
		ev.mem[key] = AV{K: avNil, T: t}
	case *types.Array:
		if u.Len() < 64 {
			for i := int64(0); i < u.Len(); i++ {
				ev.zeroInit(fmt.Sprintf("%s[%d]", key, i), u.Elem())
			}
		}
	}
}

func (ev *evaluator) binop(fr *frame, x *ssa.BinOp) AV {
	a, b := ev.get(fr, x.X), ev.get(fr, x.Y)
	isCmp := false
	switch x.Op {
	case token.EQL, token.NEQ, token.LSS, token.LEQ, token.GTR, token.GEQ:
		isCmp = true
	}
	// nil comparisons
	if isCmp && (a.K == avNil || b.K == avNil) {
		other := a
		if a.K == avNil {
			other = b
		}
		var isNil bool
		switch other.K {
		case avNil:
			isNil = true
		case avFunc:
			isNil = false
		case avAddr, avStruct, avOpaque, avSlice:
			if strings.HasPrefix(other.Key, "alloc") || strings.HasPrefix(other.Key, "make") {
				isNil = false
			} else {
				k := other.Key
				if k == "" {
					k = other.Origin
				}
				isNil = ev.demandBool("nil:" + k)
			}
		case avLazy:
			isNil = ev.demandBool("nil:" + other.Key)
		default:
			ev.abort("nil comparison of %s", other)
		}
		res := isNil
		if x.Op == token.NEQ {
			res = !isNil
		}
		return AV{K: avConst, C: constant.MakeBool(res), T: x.Type()}
	}
	if isCmp && a.K == avLazy && b.K == avLazy && a.Key == b.Key {
		res := x.Op == token.EQL || x.Op == token.LEQ || x.Op == token.GEQ
		return AV{K: avConst, C: constant.MakeBool(res), T: x.Type()}
	}
	if isCmp && (a.K == avAddr || a.K == avFunc) && (b.K == avAddr || b.K == avFunc) {
		eq := a.Key == b.Key && a.Fn == b.Fn
		if a.Key != b.Key && !strings.HasPrefix(a.Key, "alloc") && !strings.HasPrefix(b.Key, "alloc") {
			eq = ev.demandBool("same:" + a.Key + "=" + b.Key)
		}
		if x.Op == token.NEQ {
			eq = !eq
		}
		return AV{K: avConst, C: constant.MakeBool(eq), T: x.Type()}
	}
	a, b = ev.force(a), ev.force(b)
	if a.K != avConst || b.K != avConst {
		if isCmp {
			o := fmt.Sprintf("cmp:%s%s%s", a.Origin, x.Op, b.Origin)
			return AV{K: avLazy, Key: o, T: types.Typ[types.Bool], Origin: o}
		}
		return AV{K: avOpaque, T: x.Type(), Origin: fmt.Sprintf("(%s%s%s)", a.Origin, x.Op, b.Origin)}
	}
	// "other" strings are only equal to themselves
	if isCmp {
		return AV{K: avConst, C: constant.MakeBool(constant.Compare(a.C, x.Op, b.C)), T: x.Type()}
	}
	switch x.Op {
	case token.ADD, token.SUB, token.MUL, token.QUO, token.REM, token.AND, token.OR, token.XOR:
		if a.C.Kind() == constant.String {
			if x.Op == token.ADD {
				return AV{K: avConst, C: constant.MakeString(constant.StringVal(a.C) + constant.StringVal(b.C)), T: x.Type(), Origin: a.Origin + "+" + b.Origin}
			}
			ev.abort("string op %s", x.Op)
		}
		if (x.Op == token.QUO || x.Op == token.REM) && constant.Sign(b.C) == 0 {
			ev.abort("division by zero at %s", ev.p.InstrPos(x))
		}
		op := x.Op
		if op == token.QUO && a.C.Kind() == constant.Int {
			op = token.QUO_ASSIGN // integer division
		}
		return AV{K: avConst, C: constant.BinaryOp(a.C, op, b.C), T: x.Type(), Origin: fmt.Sprintf("(%s%s%s)", a.Origin, x.Op, b.Origin)}
	case token.LAND, token.LOR:
	}
	ev.abort("unsupported binary op %s at %s", x.Op, ev.p.InstrPos(x))
	return AV{}
}

// doCall evaluates a call: inlines repository functions, records the others.
func (ev *evaluator) doCall(fr *frame, c *ssa.CallCommon, in ssa.Instruction, depth int, preFn AV, preArgs []AV) AV {
	var args []AV
	if preArgs != nil {
		args = preArgs
	} else {
		for _, a := range c.Args {
			args = append(args, ev.get(fr, a))
		}
	}
	resType := c.Signature().Results()
	mkResult := func(origin string) AV {
		ev.callN[origin]++
		if n := ev.callN[origin]; n > 1 {
			origin = fmt.Sprintf("%s@%d", origin, n)
		}
		switch resType.Len() {
		case 0:
			return AV{K: avTuple}
		case 1:
			return ev.resultValue(origin, resType.At(0).Type())
		}
		var tup []AV
		for i := 0; i < resType.Len(); i++ {
			tup = append(tup, ev.resultValue(fmt.Sprintf("%s#%d", origin, i), resType.At(i).Type()))
		}
		return AV{K: avTuple, Tup: tup, Origin: origin}
	}
	argOrigins := func(as []AV) string {
		var s []string
		for _, a := range as {
			o := a.Origin
			if a.K == avConst && a.C != nil {
				o = a.C.ExactString()
			}
			s = append(s, ev.rename(o))
		}
		return strings.Join(s, ",")
	}
	// builtins
	if bi, ok := c.Value.(*ssa.Builtin); ok {
		switch bi.Name() {
		case "len", "cap":
			a := args[0]
			switch a.K {
			case avSlice:
				return AV{K: avConst, C: constant.MakeInt64(int64(a.Len)), T: types.Typ[types.Int]}
			case avConst:
				if a.C.Kind() == constant.String {
					return AV{K: avConst, C: constant.MakeInt64(int64(len(constant.StringVal(a.C)))), T: types.Typ[types.Int]}
				}
			case avNil:
				return AV{K: avConst, C: constant.MakeInt64(0), T: types.Typ[types.Int]}
			case avLazy:
				f := ev.force(a)
				if f.K == avConst && f.C.Kind() == constant.String {
					s := constant.StringVal(f.C)
					if s == OtherString {
						return AV{K: avConst, C: constant.MakeInt64(5), T: types.Typ[types.Int]}
					}
					return AV{K: avConst, C: constant.MakeInt64(int64(len(s))), T: types.Typ[types.Int]}
				}
			}
			k := a.Key
			if k == "" {
				k = a.Origin
			}
			return AV{K: avLazy, Key: "len:" + k, T: types.Typ[types.Int], Origin: "len:" + k}
		case "close":
			ev.effects = append(ev.effects, Effect{Name: "close:" + ev.rename(args[0].Origin), Pos: in.Pos()})
			return AV{K: avTuple}
		case "delete":
			ev.effects = append(ev.effects, Effect{Name: "delete:" + ev.rename(args[0].Origin), Args: args[1:], Pos: in.Pos()})
			return AV{K: avTuple}
		case "append":
			return AV{K: avOpaque, T: resType.At(0).Type(), Origin: "append(" + argOrigins(args) + ")", Key: args[0].Key}
		case "panic":
			ev.abort("panic builtin call")
		case "print", "println":
			return AV{K: avTuple}
		}
		return mkResult("builtin:" + bi.Name() + "(" + argOrigins(args) + ")")
	}
	// resolve callee
	var callee *ssa.Function
	var bind []AV
	if c.IsInvoke() {
		recv := ev.get(fr, c.Value)
		// concrete type known?
		tys, ok := ev.p.ConcreteTypes(c.Value)
		if ok && len(tys) == 1 {
			ms := ev.p.SSA.MethodSets.MethodSet(tys[0])
			if sel := ms.Lookup(c.Method.Pkg(), c.Method.Name()); sel != nil {
				callee = ev.p.SSA.MethodValue(sel)
				args = append([]AV{recv}, args...)
			}
		}
		if callee == nil {
			name := "invoke:" + c.Method.FullName()
			if ev.spec.ExternEffect != nil {
				if n, rec := ev.spec.ExternEffect(c.Method, c); rec {
					ev.effects = append(ev.effects, Effect{Name: n, Args: append([]AV{recv}, args...), Pos: in.Pos()})
				}
			}
			return mkResult(name + "(" + ev.rename(recv.Origin) + ";" + argOrigins(args) + ")")
		}
	} else if sc := c.StaticCallee(); sc != nil {
		callee = sc
		if mc, ok := c.Value.(*ssa.MakeClosure); ok {
			for _, b := range mc.Bindings {
				bind = append(bind, ev.get(fr, b))
			}
		}
	} else {
		fv := preFn
		if fv.K == 0 && fv.Fn == nil && fv.Origin == "" {
			fv = ev.get(fr, c.Value)
		}
		if fv.K == avFunc && fv.Fn != nil {
			callee = fv.Fn
			bind = fv.Bind
		} else {
			name := "callfn:" + ev.rename(fv.Origin)
			ev.effects = append(ev.effects, Effect{Name: name, Args: args, Pos: in.Pos()})
			return mkResult(name + "(" + argOrigins(args) + ")")
		}
	}
	if ev.spec.StopAt != nil {
		if name, stop := ev.spec.StopAt(callee, c); stop {
			ev.effects = append(ev.effects, Effect{Name: name, Args: args, Pos: in.Pos()})
			return mkResult("call:" + name + "(" + argOrigins(args) + ")")
		}
	}
	if callee.Blocks == nil || !ev.p.InRepo(callee) || depth >= ev.spec.Depth {
		obj, _ := callee.Object().(*types.Func)
		name := callee.String()
		if obj != nil {
			name = obj.FullName()
		} else if callee.Origin() != nil {
			if oo, ok := callee.Origin().Object().(*types.Func); ok {
				name = oo.FullName()
				obj = oo
			}
		}
		if ev.spec.ExternEffect != nil && obj != nil {
			if n, rec := ev.spec.ExternEffect(obj, c); rec {
				ev.effects = append(ev.effects, Effect{Name: n, Args: args, Pos: in.Pos()})
			}
		}
		if depth >= ev.spec.Depth && ev.p.InRepo(callee) && callee.Blocks != nil {
			ev.abort("inline depth exceeded at %s", ev.p.FuncKey(callee))
		}
		if name == "(*sync.Once).Do" && len(args) == 2 && args[1].K == avFunc && args[1].Fn != nil && args[1].Fn.Blocks != nil {
			// library model: Once.Do(f) calls f (first call)
			ev.call(args[1].Fn, nil, args[1].Bind, depth+1)
			return AV{K: avTuple}
		}
		if v, ok := ev.libModel(name, args); ok {
			return v
		}
		return mkResult("call:" + name + "(" + argOrigins(args) + ")")
	}
	rets, panics := ev.call(callee, args, bind, depth+1)
	if panics {
		ev.abort("callee %s panics", ev.p.FuncKey(callee))
	}
	switch len(rets) {
	case 0:
		return AV{K: avTuple}
	case 1:
		return rets[0]
	}
	return AV{K: avTuple, Tup: rets}
}

// libModel gives exact results for a few pure library functions on constants.
func (ev *evaluator) libModel(name string, args []AV) (AV, bool) {
	if strings.HasPrefix(name, "slices.Contains") && len(args) == 2 && args[0].K == avSlice {
		// exact on a slice of known length: element-wise comparison
		x := ev.force(args[1])
		if x.K == avConst {
			found := false
			for i := 0; i < args[0].Len; i++ {
				e := ev.force(ev.load(fmt.Sprintf("%s[%d]", args[0].Key, i), x.T))
				if e.K != avConst {
					return AV{}, false
				}
				if constant.Compare(e.C, token.EQL, x.C) {
					found = true
				}
			}
			return AV{K: avConst, C: constant.MakeBool(found), T: types.Typ[types.Bool]}, true
		}
	}
	switch name {
	case "strings.TrimSpace":
		if len(args) == 1 {
			a := args[0]
			if a.K == avLazy {
				a = ev.force(a)
			}
			if a.K == avConst && a.C.Kind() == constant.String {
				s := constant.StringVal(a.C)
				if s == OtherString {
					return a, true
				}
				return AV{K: avConst, C: constant.MakeString(strings.TrimSpace(s)), T: a.T, Origin: a.Origin}, true
			}
		}
	}
	return AV{}, false
}

func (ev *evaluator) resultValue(origin string, t types.Type) AV {
	switch t.Underlying().(type) {
	case *types.Basic:
		return AV{K: avLazy, Key: origin, T: t, Origin: origin}
	case *types.Pointer:
		return AV{K: avAddr, Key: origin, T: t.Underlying().(*types.Pointer).Elem(), Origin: origin}
	case *types.Struct:
		return AV{K: avStruct, Key: origin, T: t, Origin: origin}
	}
	return AV{K: avOpaque, Key: origin, T: t, Origin: origin}
}

// ---------------------------------------------------------------------------
// comparison with a specification

// TableCheck compares every leaf with the specification.
type TableCheck struct {
	// Keys lists the specification's own inputs with their domains; a leaf
	// that did not consult one of them is checked for every value of it.
	Keys map[string][]constant.Value
	// Relevant filters valuations the property does not constrain
	// (don't-care rows); nil = all relevant.
	Relevant func(val map[string]constant.Value) bool
	// Expected computes the outcome demanded by the property.
	Expected func(val map[string]constant.Value) string
	// Observed projects a leaf onto the same outcome vocabulary.
	Observed func(l *Leaf) string
	// Judge, when set, replaces Expected/Observed: it decides one row and
	// returns what was expected and what was observed (for the report).
	Judge func(val map[string]constant.Value, l *Leaf) (ok bool, expected, observed string)
}

// Mismatch is one disagreeing row.
type Mismatch struct {
	Val      map[string]constant.Value
	Expected string
	Observed string
	Pos      token.Pos
}

func valString(val map[string]constant.Value) string {
	var ks []string
	for k := range val {
		ks = append(ks, k)
	}
	sort.Strings(ks)
	var s []string
	for _, k := range ks {
		v := val[k].ExactString()
		if val[k].Kind() == constant.String && constant.StringVal(val[k]) == OtherString {
			v = "<other>"
		}
		s = append(s, k+"="+v)
	}
	return strings.Join(s, " ")
}

// Compare returns the mismatching rows and the number of rows compared.
func (tc *TableCheck) Compare(leaves []Leaf) (mism []Mismatch, rows int, errs []string) {
	var keys []string
	for k := range tc.Keys {
		keys = append(keys, k)
	}
	sort.Strings(keys)
	for i := range leaves {
		l := &leaves[i]
		if l.Err != "" {
			errs = append(errs, l.Err+" ["+valString(l.Val)+"]")
			continue
		}
		obs := ""
		if tc.Judge == nil {
			obs = tc.Observed(l)
		}
		// complete the valuation over the spec keys not consulted
		var missing []string
		for _, k := range keys {
			if _, ok := l.Val[k]; !ok {
				missing = append(missing, k)
			}
		}
		var rec func(i int, val map[string]constant.Value)
		rec = func(i int, val map[string]constant.Value) {
			if i == len(missing) {
				if tc.Relevant != nil && !tc.Relevant(val) {
					return
				}
				rows++
				var exp string
				ok := false
				lr := l.resolvedWith(val)
				if tc.Judge != nil {
					ok, exp, obs = tc.Judge(val, lr)
				} else {
					exp = tc.Expected(val)
					obs = tc.Observed(lr)
					ok = exp == obs
				}
				if !ok {
					cp := map[string]constant.Value{}
					for k, v := range val {
						cp[k] = v
					}
					var pos token.Pos
					if len(l.Effects) > 0 {
						pos = l.Effects[len(l.Effects)-1].Pos
					}
					mism = append(mism, Mismatch{Val: cp, Expected: exp, Observed: obs, Pos: pos})
				}
				return
			}
			for _, d := range tc.Keys[missing[i]] {
				val[missing[i]] = d
				rec(i+1, val)
			}
			delete(val, missing[i])
		}
		base := map[string]constant.Value{}
		for k, v := range l.Val {
			base[k] = v
		}
		rec(0, base)
	}
	return
}

// resolvedWith substitutes lazy sources whose key has a value in val.
func (l *Leaf) resolvedWith(val map[string]constant.Value) *Leaf {
	sub := func(a AV) AV {
		if a.K == avLazy {
			if v, ok := val[a.Key]; ok {
				return AV{K: avConst, C: v, T: a.T, Origin: a.Origin}
			}
		}
		return a
	}
	n := *l
	n.Returns = nil
	for _, r := range l.Returns {
		n.Returns = append(n.Returns, sub(r))
	}
	n.Mem = map[string]AV{}
	for k, v := range l.Mem {
		n.Mem[k] = sub(v)
	}
	n.Effects = nil
	for _, e := range l.Effects {
		ne := Effect{Name: e.Name, Pos: e.Pos}
		for _, a := range e.Args {
			ne.Args = append(ne.Args, sub(a))
		}
		n.Effects = append(n.Effects, ne)
	}
	return &n
}

// helpers for specifications

func VBool(val map[string]constant.Value, k string) bool {
	v, ok := val[k]
	return ok && v.Kind() == constant.Bool && constant.BoolVal(v)
}

func VInt(val map[string]constant.Value, k string) int64 {
	v, ok := val[k]
	if !ok {
		return 0
	}
	i, _ := constant.Int64Val(v)
	return i
}

func VStr(val map[string]constant.Value, k string) string {
	v, ok := val[k]
	if !ok || v.Kind() != constant.String {
		return ""
	}
	return constant.StringVal(v)
}

func Bools() []constant.Value {
	return []constant.Value{constant.MakeBool(false), constant.MakeBool(true)}
}

func Ints(is ...int64) []constant.Value {
	var out []constant.Value
	for _, i := range is {
		out = append(out, constant.MakeInt64(i))
	}
	return out
}

func Strs(ss ...string) []constant.Value {
	var out []constant.Value
	for _, s := range ss {
		out = append(out, constant.MakeString(s))
	}
	return out
}

// EffectNames lists the names of the effects of a leaf, in order.
func (l *Leaf) EffectNames() []string {
	var out []string
	for _, e := range l.Effects {
		out = append(out, e.Name)
	}
	return out
}

// HasEffect reports whether an effect with the given name prefix occurred.
func (l *Leaf) HasEffect(prefix string) bool {
	for _, e := range l.Effects {
		if strings.HasPrefix(e.Name, prefix) {
			return true
		}
	}
	return false
}

// RunTable extracts and compares; it records the obligations in the context.
func (c *Ctx) RunTable(rule, construct string, spec *TableSpec, tc *TableCheck) []Leaf {
	p := c.P
	c.Touch(spec.Fn)
	leaves, err := p.ExtractTable(spec)
	pos := FirstPos(p, spec.Fn)
	if err != nil {
		c.Bad(rule, construct+":extract", pos, "decision table cannot be extracted: "+err.Error())
		return leaves
	}
	mism, rows, errs := tc.Compare(leaves)
	c.Evaluations += rows
	tbl := map[string]any{"rule": rule, "function": p.FuncKey(spec.Fn), "leaves": len(leaves), "rows_compared": rows, "mismatches": len(mism)}
	var sample []string
	for i := 0; i < len(leaves) && i < 6; i++ {
		if tc.Judge != nil {
			_, _, o := tc.Judge(leaves[i].Val, &leaves[i])
			sample = append(sample, valString(leaves[i].Val)+" => "+o)
		} else if leaves[i].Err == "" {
			sample = append(sample, valString(leaves[i].Val)+" => "+tc.Observed(&leaves[i]))
		}
	}
	tbl["sample_rows"] = sample
	c.Tables = append(c.Tables, tbl)
	if len(errs) > 0 {
		sort.Strings(errs)
		c.Bad(rule, construct+":extract", pos, fmt.Sprintf("decision table not extractable on %d path(s): %s", len(errs), errs[0]))
		return leaves
	}
	if len(mism) == 0 {
		c.OK(rule, construct, pos, fmt.Sprintf("%d leaves / %d rows agree with the specification table", len(leaves), rows))
		return leaves
	}
	sort.Slice(mism, func(i, j int) bool { return valString(mism[i].Val) < valString(mism[j].Val) })
	m := mism[0]
	mp := pos
	if m.Pos.IsValid() {
		mp = p.Pos(m.Pos)
	}
	c.Bad(rule, construct, mp, fmt.Sprintf("%d of %d rows disagree with the specification; first: [%s] expected %q, code gives %q", len(mism), rows, valString(m.Val), m.Expected, m.Observed))
	return leaves
}
