package pcv

import (
	"fmt"
	"go/types"
	"strings"

	"golang.org/x/tools/go/ssa"
)

func init() {
	register(&PropCheck{
		ID: "C17",
		Explanation: "Environment, structural part: (1) the text handed to the YAML parser is ReplaceAll(ExpandEnv(ReplaceAll(raw, \"$$\", S)), S, \"$\") for one sentinel S, and when expansion is disabled the project is parsed again from the raw bytes; " +
			"(2) the slice returned by the process-environment function is the ordered concatenation inherited (os.Environ) < injected PC_PROC_NAME / PC_REPLICA_NUM (built from the receiver's own Name and ReplicaNum) < global < per-process (library model: later duplicates win in os/exec); " +
			"(3) SetEnv(<that slice>) and SetDir(procConf.WorkingDir) precede the launch on every path of the starter; (4) in Run the env_cmds step precedes the first spawn and appends NAME=output to the global environment, which every instance receives.",
		Assumptions: []string{"os.ExpandEnv / godotenv / yaml semantics and os/exec's duplicate handling (modelled: last entry wins) are not decided"},
		Run:         runC17,
	})
}

// concatSources flattens the value of a []string built by composite literals
// and append chains into an ordered list of source descriptions.
func concatSources(v ssa.Value, depth int) []string {
	if depth > 12 {
		return []string{"?"}
	}
	v = stripConv(v)
	switch x := v.(type) {
	case *ssa.Call:
		if b, ok := x.Call.Value.(*ssa.Builtin); ok && b.Name() == "append" {
			out := concatSources(x.Call.Args[0], depth+1)
			if len(x.Call.Args) == 2 {
				out = append(out, concatSources(x.Call.Args[1], depth+1)...)
			}
			return out
		}
		// slices.Concat(a, b, ...): the arguments in order
		if sc := x.Call.StaticCallee(); sc != nil {
			g := sc
			if sc.Origin() != nil {
				g = sc.Origin()
			}
			if pk := pkgOfFunc(g); pk != nil && pk.Path() == "slices" && g.Name() == "Concat" && len(x.Call.Args) == 1 {
				var out []string
				for _, a := range variadicValues(x.Call.Args[0]) {
					if a == nil {
						out = append(out, "?")
						continue
					}
					out = append(out, concatSources(a, depth+1)...)
				}
				return out
			}
		}
		if o := CalleeObj(&x.Call); o != nil && o.Pkg() != nil {
			return []string{"call:" + o.Pkg().Name() + "." + o.Name()}
		}
		return []string{"call:?"}
	case *ssa.Slice:
		// slice literal: elements stored into the backing array
		if al, ok := x.X.(*ssa.Alloc); ok {
			type ent struct {
				idx int64
				s   string
			}
			var ents []ent
			for _, ref := range *al.Referrers() {
				ia, ok := ref.(*ssa.IndexAddr)
				if !ok {
					continue
				}
				idx, _ := ConstInt(ia.Index)
				for _, r2 := range *ia.Referrers() {
					if st, ok := r2.(*ssa.Store); ok {
						ents = append(ents, ent{idx, "elem:" + stringExprDesc(st.Val)})
					}
				}
			}
			for i := 0; i < len(ents); i++ {
				for j := i + 1; j < len(ents); j++ {
					if ents[j].idx < ents[i].idx {
						ents[i], ents[j] = ents[j], ents[i]
					}
				}
			}
			var out []string
			for _, e := range ents {
				out = append(out, e.s)
			}
			return out
		}
		return concatSources(x.X, depth+1)
	case *ssa.UnOp:
		if f := PathOf(x).LastField(); f != nil {
			return []string{"field:" + f.Name()}
		}
	case *ssa.Phi:
		return []string{"phi"}
	case *ssa.Const:
		return nil
	}
	return []string{fmt.Sprintf("?%T", v)}
}

// stringExprDesc describes a string built by concatenation: "PC_PROC_NAME=" + field Name.
func stringExprDesc(v ssa.Value) string {
	v = stripConv(v)
	switch x := v.(type) {
	case *ssa.Const:
		if s, ok := ConstString(x); ok {
			return fmt.Sprintf("%q", s)
		}
	case *ssa.BinOp:
		return stringExprDesc(x.X) + "+" + stringExprDesc(x.Y)
	case *ssa.UnOp:
		if f := PathOf(x).LastField(); f != nil {
			return "field:" + f.Name()
		}
	case *ssa.Call:
		if o := CalleeObj(&x.Call); o != nil {
			var as []string
			for _, a := range x.Call.Args {
				as = append(as, stringExprDesc(a))
			}
			return o.Name() + "(" + strings.Join(as, ",") + ")"
		}
	}
	return "?"
}

// c17Term is the symbolic form of a string expression: raw file bytes, constants and library calls; calls of
// repository functions whose single return is such an expression over their parameters are expanded in place.
type c17Term struct {
	op   string
	cst  string
	args []*c17Term
	top  *ssa.Call // the instruction in the outermost function at which this term is computed
}

func c17TermOf(v ssa.Value, bind map[*ssa.Parameter]*c17Term, isRaw func(ssa.Value) bool, depth int) *c17Term {
	if depth > 4 {
		return nil
	}
	v = stripConv(v)
	if isRaw(v) {
		return &c17Term{op: "raw"}
	}
	if cs, ok := ConstString(v); ok {
		return &c17Term{op: "const", cst: cs}
	}
	if prm, ok := v.(*ssa.Parameter); ok {
		return bind[prm]
	}
	call, ok := v.(*ssa.Call)
	if !ok {
		return nil
	}
	if o := CalleeObj(&call.Call); o != nil && o.Pkg() != nil && (o.Pkg().Path() == "strings" || o.Pkg().Path() == "os") {
		t := &c17Term{op: o.Pkg().Path() + "." + o.Name(), top: call}
		for _, a := range call.Call.Args {
			t.args = append(t.args, c17TermOf(a, bind, isRaw, depth))
		}
		return t
	}
	callee := call.Call.StaticCallee()
	if callee == nil || len(callee.Blocks) == 0 {
		return nil
	}
	var rets []*ssa.Return
	AllInstrs(callee, func(in ssa.Instruction) {
		if r, ok := in.(*ssa.Return); ok {
			rets = append(rets, r)
		}
	})
	if len(rets) != 1 || len(rets[0].Results) != 1 {
		return nil
	}
	nb := map[*ssa.Parameter]*c17Term{}
	args := call.Call.Args
	for i, prm := range callee.Params {
		if i < len(args) {
			nb[prm] = c17TermOf(args[i], bind, isRaw, depth)
		}
	}
	t := c17TermOf(rets[0].Results[0], nb, isRaw, depth+1)
	if t != nil {
		setTop(t, call)
	}
	return t
}

func setTop(t *c17Term, call *ssa.Call) {
	if t == nil {
		return
	}
	if t.top != nil {
		t.top = call
	}
	for _, a := range t.args {
		setTop(a, call)
	}
}

func runC17(c *Ctx) {
	p := c.P
	s := p.Selectors()
	s.checkSnapshotOrder(c, "snapshot-before-render")
	checkExtendsWorkingDirBase(c, "extended-working-dir-base")

	// ------------------------------------------------------------------ (1)
	r1 := c.Rule("escape-expand-order", "in the function that reads a configuration file, the bytes given to the first yaml.Unmarshal are ReplaceAll(os.ExpandEnv(ReplaceAll(string(raw), \"$$\", S)), S, \"$\") with the same non-empty S; on the DisableEnvExpansion edge the project is unmarshalled again from the raw file bytes; the .env files are loaded before the expansion unless dotenv is disabled")
	fDisable := p.Field("types", "Project", "DisableEnvExpansion")
	n1 := 0
	for _, f := range p.FuncsOfPkg("loader") {
		var unm []*ssa.Call
		dataArg := map[*ssa.Call]int{}
		isYamlUnmarshal := func(call *ssa.Call) bool {
			o := CalleeObj(&call.Call)
			return o != nil && o.Pkg() != nil && strings.HasPrefix(o.Pkg().Path(), "gopkg.in/yaml") && o.Name() == "Unmarshal"
		}
		readsFile := false
		AllInstrs(f, func(in ssa.Instruction) {
			call, ok := in.(*ssa.Call)
			if !ok {
				return
			}
			if o := CalleeObj(&call.Call); o != nil && o.Pkg() != nil && o.Pkg().Path() == "os" && o.Name() == "ReadFile" {
				readsFile = true
			}
			if isYamlUnmarshal(call) {
				unm = append(unm, call)
				dataArg[call] = 0
				return
			}
			// a loader helper that hands one of its parameters to yaml.Unmarshal as the data
			if w := call.Call.StaticCallee(); w != nil && len(w.Blocks) > 0 && pkgOfFunc(w) == pkgOfFunc(f) {
				AllInstrs(w, func(x ssa.Instruction) {
					if wc, isC := x.(*ssa.Call); isC && isYamlUnmarshal(wc) {
						for i, prm := range w.Params {
							if stripConv(wc.Call.Args[0]) == ssa.Value(prm) && i < len(call.Call.Args) {
								unm = append(unm, call)
								dataArg[call] = i
							}
						}
					}
				})
			}
		})
		if len(unm) == 0 || !readsFile {
			continue
		}
		n1++
		c.Touch(f)
		// raw bytes: result of os.ReadFile
		isRaw := func(v ssa.Value) bool {
			v = stripConv(v)
			if ex, ok := v.(*ssa.Extract); ok {
				if call, ok := ex.Tuple.(*ssa.Call); ok {
					if o := CalleeObj(&call.Call); o != nil && o.Pkg() != nil && o.Pkg().Path() == "os" && o.Name() == "ReadFile" {
						return true
					}
				}
			}
			return false
		}
		var expanded, rawParse, expandCall *ssa.Call
		for _, u := range unm {
			arg := stripConv(u.Call.Args[dataArg[u]])
			if isRaw(arg) {
				rawParse = u
				continue
			}
			// []byte(temp), where temp may be computed in place or in a helper returning the expression
			t := c17TermOf(arg, nil, isRaw, 0)
			if t == nil || t.op != "strings.ReplaceAll" || len(t.args) != 3 {
				continue
			}
			mid := t.args[0]
			if mid == nil || mid.op != "os.ExpandEnv" || len(mid.args) != 1 {
				continue
			}
			inner := mid.args[0]
			if inner == nil || inner.op != "strings.ReplaceAll" || len(inner.args) != 3 {
				continue
			}
			cs := func(x *c17Term) (string, bool) {
				if x == nil || x.op != "const" {
					return "", false
				}
				return x.cst, true
			}
			s1, ok1 := cs(inner.args[1])
			sen1, ok2 := cs(inner.args[2])
			sen2, ok3 := cs(t.args[1])
			s2, ok4 := cs(t.args[2])
			if ok1 && ok2 && ok3 && ok4 && s1 == "$$" && s2 == "$" && sen1 == sen2 && sen1 != "" && !strings.Contains(sen1, "$") && inner.args[0] != nil && inner.args[0].op == "raw" {
				expanded = u
				// the instruction of f at which the expansion happens (the helper call when it is extracted)
				expandCall = mid.top
			}
		}
		c.Check(expanded != nil, r1, p.FuncKey(f)+":expanded-parse", FirstPos(p, f), "escape, expand, unescape in this order with one sentinel", "the configuration text is not ReplaceAll(ExpandEnv(ReplaceAll(raw,\"$$\",S)),S,\"$\"): $$ does not yield a literal $ or variables are not expanded")
		if c.Check(rawParse != nil, r1, p.FuncKey(f)+":raw-parse", FirstPos(p, f), "a second parse from the raw bytes exists", "with disable_env_expansion the file is not parsed again from its raw bytes (variables are still expanded)") {
			ok := false
			for _, g := range GuardsOf(rawParse) {
				v, val := g.BoolVal()
				if PathOf(v).LastField() == fDisable && val {
					ok = true
				}
			}
			c.Check(ok, r1, p.FuncKey(f)+":raw-parse-guard", p.InstrPos(rawParse), "the raw parse is taken exactly when expansion is disabled", "the raw parse is not guarded by DisableEnvExpansion")
			if expanded != nil {
				c.Check(DominatesInstr(expanded, rawParse), r1, p.FuncKey(f)+":order", p.InstrPos(rawParse), "the flag is read from the expanded parse first", "the raw parse does not follow the expanded parse")
				// both parse into the same project value
				unI := func(v ssa.Value) ssa.Value {
					if mi, ok := v.(*ssa.MakeInterface); ok {
						return mi.X
					}
					return v
				}
				c.Check(SameValue(unI(expanded.Call.Args[1]), unI(rawParse.Call.Args[1])), r1, p.FuncKey(f)+":same-target", p.InstrPos(rawParse), "both parses fill the same project", "the raw parse fills another object than the one returned")
			}
		}
		// dotenv before expansion
		var dot *ssa.Call
		AllInstrs(f, func(in ssa.Instruction) {
			if call, ok := in.(*ssa.Call); ok {
				if o := CalleeObj(&call.Call); o != nil && o.Pkg() != nil && strings.Contains(o.Pkg().Path(), "godotenv") && o.Name() == "Load" {
					dot = call
				}
			}
		})
		if c.Check(dot != nil, r1, p.FuncKey(f)+":dotenv", FirstPos(p, f), ".env files are loaded", "the .env files are not loaded") && expanded != nil {
			// on the not-disabled edge dotenv precedes the expansion
			okG := false
			for _, g := range GuardsOf(dot) {
				v, val := g.BoolVal()
				if lf := PathOf(v).LastField(); lf != nil && lf.Name() == "disableDotenv" && !val {
					okG = true
				}
			}
			c.Check(okG, r1, p.FuncKey(f)+":dotenv-guard", p.InstrPos(dot), ".env loading is skipped exactly when disabled", "the .env files are loaded although dotenv is disabled (or never)")
			vis := Reach([]Pt{after(dot)}, nil, nil)
			c.Check(vis[expandCall], r1, p.FuncKey(f)+":dotenv-before-expand", p.InstrPos(dot), ".env is loaded before the expansion", "the .env files are loaded after the configuration text was expanded")
		}
	}
	c.Check(n1 == 1, r1, "file-reader", "", "one function parses configuration files", fmt.Sprintf("%d functions parse configuration files", n1))

	// ------------------------------------------------------------------ (2)
	r2 := c.Rule("env-layer-order", "the value returned by the process-environment function flattens to the ordered sources: os.Environ(), \"PC_PROC_NAME=\"+procConf.Name, \"PC_REPLICA_NUM=\"+Itoa(procConf.ReplicaNum), globalEnv, procConf.Environment (the injected entries after the inherited ones and before the configured ones)")
	envFns := s.envFuncs()
	if c.Check(len(envFns) == 1, r2, "env-fn", "", "process-environment function found", fmt.Sprintf("%d process-environment functions", len(envFns))) {
		ef := envFns[0]
		c.Touch(ef)
		for _, ret := range returnsOf(ef) {
			srcs := concatSources(RetVals(ret)[0], 0)
			idx := func(pred func(s string) bool) int {
				for i, s := range srcs {
					if pred(s) {
						return i
					}
				}
				return -1
			}
			iInh := idx(func(s string) bool { return s == "call:os.Environ" })
			iName := idx(func(s string) bool { return strings.Contains(s, `"PC_PROC_NAME="`) })
			iNum := idx(func(s string) bool { return strings.Contains(s, `PC_REPLICA_NUM`) })
			iGlob := idx(func(s string) bool { return s == "field:globalEnv" })
			iProc := idx(func(s string) bool { return s == "field:Environment" })
			desc := strings.Join(srcs, " < ")
			c.Check(iInh >= 0 && iGlob >= 0 && iProc >= 0 && iInh < iGlob && iGlob < iProc, r2, "layers", p.InstrPos(ret), "inherited < global < per-process", "the launch environment is not layered inherited < global < per-process (got: "+desc+"): the documented precedence is broken")
			c.Check(iName >= 0 && iNum >= 0 && iInh >= 0 && iName > iInh && iNum > iInh, r2, "injected-after-inherited", p.InstrPos(ret), "injected variables come after the inherited ones", "PC_PROC_NAME / PC_REPLICA_NUM are placed before the inherited environment (got: "+desc+"): a nested process-compose passes its own values down and the process sees the wrong name/replica number")
			okOwn := false
			if iName >= 0 && iNum >= 0 {
				okOwn = strings.Contains(srcs[iName], "field:Name") && strings.Contains(srcs[iNum], "field:ReplicaNum") && strings.Contains(srcs[iNum], "Itoa")
			}
			c.Check(okOwn, r2, "injected-own-values", p.InstrPos(ret), "built from the receiver's own Name and ReplicaNum", "the injected variables are not built from the process's own Name / ReplicaNum (got: "+desc+")")
			c.Check(len(srcs) == 5, r2, "no-other-sources", p.InstrPos(ret), "exactly the five documented sources", "the launch environment has other sources than the documented ones: "+desc)
		}
	}

	// ------------------------------------------------------------------ (3)
	r3 := c.Rule("env-dir-before-start", "in the starter every path to Commander.Start passes SetEnv(<process-environment function>()) and SetDir(procConf.WorkingDir) on Process.command, after the commander for this launch was created")
	if s.Starter != nil {
		c.Touch(s.Starter)
		setEnv := Site{Name: "SetEnv(env())", Call: func(cc *ssa.CallCommon) bool {
			if !sameFunc(CalleeObj(cc), s.MSetEnv) || PathOf(ReceiverOf(cc)).LastField() != s.FCommand {
				return false
			}
			args := ArgsOf(cc)
			if len(args) != 1 {
				return false
			}
			call, ok := stripConv(args[0]).(*ssa.Call)
			if !ok {
				return false
			}
			for _, ef := range envFns {
				if call.Call.StaticCallee() == ef {
					return true
				}
			}
			return false
		}}
		setDir := Site{Name: "SetDir(WorkingDir)", Call: func(cc *ssa.CallCommon) bool {
			if !sameFunc(CalleeObj(cc), s.MSetDir) || PathOf(ReceiverOf(cc)).LastField() != s.FCommand {
				return false
			}
			args := ArgsOf(cc)
			return len(args) == 1 && PathOf(args[0]).LastField() == s.FWorkingDir
		}}
		launches := DirectSites(s.Starter, s.LaunchSite)
		for _, st := range []Site{setEnv, setDir} {
			r := MustPrecede(s.Starter, p.Deep(st), func(in ssa.Instruction) bool { return isOneOf(in, launches) }, nil)
			c.PathCheck(r, r3, st.Name, FirstPos(p, s.Starter), "precedes the launch on every path", "the command can be launched without "+st.Name+" (wrong environment / working directory)")
		}
		// ... and precede every Commander method that may already start the command
		// (the PTY wrapper starts it lazily in StdoutPipe/StdinPipe)
		startish := p.Deep(Site{Name: "exec start", Call: func(cc *ssa.CallCommon) bool {
			o := CalleeObj(cc)
			if o == nil || o.Pkg() == nil {
				return false
			}
			switch o.Pkg().Path() {
			case "os/exec":
				return o.Name() == "Start" || o.Name() == "Run" || o.Name() == "Output" || o.Name() == "CombinedOutput"
			case "github.com/creack/pty":
				return strings.HasPrefix(o.Name(), "Start")
			}
			return false
		}})
		mayStart := map[string]bool{}
		cmdIface := p.Named("command", "Commander").Underlying().(*types.Interface)
		for i := 0; i < cmdIface.NumMethods(); i++ {
			for _, impl := range p.CHA(cmdIface.Method(i)) {
				if startish.May(impl) {
					mayStart[cmdIface.Method(i).Name()] = true
				}
			}
		}
		var starters []ssa.Instruction
		AllInstrs(s.Starter, func(in ssa.Instruction) {
			if call, ok := in.(*ssa.Call); ok && call.Call.IsInvoke() && mayStart[call.Call.Method.Name()] && PathOf(call.Call.Value).LastField() == s.FCommand {
				starters = append(starters, in)
			}
		})
		for _, st := range []Site{setEnv, setDir} {
			r := MustPrecede(s.Starter, p.Deep(st), func(in ssa.Instruction) bool { return isOneOf(in, starters) }, nil)
			c.PathCheck(r, r3, st.Name+":before-any-start", FirstPos(p, s.Starter), "precedes every Commander call that may start the command", st.Name+" comes after a Commander call that may already start the command (the PTY wrapper starts it when the output pipe is requested): is_tty processes run without the configured environment / working directory")
		}
		c.Check(len(starters) >= 2, r3, "start-capable-calls", FirstPos(p, s.Starter), "start-capable Commander calls identified", "could not identify the Commander calls that may start the command")
		// the commander is created before: store to command precedes SetEnv
		newCmd := p.Deep(StoreTo("command", s.FCommand))
		r := MustPrecede(s.Starter, newCmd, func(in ssa.Instruction) bool { return setEnv.matchDirect(in, true) }, nil)
		c.PathCheck(r, r3, "fresh-commander", FirstPos(p, s.Starter), "a fresh commander is created for each launch before it is configured", "the environment is set on the commander of a previous launch")
	} else {
		c.Bad(r3, "starter", "", "no unique launch site")
	}
	// the global environment given to each instance is the project's
	{
		ok := false
		for _, sp := range s.Spawns {
			AllInstrs(sp, func(in ssa.Instruction) {
				if call, isC := in.(*ssa.Call); isC {
					for _, a := range call.Call.Args {
						if lf := PathOf(a).LastField(); lf != nil && lf.Name() == "Environment" && PathOf(a).HasField(s.FProject) {
							ok = true
						}
					}
				}
			})
		}
		c.Check(ok, r3, "global-env-passed", "", "each instance receives project.Environment as its global environment", "new instances do not receive the project's global environment")
	}

	// ------------------------------------------------------------------ (4)
	r4 := c.Rule("envcmds-before-launch", "in the function that starts the processes the env_cmds step (runs each command of project.EnvCommands and appends NAME=output to project.Environment) is executed on every path before the first spawn")
	fEnvCmds := p.Field("types", "Project", "EnvCommands")
	fProjEnv := p.Field("types", "Project", "Environment")
	var envCmdFns []*ssa.Function
	for _, f := range p.FuncsOfPkg("app") {
		if !s.IsRunnerMethod(f) || f.Parent() != nil {
			continue
		}
		rangesCmds := len(FindInstrs(f, func(in ssa.Instruction) bool {
			rg, ok := in.(*ssa.Range)
			return ok && PathOf(rg.X).LastField() == fEnvCmds
		})) > 0
		if rangesCmds && len(DirectSites(f, StoreTo("Environment", fProjEnv))) > 0 {
			envCmdFns = append(envCmdFns, f)
		}
	}
	if c.Check(len(envCmdFns) == 1, r4, "envcmds-fn", "", "env_cmds step found", fmt.Sprintf("%d functions evaluate env_cmds", len(envCmdFns))) {
		ec := envCmdFns[0]
		// every command has its own time budget: no deadline context created before the loop is handed to the
		// command runner inside it
		{
			shared := ""
			for _, lp := range NaturalLoops(ec) {
				for b := range lp.Blocks {
					for _, in := range b.Instrs {
						call, ok := in.(*ssa.Call)
						if !ok {
							continue
						}
						for _, a := range call.Call.Args {
							if a.Type().String() != "context.Context" {
								continue
							}
							srcs, _ := p.Sources(a)
							for _, src := range append(srcs, a) {
								ex, isEx := stripConv(src).(*ssa.Extract)
								if !isEx {
									continue
								}
								wc, isC := ex.Tuple.(*ssa.Call)
								if !isC {
									continue
								}
								if o := CalleeObj(&wc.Call); o != nil && o.Pkg() != nil && o.Pkg().Path() == "context" && (o.Name() == "WithTimeout" || o.Name() == "WithDeadline") && !lp.Blocks[wc.Block()] {
									shared = p.InstrPos(wc)
								}
							}
						}
					}
				}
			}
			c.Check(shared == "", r4, "envcmds-own-deadline", FirstPos(p, ec), "each env command runs under its own deadline", "all env_cmds share one deadline context created before the loop ("+shared+"): once the earlier commands have used up the budget the remaining ones are killed and their variables are missing from every process's environment")
		}
		if ex := EarlyLoopExits(p, ec, false); true {
			c.Check(len(ex) == 0, r4, "envcmds-exhaustive", FirstPos(p, ec), "every env command is evaluated", "the env_cmds step leaves its iteration early ("+strings.Join(ex, ", ")+"), e.g. at the first failing command: the remaining variables are missing from every process's environment (which ones depends on map order)")
		}
		c.Touch(ec)
		for _, j := range p.FuncsWith(MethodOnField("waitGroup.Wait", s.FWaitGroup, wgMethod(p, "Wait"))) {
			spawns := DirectSites(j, CallOfFn("Spawn", s.Spawns...))
			if len(spawns) == 0 {
				continue
			}
			r := MustPrecede(j, p.Deep(CallOfFn("envcmds", ec)), func(in ssa.Instruction) bool { return isOneOf(in, spawns) }, nil)
			c.PathCheck(r, r4, p.FuncKey(j), FirstPos(p, j), "env_cmds are evaluated before the first spawn", "a process can be spawned before env_cmds were evaluated (it misses those variables)")
		}
		// NAME=output: Sprintf("%s=%s", key, output) appended
		okFmt := false
		AllInstrs(ec, func(in ssa.Instruction) {
			if call, ok := in.(*ssa.Call); ok {
				if o := CalleeObj(&call.Call); o != nil && o.Name() == "Sprintf" {
					if fs, okf := ConstString(call.Call.Args[0]); okf && fs == "%s=%s" {
						okFmt = true
					}
				}
			}
		})
		c.Check(okFmt, r4, "name=value", FirstPos(p, ec), "entries have the form NAME=output", "env_cmds results are not appended as NAME=output")
		// a failing command is skipped, not fatal, and does not add an entry
		okSkip := false
		AllInstrs(ec, func(in ssa.Instruction) {
			call, ok := in.(*ssa.Call)
			if !ok || call.Call.StaticCallee() == nil || !p.InRepo(call.Call.StaticCallee()) || call.Call.Signature().Results().Len() != 2 {
				return
			}
			vis := Reach([]Pt{after(call)}, func(x ssa.Instruction) bool { _, isN := x.(*ssa.Next); return isN }, ErrNilEdge(call, false))
			bad := false
			for x := range vis {
				if _, isSt := StoredValue(x, fProjEnv); isSt {
					bad = true
				}
			}
			if !bad {
				okSkip = true
			}
		})
		c.Check(okSkip, r4, "failed-command-skipped", FirstPos(p, ec), "a failing env command adds no entry", "a failing env command still adds an entry")
	}
	_ = types.Typ
}

// checkExtendsWorkingDirBase (C17; the same condition is part of C15.extends-order): the function that loads an
// extended (parent) project resolves the parent's empty/relative working directories against filepath.Dir of the
// parent's own path.
func checkExtendsWorkingDirBase(c *Ctx, ruleID string) {
	p := c.P
	rule := c.Rule(ruleID, "in the function that inserts an extended project into the list of projects, the call that resolves the parent's working directories passes filepath.Dir(<the extends path>) as base directory")
	fProjects := p.Field("loader", "LoaderOptions", "projects")
	fExt := p.Field("types", "Project", "ExtendsProject")
	fWd := p.Field("types", "ProcessConfig", "WorkingDir")
	n := 0
	for _, f := range p.FuncsOfPkg("loader") {
		isExt := false
		AllInstrs(f, func(in ssa.Instruction) {
			call, ok := in.(*ssa.Call)
			if !ok {
				return
			}
			sc := call.Call.StaticCallee()
			if sc == nil {
				return
			}
			g := sc
			if sc.Origin() != nil {
				g = sc.Origin()
			}
			if pk := pkgOfFunc(g); pk != nil && pk.Path() == "slices" && g.Name() == "Insert" && PathOf(call.Call.Args[0]).LastField() == fProjects {
				isExt = true
			}
		})
		if !isExt {
			continue
		}
		c.Touch(f)
		AllInstrs(f, func(in ssa.Instruction) {
			call, ok := in.(*ssa.Call)
			if !ok {
				return
			}
			sc := call.Call.StaticCallee()
			if sc == nil || !p.InRepo(sc) || len(DirectSites(sc, StoreTo("WorkingDir", fWd))) == 0 {
				return
			}
			n++
			okDir := false
			for _, a := range call.Call.Args {
				if dc, isC := stripConv(a).(*ssa.Call); isC {
					if o := CalleeObj(&dc.Call); o != nil && o.Pkg() != nil && o.Pkg().Path() == "path/filepath" && o.Name() == "Dir" && len(dc.Call.Args) == 1 && PathOf(dc.Call.Args[0]).LastField() == fExt {
						okDir = true
					}
				}
			}
			c.Check(okDir, rule, p.FuncKey(f), p.InstrPos(call), "resolved against the directory of the extended file", "the working directories of an extended project's processes are resolved against another directory than that of the extended file: with base and extending file in different directories the base's commands run in the wrong directory")
		})
	}
	if n == 0 {
		c.Bad(rule, "none", "", "no working-directory resolution for extended projects found")
	}
}
