package pcv

import (
	"fmt"
	"go/token"
	"go/types"
	"regexp"
	"sort"
	"strings"

	"golang.org/x/tools/go/ssa"
)

func init() {
	register(&PropCheck{
		ID: "C19",
		Explanation: "REST API and client, structural part (sibling-table agreement): (1) every route's handler invokes exactly the IProject operation that belongs to the route, with the path parameters flowing into the right argument positions; " +
			"(2) every remote IProject method of the client uses the HTTP verb and path template of a route whose handler invokes the same IProject method, and no client method is an unconditional panic; " +
			"(3) the success payload type written by the handler equals the type the client decodes into (gin.H keys equal the client's keys/json tags); " +
			"(4) every client decode of a result is dominated by a test of the response status; (5) every status constant written by a handler is 200, 207 or 4xx, every parameter/body parse error is answered with 400 and return, every IProject error reaches a 4xx/207 answer; " +
			"(6) no explicit panic is reachable from a handler through the runner, and the range function's slice bounds are proved.",
		Assumptions: []string{
			"gin's RedirectTrailingSlash default makes a trailing slash in the client URL match the route",
			"equality of observed values under interleaved operations and JSON fidelity beyond type agreement are not decided",
		},
		Run: runC19,
	})
}

// Route is one registered REST route.
type Route struct {
	Verb    string
	Path    string
	Handler *ssa.Function
	Instr   ssa.Instruction
}

// routesOf decodes the route registrations inside api.InitRoutes.
func (p *Prog) routesOf() []Route {
	var out []Route
	for _, f := range p.FuncsOfPkg("api") {
		AllInstrs(f, func(in ssa.Instruction) {
			call, ok := in.(*ssa.Call)
			if !ok {
				return
			}
			o := CalleeObj(&call.Call)
			if o == nil || o.Pkg() == nil || o.Pkg().Path() != "github.com/gin-gonic/gin" {
				return
			}
			switch o.Name() {
			case "GET", "POST", "PATCH", "PUT", "DELETE":
			default:
				return
			}
			args := ArgsOf(&call.Call)
			if len(args) < 2 {
				return
			}
			path, ok := ConstString(args[0])
			if !ok {
				return
			}
			// handlers: variadic slice of HandlerFunc
			var h *ssa.Function
			for _, fn := range p.variadicFuncs(args[1]) {
				h = fn
			}
			out = append(out, Route{Verb: o.Name(), Path: path, Handler: h, Instr: in})
		})
	}
	sort.Slice(out, func(i, j int) bool { return out[i].Verb+out[i].Path < out[j].Verb+out[j].Path })
	return out
}

// variadicFuncs resolves the function values stored in a variadic slice literal.
func (p *Prog) variadicFuncs(v ssa.Value) []*ssa.Function {
	var out []*ssa.Function
	sl, ok := v.(*ssa.Slice)
	if !ok {
		return nil
	}
	al, ok := sl.X.(*ssa.Alloc)
	if !ok {
		return nil
	}
	for _, ref := range *al.Referrers() {
		ia, ok := ref.(*ssa.IndexAddr)
		if !ok {
			continue
		}
		for _, r2 := range *ia.Referrers() {
			st, ok := r2.(*ssa.Store)
			if !ok {
				continue
			}
			val := st.Val
			if ct, ok := val.(*ssa.ChangeType); ok {
				val = ct.X
			}
			switch x := val.(type) {
			case *ssa.MakeClosure:
				out = append(out, p.unwrap(x.Fn.(*ssa.Function)))
			case *ssa.Function:
				out = append(out, x)
			}
		}
	}
	return out
}

// iprojCalls lists the IProject method invocations in f (and its closures / go'd helpers in the same package).
func (s *Sel) iprojCalls(f *ssa.Function) []*ssa.Call {
	iproj := s.p.Named("app", "IProject")
	var out []*ssa.Call
	seen := map[*ssa.Function]bool{}
	var visit func(g *ssa.Function, d int)
	visit = func(g *ssa.Function, d int) {
		if g == nil || seen[g] || g.Blocks == nil || d > 3 {
			return
		}
		seen[g] = true
		AllInstrs(g, func(in ssa.Instruction) {
			cc := CallCommonOf(in)
			if cc == nil {
				return
			}
			if call, ok := in.(*ssa.Call); ok && cc.IsInvoke() {
				if nt, ok := cc.Value.Type().(*types.Named); ok && nt.Obj() == iproj.Obj() {
					out = append(out, call)
				}
			}
			if sc := cc.StaticCallee(); sc != nil && pkgOfFunc(sc) == pkgOfFunc(f) && !cc.IsInvoke() {
				visit(sc, d+1)
			}
			if mc, ok := cc.Value.(*ssa.MakeClosure); ok {
				visit(mc.Fn.(*ssa.Function), d+1)
			}
		})
		for _, an := range g.AnonFuncs {
			visit(an, d+1)
		}
	}
	visit(f, 0)
	return out
}

// expected operation per route, written from the documented API.
var routeOps = map[string][]string{
	"GET /live":                                  {},
	"GET /hostname":                              {"GetHostName"},
	"GET /processes":                             {"GetProcessesState"},
	"GET /process/:name":                         {"GetProcessState"},
	"GET /process/info/:name":                    {"GetProcessInfo"},
	"POST /process":                              {"UpdateProcess"},
	"GET /process/ports/:name":                   {"GetProcessPorts"},
	"GET /process/logs/:name/:endOffset/:limit":  {"GetProcessLog"},
	"PATCH /process/stop/:name":                  {"StopProcess"},
	"PATCH /processes/stop":                      {"StopProcesses"},
	"POST /process/start/:name":                  {"StartProcess"},
	"POST /process/restart/:name":                {"RestartProcess"},
	"POST /project/stop":                         {"ShutDownProject"},
	"POST /project":                              {"UpdateProject"},
	"POST /project/configuration":                {"ReloadProject"},
	"GET /project/state":                         {"GetProjectState"},
	"PATCH /process/scale/:name/:scale":          {"ScaleProcess"},
	"GET /process/logs/ws":                       {"GetLogsAndSubscribe", "UnSubscribeLogger"},
}

// which argument (0-based, after the receiver) each path parameter feeds
var paramArg = map[string]int{"name": 0, "endOffset": 1, "limit": 2, "scale": 1}

func runC19(c *Ctx) {
	p := c.P
	s := p.Selectors()
	s.checkErrorsNotSwallowed(c, "errors-not-swallowed", func(f *ssa.Function) bool {
		return inPkgs("client", "api")(f) || (inPkgs("app")(f) && s.IsRunnerMethod(f))
	}, "the remote caller would be told that a failed operation succeeded")
	routes := p.routesOf()
	pcApi := p.Named("api", "PcApi")

	// ------------------------------------------------------------------ (1)
	r1 := c.Rule("route-handler-op", "each route of the documented API is registered with its verb and path; its handler invokes exactly the IProject operation(s) of that route; each :param of the path is read with c.Param of the same name and flows (directly or through strconv.Atoi) into the operation's argument at the documented position")
	byKey := map[string]Route{}
	opRoute := map[string][]Route{}
	for _, rt := range routes {
		if rt.Handler == nil || !recvIs(rt.Handler, pcApi) {
			continue
		}
		byKey[rt.Verb+" "+rt.Path] = rt
	}
	for _, key := range SortedKeys(routeOps) {
		rt, ok := byKey[key]
		if !c.Check(ok, r1, "route:"+key, "", "route registered", "the documented route "+key+" is not registered with a PcApi handler (or under another verb/path)") {
			continue
		}
		c.Touch(rt.Handler)
		calls := s.iprojCalls(rt.Handler)
		var got []string
		for _, cl := range calls {
			got = append(got, cl.Call.Method.Name())
		}
		sort.Strings(got)
		want := append([]string{}, routeOps[key]...)
		sort.Strings(want)
		c.Check(strings.Join(got, ",") == strings.Join(want, ","), r1, "op:"+key, p.InstrPos(rt.Instr), "handler invokes "+strings.Join(want, "+"),
			fmt.Sprintf("the handler of %s invokes IProject.{%s}, the route's operation is {%s}", key, strings.Join(got, ","), strings.Join(want, ",")))
		for _, cl := range calls {
			opRoute[cl.Call.Method.Name()] = append(opRoute[cl.Call.Method.Name()], rt)
		}
		// path parameters
		for _, seg := range strings.Split(rt.Path, "/") {
			if !strings.HasPrefix(seg, ":") {
				continue
			}
			name := seg[1:]
			pos, known := paramArg[name]
			if !known || len(calls) != 1 {
				continue
			}
			args := calls[0].Call.Args
			ok := pos < len(args) && flowsFromParam(args[pos], name)
			c.Check(ok, r1, "param:"+key+":"+name, p.InstrPos(calls[0]), "path parameter reaches its argument", "path parameter :"+name+" does not flow into argument "+fmt.Sprint(pos+1)+" of the operation")
		}
	}
	for key := range byKey {
		if _, ok := routeOps[key]; !ok {
			c.Note("route %s is not part of the documented table (not judged)", key)
		}
	}

	// ------------------------------------------------------------------ (2)
	r2 := c.Rule("client-mirrors-route", "for each IProject method of the client that is not in the local-only table, the HTTP verb and the path template of the request it sends equal a route whose handler invokes the same IProject method (a trailing slash matches through gin's redirect); no IProject method of the client is an unconditional panic")
	localOnly := map[string]string{
		"IsRemote": "constant", "ErrorForSecs": "local error bookkeeping", "GetLogLength": "constructor argument",
		"SetProcessPassword": "refused for remote clients", "GetLexicographicProcessNames": "derived from GetProcessesState",
		"GetLogsAndSubscribe": "websocket (checked separately)", "UnSubscribeLogger": "websocket close",
	}
	iproj := p.Named("app", "IProject").Underlying().(*types.Interface)
	type clientReq struct {
		verb, path string
		fn         *ssa.Function
	}
	clientOf := map[string]clientReq{}
	for i := 0; i < iproj.NumMethods(); i++ {
		m := iproj.Method(i).Name()
		cf := p.TryMethod("client", "PcClient", m)
		if !c.Check(cf != nil, r2, "implements:"+m, "", "client implements the method", "PcClient does not implement IProject."+m) {
			continue
		}
		c.Touch(cf)
		// unconditional panic?
		if entryPanics(cf) {
			c.Bad(r2, "panics:"+m, FirstPos(p, cf), "PcClient."+m+" is an unconditional panic: a remote client (TUI attached to a server) crashes when it uses this operation, and the route has no client")
			continue
		}
		if _, lo := localOnly[m]; lo {
			continue
		}
		verb, path, ok := p.clientRequestOf(cf)
		if !c.Check(ok, r2, "request:"+m, FirstPos(p, cf), "request decoded", "cannot find the HTTP request (verb + constant URL template) sent by PcClient."+m) {
			continue
		}
		clientOf[m] = clientReq{verb, path, cf}
		match := false
		var routeStrs []string
		for _, rt := range opRoute[m] {
			routeStrs = append(routeStrs, rt.Verb+" "+rt.Path)
			if rt.Verb == verb && templateEq(rt.Path, path) {
				match = true
			}
		}
		c.Check(match, r2, "mirror:"+m, FirstPos(p, cf), "client request "+verb+" "+path+" mirrors the route",
			fmt.Sprintf("PcClient.%s sends %s %s but the server serves this operation at {%s}", m, verb, path, strings.Join(routeStrs, ", ")))
	}
	// websocket URL
	{
		lc := p.TryMethod("client", "LogClient", "ReadProcessLogs")
		ok := false
		if lc != nil {
			AllInstrs(lc, func(in ssa.Instruction) {
				if call, isCall := in.(*ssa.Call); isCall {
					if o := CalleeObj(&call.Call); o != nil && o.Name() == "Sprintf" && len(call.Call.Args) > 0 {
						if f, okf := ConstString(call.Call.Args[0]); okf && strings.HasPrefix(f, "ws://%s/process/logs/ws?") && strings.Contains(f, "name=%s") && strings.Contains(f, "offset=%d") && strings.Contains(f, "follow=%v") {
							ok = true
						}
					}
				}
			})
		}
		c.Check(ok, r2, "mirror:websocket", "", "websocket URL and query keys mirror the handler", "the log client's websocket URL/query keys (name, offset, follow) do not mirror the /process/logs/ws handler")
		// server side reads the same keys
		if rt, has := byKey["GET /process/logs/ws"]; has {
			keys := map[string]bool{}
			AllInstrs(rt.Handler, func(in ssa.Instruction) {
				if call, isCall := in.(*ssa.Call); isCall {
					if o := CalleeObj(&call.Call); o != nil && o.Name() == "Query" {
						for _, a := range ArgsOf(&call.Call) {
							if k, okk := ConstString(a); okk {
								keys[k] = true
							}
						}
					}
				}
			})
			c.Check(keys["name"] && keys["offset"] && keys["follow"], r2, "websocket-query-keys", FirstPos(p, rt.Handler), "handler reads name, offset, follow", "the websocket handler does not read the query keys name/offset/follow the client sends")
		}
	}

	// ------------------------------------------------------------------ (3)
	r3 := c.Rule("wire-types-agree", "the type of the success payload a handler writes (c.JSON(200|207, x)) equals, pointer-insensitively, the type the client decodes the success answer into; for gin.H payloads every constant key the client reads is a key the handler writes")
	for _, m := range SortedKeys(clientOf) {
		cr := clientOf[m]
		rts := opRoute[m]
		if len(rts) == 0 {
			continue
		}
		payloads := successPayloadTypes(rts[0].Handler)
		targets := p.decodeTargets(cr.fn)
		// the non-error decode targets
		var succ []types.Type
		for _, t := range targets {
			if nt, ok := t.(*types.Named); ok && nt.Obj().Name() == "pcError" {
				continue
			}
			succ = append(succ, t)
		}
		if len(succ) == 0 {
			continue // operations without a decoded success value
		}
		for _, t := range succ {
			ok := false
			for _, pt := range payloads {
				if wireCompatible(pt, t) {
					ok = true
				}
			}
			var ps []string
			for _, pt := range payloads {
				ps = append(ps, pt.String())
			}
			c.Check(ok, r3, "payload:"+m, FirstPos(p, cr.fn), "client decodes into the type the handler writes",
				fmt.Sprintf("PcClient.%s decodes the success answer into %s but the handler writes {%s}", m, t.String(), strings.Join(ps, ", ")))
		}
	}
	// gin.H keys used by the client: "name" (hostname), json tag "error"
	{
		hk := ginHKeys(p)
		errTag := ""
		if pe := p.TryNamed("client", "pcError"); pe != nil {
			st := pe.Underlying().(*types.Struct)
			for i := 0; i < st.NumFields(); i++ {
				if st.Field(i).Name() == "Error" {
					errTag = jsonTag(st.Tag(i))
				}
			}
		}
		c.Check(errTag != "" && hk[errTag] > 0, r3, "error-key", "", "the client's error body tag equals the handlers' error key", "the client's pcError json tag ("+errTag+") is not the key under which the handlers report errors")
		if rts := opRoute["GetHostName"]; len(rts) > 0 {
			keys := ginHKeysOf(rts[0].Handler, 200)
			// keys read by the client's implementation of the operation (the method and the client functions it calls)
			var ck []string
			if cr, okc := clientOf["GetHostName"]; okc {
				fns := []*ssa.Function{cr.fn}
				AllInstrs(cr.fn, func(in ssa.Instruction) {
					if call, isC := in.(*ssa.Call); isC {
						if sc := call.Call.StaticCallee(); sc != nil && pkgOfFunc(sc) != nil && pkgOfFunc(sc).Name() == "client" && len(sc.Blocks) > 0 {
							fns = appendUniq(fns, sc)
						}
					}
				})
				for _, f := range fns {
					ck = append(ck, p.mapKeysRead(f)...)
				}
			}
			ok := len(ck) > 0
			for _, k := range ck {
				if !keys[k] {
					ok = false
				}
			}
			c.Check(ok, r3, "hostname-key", FirstPos(p, rts[0].Handler), "hostname key agrees", "the key under which the hostname is sent is not the key the client reads")
		}
	}

	// ------------------------------------------------------------------ (3b)
	{
		rEsc := c.Rule("client-url-escaping", "in every request URL the client builds with a constant template, a string argument placed in a path segment is passed as is or through url.PathEscape, never through url.QueryEscape (which turns a space into '+', a literal plus in a path); an argument in the query part is never passed through url.PathEscape")
		n := 0
		for _, f := range p.FuncsOfPkg("client") {
			AllInstrs(f, func(in ssa.Instruction) {
				call, ok := in.(*ssa.Call)
				if !ok {
					return
				}
				o := CalleeObj(&call.Call)
				if o == nil || o.Pkg() == nil || o.Pkg().Path() != "fmt" || o.Name() != "Sprintf" || len(call.Call.Args) < 2 {
					return
				}
				fs, okf := ConstString(call.Call.Args[0])
				if !okf || !(strings.HasPrefix(fs, "http://%s/") || strings.HasPrefix(fs, "ws://%s/")) {
					return
				}
				args := variadicValues(call.Call.Args[1])
				q := strings.Index(fs, "?")
				idx := 0
				for _, m := range fmtVerb.FindAllStringIndex(fs, -1) {
					i := idx
					idx++
					if i == 0 || i >= len(args) || args[i] == nil {
						continue // the address
					}
					if b, isB := args[i].Type().Underlying().(*types.Basic); !isB || b.Kind() != types.String {
						continue
					}
					n++
					esc := urlEscapeOf(args[i], 0)
					inQuery := q >= 0 && m[0] > q
					okE := true
					why := ""
					if !inQuery && esc == "QueryEscape" {
						okE, why = false, "a path segment is escaped with url.QueryEscape: a name with a space is sent as 'a+b', which the server does not decode back (the request addresses a different, non-existent process)"
					}
					if inQuery && esc == "PathEscape" {
						okE, why = false, "a query value is escaped with url.PathEscape: '&', '+' and '=' in the value are sent verbatim and change the query"
					}
					c.Check(okE, rEsc, fmt.Sprintf("%s:arg%d", p.FuncKey(f), i), p.InstrPos(call), "escaping fits the position", why)
				}
			})
		}
		c.Floor(rEsc, 6, "string arguments of client URL templates")
		_ = n
	}

	// ------------------------------------------------------------------ (4)
	r4 := c.Rule("client-checks-status", "in every client function, each json Decode into a success type is dominated by a comparison of resp.StatusCode (a 4xx answer must not be decoded as if it were the result)")
	for _, f := range p.FuncsOfPkg("client") {
		if !recvIs(f, p.Named("client", "PcClient")) || f.Parent() != nil {
			continue
		}
		for _, in := range decodeCalls(f) {
			t := decodeTargetType(in)
			if t == nil {
				continue
			}
			if nt, ok := t.(*types.Named); ok && nt.Obj().Name() == "pcError" {
				continue
			}
			c.Touch(f)
			// abstract the response status to a representative error value (400):
			// following only the branches consistent with it, the decode of a
			// success type must be unreachable
			vis := Reach(Entry(f), nil, statusEdge(400))
			guarded := !vis[in]
			c.Check(guarded, r4, p.FuncKey(f), p.InstrPos(in), "decode guarded by a status test", "the client decodes the response body as a result without testing resp.StatusCode: a server error ({\"error\":...}) is returned to the caller as a zero-valued success")
		}
	}
	c.Floor(r4, 6, "client decode sites")

	// ------------------------------------------------------------------ (5)
	r5 := c.Rule("errors-are-4xx", "every HTTP status constant a handler writes is 200, 207 or 4xx; every strconv/ShouldBindJSON error is answered with 400 followed by return; on a non-nil IProject error every path writes a 4xx/207 status")
	for _, key := range SortedKeys(byKey) {
		h := byKey[key].Handler
		jsonCalls := ginJSONCallsDeep(h)
		for _, jc := range jsonCalls {
			code, ok := ConstInt(jc.Call.Args[1])
			if !ok {
				c.Bad(r5, "status-const:"+key, p.InstrPos(jc), "non-constant HTTP status")
				continue
			}
			c.Check(code == 200 || code == 207 || (code >= 400 && code < 500) || code == 302, r5, fmt.Sprintf("status:%s:%d", key, code), p.InstrPos(jc),
				"status is 2xx/4xx", fmt.Sprintf("the handler of %s answers with status %d: a client error must never become a 5xx", key, code))
		}
		// parse errors and operation errors
		AllInstrs(h, func(in ssa.Instruction) {
			call, ok := in.(*ssa.Call)
			if !ok {
				return
			}
			kind := ""
			if o := CalleeObj(&call.Call); o != nil && o.Pkg() != nil {
				if o.Pkg().Path() == "strconv" && (o.Name() == "Atoi" || strings.HasPrefix(o.Name(), "Parse")) {
					kind = "parse:" + o.Name()
				}
				if o.Name() == "ShouldBindJSON" {
					kind = "bind"
				}
			}
			if call.Call.IsInvoke() {
				if nt, ok := call.Call.Value.Type().(*types.Named); ok && nt.Obj().Name() == "IProject" {
					res := call.Call.Signature().Results()
					if res.Len() > 0 && res.At(res.Len()-1).Type().String() == "error" {
						kind = "op:" + call.Call.Method.Name()
					}
				}
			}
			if kind == "" {
				return
			}
			// is the error tested at all?
			isErr := errValueMatcher(call)
			tested := false
			for _, b := range h.Blocks {
				if ifi := IfOf(b); ifi != nil {
					if cmp, okc := CondCmp(ifi.Cond); okc && (isErr(cmp.X) || isErr(cmp.Y)) {
						tested = true
					}
				}
			}
			// operations issued after the answer was written (shutdown) or after
			// the connection was upgraded to a websocket cannot change the HTTP status
			afterAnswer := false
			for _, x := range FindInstrs(h, func(x ssa.Instruction) bool {
				xc, isC := x.(*ssa.Call)
				if !isC {
					return false
				}
				if isGinJSON(xc) {
					return true
				}
				o := CalleeObj(&xc.Call)
				return o != nil && o.Name() == "Upgrade" && o.Pkg() != nil && o.Pkg().Path() == "github.com/gorilla/websocket"
			}) {
				if x != in && x.Parent() == call.Parent() && DominatesInstr(x, call) {
					afterAnswer = true
				}
			}
			if afterAnswer && strings.HasPrefix(kind, "op:") {
				return
			}
			// on the success edge of an operation the handler answers: every path to the return writes a reply
			// (directly or through a responder) - an empty 200 cannot be decoded by the client
			if strings.HasPrefix(kind, "op:") {
				resp := responders(h)
				isAnswer := func(x ssa.Instruction) bool {
					xc, isC := x.(*ssa.Call)
					if !isC {
						return false
					}
					if isGinJSON(xc) {
						return true
					}
					if sc := xc.Call.StaticCallee(); sc != nil && isOneOfFn(sc, resp) {
						return true
					}
					o := CalleeObj(&xc.Call)
					return o != nil && o.Pkg() != nil && o.Pkg().Path() == "github.com/gin-gonic/gin" && (o.Name() == "Status" || o.Name() == "String" || o.Name() == "AbortWithStatusJSON" || o.Name() == "Redirect" || o.Name() == "Data")
				}
				silent := false
				for x := range Reach([]Pt{after(call)}, isAnswer, ErrNilEdge(call, true)) {
					if _, isRet := x.(*ssa.Return); isRet {
						silent = true
					}
				}
				c.Check(!silent, r5, "success-answer:"+key+":"+kind, p.InstrPos(call), "a successful operation is answered", "after "+kind+" succeeded a path of the handler returns without writing a reply: the client gets an empty 200 body, fails to decode it and reports an error for an operation that was carried out")
			}
			if !tested {
				// the error is handed to a responder that tests it and answers
				for _, x := range FindInstrs(h, func(x ssa.Instruction) bool { _, isC := x.(*ssa.Call); return isC }) {
					rc := x.(*ssa.Call)
					g := rc.Call.StaticCallee()
					if g == nil || !isOneOfFn(g, responders(h)) {
						continue
					}
					for j, a := range rc.Call.Args {
						if !isErr(a) || j >= len(g.Params) || a.Type().String() != "error" {
							continue
						}
						prm := g.Params[j]
						isPrm := func(v ssa.Value) bool { return stripConv(v) == ssa.Value(prm) }
						okR := errorAnswerOK(g, Entry(g), NilEdgeOf(isPrm, false), !strings.HasPrefix(kind, "op:"))
						// nothing is answered or requested after the responder returns
						for y := range Reach([]Pt{after(rc)}, nil, nil) {
							if yc, isC := y.(*ssa.Call); isC && (isGinJSON(yc) || isIProjectCall(yc)) {
								okR = false
							}
						}
						c.Check(okR, r5, "error-answer:"+key+":"+kind, p.InstrPos(call), "error answered with a 4xx status and return (by "+p.FuncKey(g)+")", "on the error of "+kind+" the responder "+p.FuncKey(g)+" does not answer 4xx and return on every path")
						tested = true
					}
				}
				if tested {
					return
				}
				if strings.HasPrefix(kind, "parse:ParseBool") {
					return // optional query flag with a default
				}
				c.Bad(r5, "untested:"+key+":"+kind, p.InstrPos(call), "the error of "+kind+" is ignored by the handler")
				return
			}
			// on the error edge: every path writes a 4xx/207 and returns without reaching further IProject calls
			vis := Reach([]Pt{after(call)}, func(x ssa.Instruction) bool {
				jc, isJ := x.(*ssa.Call)
				return isJ && isGinJSON(jc)
			}, ErrNilEdge(call, false))
			ok4 := true
			sawJSON := false
			for x := range vis {
				if jc, isJ := x.(*ssa.Call); isJ && isGinJSON(jc) {
					sawJSON = true
					code, okc := ConstInt(jc.Call.Args[1])
					want400 := !strings.HasPrefix(kind, "op:")
					if !okc || !((code >= 400 && code < 500) || (!want400 && code == 207)) {
						ok4 = false
					}
					if want400 && code != 400 {
						ok4 = false
					}
					// after answering, return
					after := Reach([]Pt{after(jc)}, nil, nil)
					for y := range after {
						if yc, isC := y.(*ssa.Call); isC && isGinJSON(yc) {
							ok4 = false // a second answer after the error answer (missing return)
						}
						if yc, isC := y.(*ssa.Call); isC && yc.Call.IsInvoke() {
							if nt, okn := yc.Call.Value.Type().(*types.Named); okn && nt.Obj().Name() == "IProject" {
								ok4 = false
							}
						}
					}
				}
				if _, isRet := x.(*ssa.Return); isRet {
					ok4 = false // a path returns without answering
				}
			}
			c.Check(ok4 && sawJSON, r5, "error-answer:"+key+":"+kind, p.InstrPos(call), "error answered with a 4xx status and return", "on the error of "+kind+" the handler does not answer 4xx and return on every path")
		})
	}
	c.Floor(r5, 30, "handler status/error sites")

	s.checkConsumerBeforeProducer(c, "consumer-before-subscription")
	s.checkWebsocketWrites(c, p.Locksets(s.Runner), "websocket-writes-serialised-per-connection")
	// every field of the configuration that the server itself reads back from a value that crossed the wire is
	// serialised: a `json:"-"` (or unexported) field read by the runner arrives empty when the value came by REST
	{
		rTag := c.Rule("wire-fields-serialised", "no field of types.ProcessConfig that functions of the app package read carries the tag json:\"-\"")
		st := s.ProcConf.Underlying().(*types.Struct)
		nT := 0
		for i := 0; i < st.NumFields(); i++ {
			f := st.Field(i)
			if !f.Exported() {
				continue
			}
			nT++
			if jsonTag(st.Tag(i)) != "-" {
				continue
			}
			read := false
			for _, fn := range p.FuncsOfPkg("app") {
				if len(FindInstrs(fn, func(in ssa.Instruction) bool { return IsLoadOf(in, f) })) > 0 {
					read = true
				}
			}
			c.Check(!read, rTag, "field:"+f.Name(), "", "not read by the runner", "ProcessConfig."+f.Name()+" is excluded from JSON but read by the runner: a configuration that arrives through the REST API (project update, process update) lacks it, so what the runner derives from it (e.g. new replicas decoded from OriginalConfig on scale-up) differs from the direct call")
		}
		c.Check(nT > 10, rTag, "floor:fields", "", "ProcessConfig fields examined", "ProcessConfig has no exported fields")
	}

	// ------------------------------------------------------------------ (6)
	r6 := c.Rule("no-reachable-panic-source", "no explicit panic instruction is reachable from a REST handler through the runner's implementation of IProject (gin.Recovery would turn it into a 500), and every slice expression of the log range function is proved in bounds")
	panicSite := p.Deep(Site{Name: "panic", Instr: func(in ssa.Instruction) bool { _, ok := in.(*ssa.Panic); return ok }})
	for i := 0; i < iproj.NumMethods(); i++ {
		m := iproj.Method(i).Name()
		rf := p.TryMethod("app", "ProjectRunner", m)
		if rf == nil {
			c.Bad(r6, "runner-implements:"+m, "", "ProjectRunner does not implement IProject."+m)
			continue
		}
		c.Check(!panicSite.May(rf), r6, "panic-free:"+m, FirstPos(p, rf), "no explicit panic reachable", "an explicit panic is reachable from ProjectRunner."+m)
	}
	lbT := p.Named("pclog", "ProcessLogBuffer")
	fBuffer := p.Field("pclog", "ProcessLogBuffer", "buffer")
	for _, f := range p.FuncsOfPkg("pclog") {
		if !recvIs(f, lbT) || f.Parent() != nil {
			continue
		}
		sig := f.Signature
		if sig.Params().Len() != 2 || sig.Results().Len() != 1 || !isIntType(sig.Params().At(0).Type()) || !isIntType(sig.Params().At(1).Type()) {
			continue
		}
		if len(FindInstrs(f, func(in ssa.Instruction) bool {
			sl, ok := in.(*ssa.Slice)
			return ok && PathOf(sl.X).LastField() == fBuffer
		})) == 0 {
			continue
		}
		a := &LinAnalysis{P: p, Fn: f, Assume: []Lin{LE(TConst(0), TVar(CellLen("p0." + fBuffer.Name())))}}
		a.Run()
		for i, o := range a.Obligations {
			c.Check(o.OK, r6, fmt.Sprintf("bounds:%s:slice#%d", p.FuncKey(f), i+1), p.InstrPos(o.Instr), "slice bounds proved for all path parameters", "a log range request with suitable (endOffset, limit) panics in the range function: the server answers 500")
		}
	}
}

// flowsFromParam: v derives from c.Param("<name>") directly or through strconv.Atoi.
func flowsFromParam(v ssa.Value, name string) bool {
	v = stripConv(v)
	if ex, ok := v.(*ssa.Extract); ok {
		v = ex.Tuple
	}
	call, ok := v.(*ssa.Call)
	if !ok {
		return false
	}
	o := CalleeObj(&call.Call)
	if o == nil {
		return false
	}
	if o.Name() == "Param" {
		for _, a := range ArgsOf(&call.Call) {
			if k, ok := ConstString(a); ok && k == name {
				return true
			}
		}
		return false
	}
	if o.Pkg() != nil && o.Pkg().Path() == "strconv" && len(call.Call.Args) >= 1 {
		return flowsFromParam(call.Call.Args[0], name)
	}
	return false
}

func entryPanics(f *ssa.Function) bool {
	if len(f.Blocks) == 0 {
		return false
	}
	vis := Reach(Entry(f), nil, nil)
	for in := range vis {
		if _, ok := in.(*ssa.Return); ok {
			return false
		}
	}
	for in := range vis {
		if _, ok := in.(*ssa.Panic); ok {
			return true
		}
	}
	return false
}

var fmtVerb = regexp.MustCompile(`%[a-zA-Z]`)

// clientRequestOf follows a client method to the function that builds the URL
// and returns verb and path template (with %x replaced by ':').
func (p *Prog) clientRequestOf(f *ssa.Function) (verb, path string, ok bool) {
	seen := map[*ssa.Function]bool{}
	var visit func(g *ssa.Function, d int) bool
	visit = func(g *ssa.Function, d int) bool {
		if g == nil || seen[g] || g.Blocks == nil || d > 3 {
			return false
		}
		seen[g] = true
		url := ""
		AllInstrs(g, func(in ssa.Instruction) {
			call, isCall := in.(*ssa.Call)
			if !isCall {
				return
			}
			o := CalleeObj(&call.Call)
			if o == nil {
				return
			}
			if o.Pkg() != nil && o.Pkg().Path() == "fmt" && o.Name() == "Sprintf" && len(call.Call.Args) > 0 {
				if fs, okf := ConstString(call.Call.Args[0]); okf && strings.HasPrefix(fs, "http://%s/") {
					url = strings.TrimPrefix(fs, "http://%s")
				}
			}
			if o.Pkg() != nil && o.Pkg().Path() == "net/http" {
				switch o.Name() {
				case "Get":
					verb = "GET"
				case "Post":
					verb = "POST"
				case "NewRequest", "NewRequestWithContext":
					for _, a := range call.Call.Args {
						if m, okm := ConstString(a); okm && (m == "GET" || m == "POST" || m == "PATCH" || m == "PUT" || m == "DELETE") {
							verb = m
						}
					}
				}
			}
		})
		if url != "" && verb != "" {
			if i := strings.Index(url, "?"); i >= 0 {
				url = url[:i]
			}
			path = fmtVerb.ReplaceAllString(url, ":")
			return true
		}
		found := false
		AllInstrs(g, func(in ssa.Instruction) {
			if found {
				return
			}
			if call, isCall := in.(*ssa.Call); isCall {
				if sc := call.Call.StaticCallee(); sc != nil && pkgOfFunc(sc) == pkgOfFunc(f) {
					if visit(sc, d+1) {
						found = true
					}
				}
			}
		})
		return found
	}
	ok = visit(f, 0)
	return
}

// templateEq compares a gin route ("/process/:name") with a client template ("/process/:").
func templateEq(route, client string) bool {
	norm := func(s string) []string {
		s = strings.TrimSuffix(s, "/")
		parts := strings.Split(s, "/")
		for i, x := range parts {
			if strings.HasPrefix(x, ":") {
				parts[i] = ":"
			}
		}
		return parts
	}
	a, b := norm(route), norm(client)
	if len(a) != len(b) {
		return false
	}
	for i := range a {
		if a[i] != b[i] {
			return false
		}
	}
	return true
}

func isGinJSON(call *ssa.Call) bool {
	o := CalleeObj(&call.Call)
	return o != nil && o.Pkg() != nil && o.Pkg().Path() == "github.com/gin-gonic/gin" && o.Name() == "JSON" && len(call.Call.Args) == 3
}

func ginJSONCalls(f *ssa.Function) []*ssa.Call {
	var out []*ssa.Call
	AllInstrs(f, func(in ssa.Instruction) {
		if call, ok := in.(*ssa.Call); ok && isGinJSON(call) {
			out = append(out, call)
		}
	})
	return out
}

// responders: functions of the handler's package that the handler hands its *gin.Context to (shared reply helpers).
func responders(h *ssa.Function) []*ssa.Function {
	var out []*ssa.Function
	AllInstrs(h, func(in ssa.Instruction) {
		call, ok := in.(*ssa.Call)
		if !ok {
			return
		}
		sc := call.Call.StaticCallee()
		if sc == nil || len(sc.Blocks) == 0 || pkgOfFunc(sc) == nil || pkgOfFunc(sc) != pkgOfFunc(h) {
			return
		}
		for _, a := range call.Call.Args {
			if pt, ok := a.Type().(*types.Pointer); ok {
				if nt, ok := pt.Elem().(*types.Named); ok && nt.Obj().Name() == "Context" && nt.Obj().Pkg() != nil && strings.HasSuffix(nt.Obj().Pkg().Path(), "gin") {
					if len(ginJSONCalls(sc)) > 0 {
						out = appendUniq(out, sc)
					}
				}
			}
		}
	})
	return out
}

// ginJSONCallsDeep: the answers written by the handler itself and by its responders.
func ginJSONCallsDeep(h *ssa.Function) []*ssa.Call {
	out := ginJSONCalls(h)
	for _, r := range responders(h) {
		out = append(out, ginJSONCalls(r)...)
	}
	return out
}

// successPayloadTypes: static types of x in c.JSON(200|207, x).
func successPayloadTypes(h *ssa.Function) []types.Type {
	var out []types.Type
	for _, jc := range ginJSONCallsDeep(h) {
		code, ok := ConstInt(jc.Call.Args[1])
		if !ok || (code != 200 && code != 207) {
			continue
		}
		v := jc.Call.Args[2]
		if mi, ok := v.(*ssa.MakeInterface); ok {
			v = mi.X
		}
		out = append(out, v.Type())
	}
	return out
}

func deref(t types.Type) types.Type {
	if pt, ok := t.(*types.Pointer); ok {
		return pt.Elem()
	}
	return t
}

// wireCompatible: handler payload type vs client decode target type.
func wireCompatible(payload, target types.Type) bool {
	a, b := deref(payload), deref(target)
	if types.Identical(a, b) {
		return true
	}
	// gin.H / map[string]any written, map[string]T read
	am, ok1 := a.Underlying().(*types.Map)
	bm, ok2 := b.Underlying().(*types.Map)
	if ok1 && ok2 && types.Identical(am.Key(), bm.Key()) {
		if types.Identical(am.Elem(), bm.Elem()) {
			return true
		}
		if _, isIface := am.Elem().Underlying().(*types.Interface); isIface {
			return true
		}
	}
	return false
}

func decodeCalls(f *ssa.Function) []*ssa.Call {
	var out []*ssa.Call
	AllInstrs(f, func(in ssa.Instruction) {
		if call, ok := in.(*ssa.Call); ok {
			if o := CalleeObj(&call.Call); o != nil && o.Pkg() != nil && o.Pkg().Path() == "encoding/json" && (o.Name() == "Decode" || o.Name() == "Unmarshal") {
				out = append(out, call)
			}
		}
	})
	return out
}

func decodeTargetType(call *ssa.Call) types.Type {
	a := call.Call.Args[len(call.Call.Args)-1]
	if mi, ok := a.(*ssa.MakeInterface); ok {
		a = mi.X
	}
	return deref(a.Type())
}

// decodeTargets lists the types a client function (and its helpers) decodes into.
func (p *Prog) decodeTargets(f *ssa.Function) []types.Type {
	var out []types.Type
	seen := map[*ssa.Function]bool{}
	var visit func(g *ssa.Function, d int)
	visit = func(g *ssa.Function, d int) {
		if g == nil || seen[g] || g.Blocks == nil || d > 3 {
			return
		}
		seen[g] = true
		for _, dc := range decodeCalls(g) {
			if t := decodeTargetType(dc); t != nil {
				out = append(out, t)
			}
		}
		AllInstrs(g, func(in ssa.Instruction) {
			if call, ok := in.(*ssa.Call); ok {
				if sc := call.Call.StaticCallee(); sc != nil && pkgOfFunc(sc) == pkgOfFunc(f) {
					visit(sc, d+1)
				}
			}
		})
	}
	visit(f, 0)
	return out
}

func isStatusCode(v ssa.Value) bool {
	f := PathOf(v).LastField()
	return f != nil && f.Name() == "StatusCode" && f.Pkg() != nil && f.Pkg().Path() == "net/http"
}

func jsonTag(tag string) string {
	i := strings.Index(tag, `json:"`)
	if i < 0 {
		return ""
	}
	rest := tag[i+6:]
	j := strings.IndexAny(rest, `",`)
	if j < 0 {
		return ""
	}
	return rest[:j]
}

// ginHKeys counts, over all handlers, the constant keys of gin.H literals.
func ginHKeys(p *Prog) map[string]int {
	out := map[string]int{}
	for _, f := range p.FuncsOfPkg("api") {
		AllInstrs(f, func(in ssa.Instruction) {
			if mu, ok := in.(*ssa.MapUpdate); ok {
				if k, ok := ConstString(mu.Key); ok {
					out[k]++
				}
			}
		})
	}
	return out
}

// ginHKeysOf: keys of the gin.H literals passed to c.JSON(code, ...) in h.
func ginHKeysOf(h *ssa.Function, code int64) map[string]bool {
	out := map[string]bool{}
	for _, jc := range ginJSONCalls(h) {
		cd, ok := ConstInt(jc.Call.Args[1])
		if !ok || cd != code {
			continue
		}
		v := jc.Call.Args[2]
		if mi, ok := v.(*ssa.MakeInterface); ok {
			v = mi.X
		}
		if mm, ok := v.(*ssa.MakeMap); ok {
			for _, ref := range *mm.Referrers() {
				if mu, ok := ref.(*ssa.MapUpdate); ok {
					if k, ok := ConstString(mu.Key); ok {
						out[k] = true
					}
				}
			}
		}
	}
	return out
}

// mapKeysRead: constant keys looked up in maps by f.
func (p *Prog) mapKeysRead(f *ssa.Function) []string {
	var out []string
	if f == nil {
		return nil
	}
	AllInstrs(f, func(in ssa.Instruction) {
		if lk, ok := in.(*ssa.Lookup); ok {
			if k, ok := ConstString(lk.Index); ok {
				out = append(out, k)
			}
		}
	})
	return out
}

var _ = token.ADD

// statusEdge follows only the branch edges consistent with resp.StatusCode == code.
func statusEdge(code int64) EdgeFilter {
	return func(from *ssa.BasicBlock, succ int) bool {
		ifi := IfOf(from)
		if ifi == nil {
			return true
		}
		cmp, ok := CondCmp(ifi.Cond)
		if !ok {
			return true
		}
		var k ssa.Value
		if isStatusCode(cmp.X) {
			k = cmp.Y
		} else if isStatusCode(cmp.Y) {
			k = cmp.X
			// mirror the operator
			switch cmp.Op {
			case token.LSS:
				cmp.Op = token.GTR
			case token.GTR:
				cmp.Op = token.LSS
			case token.LEQ:
				cmp.Op = token.GEQ
			case token.GEQ:
				cmp.Op = token.LEQ
			}
		} else {
			return true
		}
		kv, ok := ConstInt(k)
		if !ok {
			return true
		}
		var holds bool
		switch cmp.Op {
		case token.EQL:
			holds = code == kv
		case token.NEQ:
			holds = code != kv
		case token.LSS:
			holds = code < kv
		case token.LEQ:
			holds = code <= kv
		case token.GTR:
			holds = code > kv
		case token.GEQ:
			holds = code >= kv
		default:
			return true
		}
		return holds == (succ == 0)
	}
}

// variadicValues returns the values stored into the slice literal of a variadic call, by index (interfaces unwrapped).
func variadicValues(v ssa.Value) []ssa.Value {
	sl, ok := v.(*ssa.Slice)
	if !ok {
		return nil
	}
	al, ok := sl.X.(*ssa.Alloc)
	if !ok {
		return nil
	}
	var out []ssa.Value
	for _, ref := range *al.Referrers() {
		ia, ok := ref.(*ssa.IndexAddr)
		if !ok {
			continue
		}
		k, okk := ConstInt(ia.Index)
		if !okk {
			continue
		}
		for _, r2 := range *ia.Referrers() {
			if st, ok := r2.(*ssa.Store); ok {
				val := st.Val
				if mi, ok := val.(*ssa.MakeInterface); ok {
					val = mi.X
				}
				for int(k) >= len(out) {
					out = append(out, nil)
				}
				out[k] = val
			}
		}
	}
	return out
}

// urlEscapeOf: which net/url escaping function produced the string (looking through repository helpers that
// return such a call), "" when none.
func urlEscapeOf(v ssa.Value, depth int) string {
	if depth > 3 {
		return ""
	}
	call, ok := stripConv(v).(*ssa.Call)
	if !ok {
		return ""
	}
	if o := CalleeObj(&call.Call); o != nil && o.Pkg() != nil && o.Pkg().Path() == "net/url" {
		return o.Name()
	}
	sc := call.Call.StaticCallee()
	if sc == nil || len(sc.Blocks) == 0 {
		return ""
	}
	res := ""
	for _, ret := range returnsOf(sc) {
		if len(ret.Results) != 1 {
			continue
		}
		if e := urlEscapeOf(RetVals(ret)[0], depth+1); e != "" {
			res = e
		}
	}
	return res
}

func isOneOfFn(f *ssa.Function, fs []*ssa.Function) bool {
	for _, g := range fs {
		if g == f {
			return true
		}
	}
	return false
}

func isIProjectCall(yc *ssa.Call) bool {
	if !yc.Call.IsInvoke() {
		return false
	}
	nt, ok := yc.Call.Value.Type().(*types.Named)
	return ok && nt.Obj().Name() == "IProject"
}

// errorAnswerOK: from start, following only the edges on which the error is non-nil, every path writes a 4xx (or
// 207 for operation errors) answer and then returns without a second answer or a further IProject call.
func errorAnswerOK(f *ssa.Function, start []Pt, edge EdgeFilter, want400 bool) bool {
	vis := Reach(start, func(x ssa.Instruction) bool {
		jc, isJ := x.(*ssa.Call)
		return isJ && isGinJSON(jc)
	}, edge)
	ok4, sawJSON := true, false
	for x := range vis {
		if jc, isJ := x.(*ssa.Call); isJ && isGinJSON(jc) {
			sawJSON = true
			code, okc := ConstInt(jc.Call.Args[1])
			if !okc || !((code >= 400 && code < 500) || (!want400 && code == 207)) {
				ok4 = false
			}
			if want400 && code != 400 {
				ok4 = false
			}
			for y := range Reach([]Pt{after(jc)}, nil, nil) {
				if yc, isC := y.(*ssa.Call); isC && (isGinJSON(yc) || isIProjectCall(yc)) {
					ok4 = false
				}
			}
		}
		if _, isRet := x.(*ssa.Return); isRet {
			ok4 = false
		}
	}
	return ok4 && sawJSON
}
