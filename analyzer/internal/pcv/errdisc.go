package pcv

import (
	"go/token"
	"go/types"
	"sort"

	"golang.org/x/tools/go/ssa"
)

// SwallowedError describes a return of a nil error on the edge on which an error value was found non-nil.
type SwallowedError struct {
	Fn   *ssa.Function
	If   *ssa.If
	Ret  *ssa.Return
	What string // description of the error's origin (callee name)
}

func isErrorType(t types.Type) bool {
	return t != nil && t.String() == "error"
}

// SwallowedErrors lists, for a function whose last result is an error, the returns that hand back the nil constant
// (or, for functions without an error result, nothing) inside the region dominated by the non-nil edge of a test of
// an error value that came from a call. Only functions with an error result are considered.
func SwallowedErrors(p *Prog, f *ssa.Function) []SwallowedError {
	res := f.Signature.Results()
	if res.Len() == 0 || !isErrorType(res.At(res.Len()-1).Type()) {
		return nil
	}
	var out []SwallowedError
	for _, b := range f.Blocks {
		ifi := IfOf(b)
		if ifi == nil {
			continue
		}
		cmp, ok := CondCmp(ifi.Cond)
		if !ok || (cmp.Op != token.NEQ && cmp.Op != token.EQL) {
			continue
		}
		var ev ssa.Value
		if isErrorType(cmp.X.Type()) && IsNilConst(cmp.Y) {
			ev = cmp.X
		} else if isErrorType(cmp.Y.Type()) && IsNilConst(cmp.X) {
			ev = cmp.Y
		} else {
			continue
		}
		// the error comes from a call (directly, by Extract, or through a cell)
		what := errOrigin(ev)
		if what == "" {
			continue
		}
		succ := 0
		if cmp.Op == token.EQL {
			succ = 1
		}
		start := b.Succs[succ]
		if len(start.Preds) != 1 {
			continue
		}
		for rb := range DominatedBlocks(start) {
			for _, in := range rb.Instrs {
				ret, isRet := in.(*ssa.Return)
				if !isRet {
					continue
				}
				vals := RetVals(ret)
				if IsNilConst(vals[len(vals)-1]) {
					out = append(out, SwallowedError{Fn: f, If: ifi, Ret: ret, What: what})
				}
			}
		}
	}
	sort.Slice(out, func(i, j int) bool { return out[i].Ret.Pos() < out[j].Ret.Pos() })
	return out
}

func errOrigin(v ssa.Value) string {
	v = stripConv(v)
	switch x := v.(type) {
	case *ssa.Call:
		if o := CalleeObj(&x.Call); o != nil {
			return o.Name()
		}
		return "call"
	case *ssa.Extract:
		if c, ok := x.Tuple.(*ssa.Call); ok {
			if o := CalleeObj(&c.Call); o != nil {
				return o.Name()
			}
			return "call"
		}
	case *ssa.UnOp:
		if al, ok := x.X.(*ssa.Alloc); ok {
			for _, ref := range *al.Referrers() {
				if st, ok := ref.(*ssa.Store); ok {
					if w := errOrigin(st.Val); w != "" {
						return w
					}
				}
			}
		}
	case *ssa.Phi:
		for _, e := range x.Edges {
			if w := errOrigin(e); w != "" {
				return w
			}
		}
	}
	return ""
}

// checkErrorsNotSwallowed: error discipline. In the given scope no function returns a nil error from inside the
// region that is entered only when a callee's error was found non-nil. (The accepted exceptions are named.)
func (s *Sel) checkErrorsNotSwallowed(c *Ctx, ruleID string, inScope func(f *ssa.Function) bool, why string) {
	p := c.P
	rule := c.Rule(ruleID, "in the functions in scope, no return hands back a nil error inside the region dominated by the non-nil edge of a test of an error obtained from a call ("+why+")")
	n := 0
	for _, f := range p.Funcs {
		res := f.Signature.Results()
		if res.Len() == 0 || !isErrorType(res.At(res.Len()-1).Type()) || !inScope(f) {
			continue
		}
		n++
		sw := SwallowedErrors(p, f)
		if len(sw) == 0 {
			continue
		}
		c.Touch(f)
		c.Bad(rule, p.FuncKey(f)+":after-"+sw[0].What, p.InstrPos(sw[0].Ret), "when "+sw[0].What+" fails the function reports success (returns a nil error): the caller - and through the API the user - is told the operation worked ("+why+")")
	}
	if n > 0 {
		c.OK(rule, "scope", "", "functions with an error result examined")
		c.Evaluations += n
	}
	c.Floor(rule, 1, "functions in scope")
}

// reachableFrom: the functions reachable from the roots through static calls (repository functions only).
func (p *Prog) reachableFrom(roots ...*ssa.Function) map[*ssa.Function]bool {
	seen := map[*ssa.Function]bool{}
	work := append([]*ssa.Function{}, roots...)
	for len(work) > 0 {
		f := work[len(work)-1]
		work = work[:len(work)-1]
		if f == nil || seen[f] || len(f.Blocks) == 0 {
			continue
		}
		seen[f] = true
		for _, an := range f.AnonFuncs {
			work = append(work, an)
		}
		AllInstrs(f, func(in ssa.Instruction) {
			if cc := CallCommonOf(in); cc != nil {
				if sc := cc.StaticCallee(); sc != nil && p.InRepo(sc) {
					work = append(work, sc)
				}
			}
		})
	}
	return seen
}

func inPkgs(names ...string) func(f *ssa.Function) bool {
	return func(f *ssa.Function) bool {
		pk := pkgOfFunc(f)
		if pk == nil {
			return false
		}
		for _, n := range names {
			if pk.Name() == n {
				return true
			}
		}
		return false
	}
}
