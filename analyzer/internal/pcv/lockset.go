package pcv

import (
	"go/types"
	"strconv"
	"sort"
	"strings"

	"golang.org/x/tools/go/ssa"
)

// ---------------------------------------------------------------------------
// Must-lockset analysis (rule kind K3).
//
// A lock is identified by the mutex field and the access path of the value
// that contains it, relative to the function ("p0" = first parameter /
// receiver, "fv0" = first free variable). Locks of singleton objects
// (ProjectRunner) are identified by the field alone.

// LockKey identifies a held lock inside one function.
type LockKey struct {
	Field *types.Var // mutex field (or embedded sync.Mutex field); nil for local mutexes
	Base  string     // access path of the owner inside the function; "" for singletons
	Local string     // identity of a local (possibly captured) mutex variable
}

func (k LockKey) String() string {
	if k.Field == nil {
		return k.Local
	}
	if k.Base == "" {
		return k.Field.Name()
	}
	return k.Base + "." + k.Field.Name()
}

type lockSet map[LockKey]bool

func (a lockSet) clone() lockSet {
	b := lockSet{}
	for k := range a {
		b[k] = true
	}
	return b
}

func intersect(a, b lockSet) lockSet {
	out := lockSet{}
	for k := range a {
		if b[k] {
			out[k] = true
		}
	}
	return out
}

func equalSets(a, b lockSet) bool {
	if len(a) != len(b) {
		return false
	}
	for k := range a {
		if !b[k] {
			return false
		}
	}
	return true
}

// Locksets holds the result of the analysis.
type Locksets struct {
	p         *Prog
	singleton map[*types.TypeName]bool
	entry     map[*ssa.Function]lockSet // nil = top (not yet constrained)
	at        map[ssa.Instruction]lockSet
	isRoot    map[*ssa.Function]bool
	syncClosure map[*ssa.Function]ssa.Instruction // closure -> call instruction it is passed to synchronously
}

// baseString renders the owner path of a lock/access inside a function.
func baseString(v ssa.Value) string {
	ap := PathOf(v)
	var root string
	switch b := ap.Base.(type) {
	case *ssa.Parameter:
		f := b.Parent()
		for i, prm := range f.Params {
			if prm == b {
				root = "p" + itoa(i)
			}
		}
	case *ssa.FreeVar:
		f := b.Parent()
		for i, fv := range f.FreeVars {
			if fv == b {
				root = "fv" + itoa(i)
			}
		}
	case *ssa.Alloc:
		root = "local:" + b.Name()
	case *ssa.Global:
		root = "g:" + b.Name()
	default:
		if ap.Base != nil {
			root = "v:" + ap.Base.Name()
		}
	}
	if len(ap.Fields) == 0 {
		return root
	}
	return root + "." + ap.FieldNames()
}

func itoa(i int) string {
	return strconv.Itoa(i)
}

// lockOp decodes a call as a mutex operation: returns the key, whether it is
// an acquire (true) or release (false).
func (ls *Locksets) lockOp(c *ssa.CallCommon) (LockKey, bool, bool) {
	o := CalleeObj(c)
	if o == nil || o.Pkg() == nil || o.Pkg().Path() != "sync" {
		return LockKey{}, false, false
	}
	recv := o.Type().(*types.Signature).Recv()
	if recv == nil {
		return LockKey{}, false, false
	}
	rt := recv.Type()
	if pt, ok := rt.(*types.Pointer); ok {
		rt = pt.Elem()
	}
	nt, ok := rt.(*types.Named)
	if !ok || (nt.Obj().Name() != "Mutex" && nt.Obj().Name() != "RWMutex") {
		return LockKey{}, false, false
	}
	var acquire bool
	switch o.Name() {
	case "Lock", "RLock":
		acquire = true
	case "Unlock", "RUnlock":
		acquire = false
	default:
		return LockKey{}, false, false
	}
	if len(c.Args) == 0 {
		return LockKey{}, false, false
	}
	rv := c.Args[0]
	ap := PathOf(rv)
	var fld *types.Var
	var owner ssa.Value
	if len(ap.Fields) > 0 {
		fld = ap.Fields[len(ap.Fields)-1]
		// owner = value whose field this is
		switch x := rv.(type) {
		case *ssa.FieldAddr:
			owner = x.X
		default:
			owner = nil
		}
	}
	// promoted method through a synthetic wrapper: receiver is the outer struct
	if sc := c.StaticCallee(); sc != nil && sc.Synthetic != "" {
		st := derefStruct(rv.Type())
		if st != nil {
			for i := 0; i < st.NumFields(); i++ {
				if st.Field(i).Embedded() && types.Identical(st.Field(i).Type(), nt) {
					fld = st.Field(i)
					owner = rv
				}
			}
		}
	}
	if fld == nil {
		// a local mutex variable, possibly captured by closures
		rc := &resolveCtx{p: ls.p}
		var cell *ssa.Alloc
		if u, ok := rv.(*ssa.UnOp); ok {
			cell = rc.cellRoot(u.X)
		} else {
			cell = rc.cellRoot(rv)
		}
		if cell == nil {
			return LockKey{}, false, false
		}
		return LockKey{Local: "local:" + ls.p.FuncKey(cell.Parent()) + ":" + cell.Comment}, acquire, true
	}
	key := LockKey{Field: fld}
	if owner != nil && !ls.isSingletonOwner(owner.Type()) {
		key.Base = baseString(owner)
	}
	return key, acquire, true
}

func (ls *Locksets) isSingletonOwner(t types.Type) bool {
	if pt, ok := t.Underlying().(*types.Pointer); ok {
		t = pt.Elem()
	}
	if nt, ok := t.(*types.Named); ok {
		return ls.singleton[nt.Obj()]
	}
	return false
}

// Locksets computes the must-locksets of all repository functions.
func (p *Prog) Locksets(singletons ...*types.Named) *Locksets {
	ls := &Locksets{p: p, singleton: map[*types.TypeName]bool{}, entry: map[*ssa.Function]lockSet{}, at: map[ssa.Instruction]lockSet{}, isRoot: map[*ssa.Function]bool{}, syncClosure: map[*ssa.Function]ssa.Instruction{}}
	for _, n := range singletons {
		ls.singleton[n.Obj()] = true
	}
	// roots: exported functions/methods, address-taken functions, go targets,
	// functions without static callers.
	goTargets := map[*ssa.Function]bool{}
	deferTargets := map[*ssa.Function]bool{}
	for _, f := range p.Funcs {
		AllInstrs(f, func(in ssa.Instruction) {
			switch x := in.(type) {
			case *ssa.Go:
				fns, _ := p.Callees(&x.Call, true)
				for _, fn := range fns {
					goTargets[fn] = true
				}
			case *ssa.Defer:
				fns, _ := p.Callees(&x.Call, true)
				for _, fn := range fns {
					deferTargets[fn] = true
				}
			}
		})
	}
	for _, f := range p.Funcs {
		if f.Parent() != nil {
			// closures: synchronous ones inherit, others are roots
			if in := p.syncInvokedClosure(f); in != nil && !goTargets[f] {
				ls.syncClosure[f] = in
				continue
			}
			ls.isRoot[f] = true
			continue
		}
		exported := f.Object() != nil && f.Object().Exported()
		if exported || goTargets[f] || deferTargets[f] || len(p.Callers(f)) == 0 || p.addressTaken(f) {
			ls.isRoot[f] = true
		}
	}
	for _, f := range p.Funcs {
		if ls.isRoot[f] {
			ls.entry[f] = lockSet{}
		}
	}
	// fixpoint
	for iter := 0; iter < 20; iter++ {
		changed := false
		newEntry := map[*ssa.Function]lockSet{}
		for _, f := range p.Funcs {
			ent, ok := ls.entry[f]
			if !ok {
				continue // still top: analyse later when constrained
			}
			ls.analyse(f, ent, func(call ssa.Instruction, callee *ssa.Function, held lockSet) {
				if ls.isRoot[callee] {
					return
				}
				if at, ok := ls.syncClosure[callee]; ok && at != call {
					// a closure that is only invoked synchronously by the callee it is
					// passed to runs under the lockset of that one call site
					return
				}
				tr := ls.translate(call, callee, held)
				if cur, ok := newEntry[callee]; ok {
					newEntry[callee] = intersect(cur, tr)
				} else {
					newEntry[callee] = tr
				}
			})
		}
		for f, e := range newEntry {
			old, ok := ls.entry[f]
			if !ok || !equalSets(old, e) {
				// monotone decrease: intersect with old when present
				if ok {
					e = intersect(old, e)
					if equalSets(old, e) {
						continue
					}
				}
				ls.entry[f] = e
				changed = true
			}
		}
		if !changed {
			break
		}
	}
	// functions never constrained: empty
	for _, f := range p.Funcs {
		if _, ok := ls.entry[f]; !ok {
			ls.entry[f] = lockSet{}
			ls.analyse(f, ls.entry[f], nil)
		}
	}
	// final pass to record per-instruction sets
	for _, f := range p.Funcs {
		ls.analyse(f, ls.entry[f], nil)
	}
	return ls
}

// syncInvokedClosure: the closure f is created once and its only use is being
// called directly, or passed as an argument to a static call whose callee only
// calls that parameter synchronously. Returns the instruction at which it is
// (first) invoked / passed.
func (p *Prog) syncInvokedClosure(f *ssa.Function) ssa.Instruction {
	var mcs []*ssa.MakeClosure
	AllInstrs(f.Parent(), func(in ssa.Instruction) {
		if mc, ok := in.(*ssa.MakeClosure); ok && mc.Fn == f {
			mcs = append(mcs, mc)
		}
	})
	if len(mcs) != 1 {
		return nil
	}
	var fv ssa.Value = mcs[0]
	refs := *mcs[0].Referrers()
	for len(refs) == 1 {
		if ct, ok := refs[0].(*ssa.ChangeType); ok {
			fv = ct
			refs = *ct.Referrers()
			continue
		}
		break
	}
	if len(refs) != 1 {
		return nil
	}
	switch x := refs[0].(type) {
	case *ssa.Call:
		if x.Call.Value == fv {
			return x
		}
		callee := x.Call.StaticCallee()
		if callee == nil {
			return nil
		}
		for i, a := range x.Call.Args {
			if a == fv {
				if p.paramOnlyCalled(callee, i, 0, map[*ssa.Function]bool{}) {
					return x
				}
			}
		}
	case *ssa.Defer:
		if x.Call.Value == fv {
			return nil // runs at exit; handled as root
		}
	}
	return nil
}

// paramOnlyCalled: inside callee, parameter idx is only called synchronously
// or handed to callees for which the same holds.
func (p *Prog) paramOnlyCalled(callee *ssa.Function, idx int, depth int, seen map[*ssa.Function]bool) bool {
	if callee.Blocks == nil || depth > 4 || idx >= len(callee.Params) {
		return false
	}
	if seen[callee] {
		return true
	}
	seen[callee] = true
	prm := callee.Params[idx]
	for _, ref := range *prm.Referrers() {
		switch x := ref.(type) {
		case *ssa.Call:
			if x.Call.Value == ssa.Value(prm) {
				continue
			}
			sc := x.Call.StaticCallee()
			if sc == nil {
				return false
			}
			ok := false
			for i, a := range x.Call.Args {
				if a == ssa.Value(prm) {
					if !p.paramOnlyCalled(sc, i, depth+1, seen) {
						return false
					}
					ok = true
				}
			}
			if !ok {
				return false
			}
		case *ssa.DebugRef:
		default:
			return false
		}
	}
	return true
}

// translate maps the lockset held at a call into the callee's naming.
func (ls *Locksets) translate(call ssa.Instruction, callee *ssa.Function, held lockSet) lockSet {
	out := lockSet{}
	c := CallCommonOf(call)
	for k := range held {
		if k.Base == "" || k.Field == nil {
			out[k] = true
			continue
		}
		// closures passed synchronously / called directly: free variables
		if callee.Parent() == call.Parent() {
			// find the MakeClosure bindings
			AllInstrs(call.Parent(), func(in ssa.Instruction) {
				mc, ok := in.(*ssa.MakeClosure)
				if !ok || mc.Fn != callee {
					return
				}
				for i, b := range mc.Bindings {
					if bs := baseString(b); bs != "" && (k.Base == bs || strings.HasPrefix(k.Base, bs+".")) {
						out[LockKey{Field: k.Field, Base: "fv" + itoa(i) + strings.TrimPrefix(k.Base, bs)}] = true
					}
				}
			})
			continue
		}
		if c == nil {
			continue
		}
		args := c.Args
		for i, a := range args {
			if i >= len(callee.Params) {
				break
			}
			bs := baseString(a)
			if bs != "" && (k.Base == bs || strings.HasPrefix(k.Base, bs+".")) {
				out[LockKey{Field: k.Field, Base: "p" + itoa(i) + strings.TrimPrefix(k.Base, bs)}] = true
			}
		}
	}
	return out
}

// analyse runs the forward must-analysis of one function.
func (ls *Locksets) analyse(f *ssa.Function, entry lockSet, onCall func(call ssa.Instruction, callee *ssa.Function, held lockSet)) {
	if f.Blocks == nil {
		return
	}
	in := map[*ssa.BasicBlock]lockSet{}
	in[f.Blocks[0]] = entry.clone()
	work := []*ssa.BasicBlock{f.Blocks[0]}
	inWork := map[*ssa.BasicBlock]bool{f.Blocks[0]: true}
	out := map[*ssa.BasicBlock]lockSet{}
	for len(work) > 0 {
		b := work[0]
		work = work[1:]
		inWork[b] = false
		cur := in[b].clone()
		for _, instr := range b.Instrs {
			ls.at[instr] = cur.clone()
			if call, ok := instr.(*ssa.Call); ok {
				if k, acq, ok := ls.lockOp(&call.Call); ok {
					if acq {
						cur[k] = true
					} else {
						delete(cur, k)
					}
				}
			}
		}
		if prev, ok := out[b]; ok && equalSets(prev, cur) {
			continue
		}
		out[b] = cur
		for _, s := range b.Succs {
			var n lockSet
			if old, ok := in[s]; ok {
				n = intersect(old, cur)
				if equalSets(n, old) {
					continue
				}
			} else {
				n = cur.clone()
			}
			in[s] = n
			if !inWork[s] {
				inWork[s] = true
				work = append(work, s)
			}
		}
	}
	if onCall != nil {
		for _, b := range f.Blocks {
			for _, instr := range b.Instrs {
				held := ls.at[instr]
				switch x := instr.(type) {
				case *ssa.Call:
					fns, _ := ls.p.Callees(&x.Call, false)
					for _, fn := range fns {
						if fn.Blocks != nil && ls.p.InRepo(fn) {
							onCall(instr, fn, held)
						}
					}
					// closures passed synchronously
					for _, a := range x.Call.Args {
						if ct, ok := a.(*ssa.ChangeType); ok {
							a = ct.X
						}
						if mc, ok := a.(*ssa.MakeClosure); ok {
							fn := mc.Fn.(*ssa.Function)
							if ls.syncClosure[fn] == instr {
								onCall(instr, fn, held)
							}
						}
					}
				}
			}
		}
	}
}

// HeldAt returns the locks held immediately before the instruction.
func (ls *Locksets) HeldAt(in ssa.Instruction) []LockKey {
	var out []LockKey
	for k := range ls.at[in] {
		out = append(out, k)
	}
	sort.Slice(out, func(i, j int) bool { return out[i].String() < out[j].String() })
	return out
}

// Holds: the mutex field is held at the instruction. If base is non-empty the
// lock owner's path must equal base.
func (ls *Locksets) Holds(in ssa.Instruction, field *types.Var, base string) bool {
	for k := range ls.at[in] {
		if k.Field != nil && k.Field == field && (k.Base == "" || base == "" || k.Base == base) {
			return true
		}
	}
	return false
}

// EntryOf returns the entry lockset of a function.
func (ls *Locksets) EntryOf(f *ssa.Function) []LockKey {
	var out []LockKey
	for k := range ls.entry[f] {
		out = append(out, k)
	}
	sort.Slice(out, func(i, j int) bool { return out[i].String() < out[j].String() })
	return out
}

// IsRoot: the function's entry lockset is empty by construction.
func (ls *Locksets) IsRoot(f *ssa.Function) bool { return ls.isRoot[f] }

// Dump renders the locksets of a function (debugging aid).
func (ls *Locksets) Dump(f *ssa.Function) string {
	var b strings.Builder
	for _, blk := range f.Blocks {
		for _, in := range blk.Instrs {
			var ks []string
			for _, k := range ls.HeldAt(in) {
				ks = append(ks, k.String())
			}
			b.WriteString(ls.p.InstrPos(in) + " [" + strings.Join(ks, ",") + "] " + in.String() + "\n")
		}
	}
	return b.String()
}
