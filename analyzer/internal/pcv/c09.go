package pcv

import (
	"fmt"
	"go/constant"
	"go/types"
	"sort"
	"strings"

	"golang.org/x/tools/go/ssa"
)

func init() {
	register(&PropCheck{
		ID: "C09",
		Explanation: "Reported state, structural part: (1) Status, IsRunning, ExitCode and Restarts have a closed set of writers; (2) is_running <=> Status in {Running, Launching, Launched} (decision table); " +
			"(3) every status constant is assigned only in its legal context: Running/Launching only by the critical section that launches, Launched only after command.Wait(), Restarting only after Wait on the restart edge, " +
			"Terminating only by the stop core, Completed/Error/Skipped only through the terminal function, whose constant arguments are all terminal states; a failed launch reaches Terminal(Error) on every path; " +
			"(4) the only non-constant value stored to the exit code is command.ExitCode() read after Wait(), constant stores are the non-zero ones of the status-change hook; " +
			"(5) Skipped/Error carry a non-zero code; (6) no transient state survives: every goroutine path reaches the terminal function, which releases every latch.",
		Assumptions: []string{"agreement of the record with the real child (alive, exit status) and status histories across instances sharing one state record are not decided"},
		Run:         runC09,
	})
}

func runC09(c *Ctx) {
	p := c.P
	s := p.Selectors()
	st := p.ConstGroup("types", "ProcessState")
	running, launching, launched := st["ProcessStateRunning"], st["ProcessStateLaunching"], st["ProcessStateLaunched"]
	restarting, terminating := st["ProcessStateRestarting"], st["ProcessStateTerminating"]
	completed, errorSt, skipped := st["ProcessStateCompleted"], st["ProcessStateError"], st["ProcessStateSkipped"]
	pending, disabled, foreground := st["ProcessStatePending"], st["ProcessStateDisabled"], st["ProcessStateForeground"]
	requireN("RunEntry", s.RunEntries, 1, 1)
	run := s.RunEntries[0]
	newState := p.Func("types", "NewProcessState")

	// ------------------------------------------------------------------ (1)
	rW := c.Rule("status-writers", "ProcessState.Status is stored only by Process methods that hold stateMtx for the store and by the state constructor; IsRunning only by the derived-state updater; ExitCode only by the setter; Restarts only by the run loop")
	ls := p.Locksets(s.Runner)
	for _, spec := range []struct {
		fld  *types.Var
		name string
	}{{s.FStatus, "Status"}, {s.FIsRunning, "IsRunning"}, {s.FExitCode, "ExitCode"}, {s.FRestarts, "Restarts"}} {
		var writers []string
		for _, f := range p.Funcs {
			for _, in := range DirectSites(f, StoreTo("w", spec.fld)) {
				ok := f == newState || (s.IsProcessMethod(f) && f.Parent() == nil)
				if spec.fld == s.FStatus && f != newState {
					ok = ok && ls.Holds(in, s.FStateMtx, "")
				}
				if spec.fld == s.FIsRunning && f != newState {
					// value must be the result of the running-class predicate
					v, _ := StoredValue(in, s.FIsRunning)
					okv := false
					for _, l := range shallowSources(v) {
						if call, isCall := l.(*ssa.Call); isCall {
							if sc := call.Call.StaticCallee(); sc != nil && s.IsProcessMethod(sc) && p.Deep(LoadOf("Status", s.FStatus)).May(sc) {
								okv = true
							}
						}
					}
					ok = ok && okv
				}
				writers = append(writers, p.FuncKey(f))
				c.Check(ok, rW, spec.name+":"+p.FuncKey(f), p.InstrPos(in), "legal writer", spec.name+" is written outside its designated writer (or Status without stateMtx)")
			}
		}
		sort.Strings(writers)
		c.Note("%s writers: %s", spec.name, strings.Join(writers, ", "))
	}
	c.Floor(rW, 6, "state field writers")

	// ------------------------------------------------------------------ (2)
	rRun := c.Rule("isrunning-table", "the predicate whose result is stored to IsRunning is true exactly for Status in {Running, Launching, Launched}")
	var preds []*ssa.Function
	for _, f := range p.FuncsOfPkg("app") {
		for _, in := range DirectSites(f, StoreTo("w", s.FIsRunning)) {
			v, _ := StoredValue(in, s.FIsRunning)
			for _, l := range shallowSources(v) {
				if call, ok := l.(*ssa.Call); ok {
					if sc := call.Call.StaticCallee(); sc != nil && s.IsProcessMethod(sc) {
						preds = appendUniq(preds, sc)
					}
				}
			}
		}
	}
	var states []string
	for _, k := range SortedKeys(st) {
		states = append(states, st[k])
	}
	for _, pr := range preds {
		c.RunTable(rRun, p.FuncKey(pr), &TableSpec{Fn: pr, ExtraStrings: states,
			Rename: func(raw string) string {
				if strings.HasSuffix(raw, ".procState.Status") {
					return "status"
				}
				return ""
			}},
			&TableCheck{
				Keys: map[string][]constant.Value{"status": Strs(append(states, "", OtherString)...)},
				Expected: func(val map[string]constant.Value) string {
					v := VStr(val, "status")
					return fmt.Sprint(v == running || v == launching || v == launched)
				},
				Observed: func(l *Leaf) string {
					if len(l.Returns) == 1 && l.Returns[0].K == avConst {
						return l.Returns[0].C.ExactString()
					}
					return fmt.Sprint(l.Returns)
				},
			})
	}
	c.Floor(rRun, 1, "running-class predicate")

	// ------------------------------------------------------------------ (3)
	rCtx := c.Rule("status-assignment-contexts", "each status constant reaches a status setter only from its legal context (see explanation); every constant passed to the terminal function is one of Completed, Error, Skipped")
	isTerminal := func(f *ssa.Function) bool {
		for _, t := range s.Terminals {
			if t == f {
				return true
			}
		}
		return false
	}
	isStopCore := func(f *ssa.Function) bool {
		for _, t := range s.StopCores {
			if t == f {
				return true
			}
		}
		return false
	}
	var setters []*ssa.Function
	for _, f := range s.StatusSetter {
		if f != newState {
			setters = append(setters, f)
		}
	}
	waitDeep := p.Deep(MethodOnField("command.Wait", s.FCommand, s.MWait))
	launchDeep := p.Deep(s.LaunchSite)
	decCalls := DirectSites(run, CallOfFn("RestartDecision", s.RestartDecs...))
	nSites := 0
	for _, f := range p.FuncsOfPkg("app") {
		for _, in := range DirectSites(f, CallOfFn("setter|terminal", append(append([]*ssa.Function{}, setters...), s.Terminals...)...)) {
			call, ok := in.(*ssa.Call)
			if !ok {
				continue
			}
			callee := call.Call.StaticCallee()
			args := ArgsOf(&call.Call)
			if len(args) == 0 {
				continue
			}
			consts, complete := p.stringConstsOf(args[0])
			if _, isParam := stripConv(args[0]).(*ssa.Parameter); isParam && (isTerminal(f)) {
				continue // pass-through of the terminal function's own argument
			}
			if !complete || len(consts) == 0 {
				c.Bad(rCtx, "non-constant:"+p.FuncKey(f), p.InstrPos(call), "a status that cannot be resolved to constants is assigned")
				continue
			}
			for _, k := range consts {
				nSites++
				role := p.FuncKey(f)
				switch {
				case isStopCore(f):
					role = "stop-core"
				case f == run:
					role = "run-entry"
				}
				key := fmt.Sprintf("%s@%s", k, role)
				if isTerminal(callee) {
					c.Check(k == completed || k == errorSt || k == skipped, rCtx, "terminal-arg:"+key, p.InstrPos(call),
						"terminal state constant", "the terminal function is called with the non-terminal state "+k+": the process is marked done but keeps reporting a transient status forever")
					continue
				}
				switch k {
				case running, launching:
					c.Check(launchDeep.MayAt(call), rCtx, "assign:"+key, p.InstrPos(call), "assigned by the call that launches (same critical section)", k+" is assigned by a call that does not launch the command")
				case launched:
					r := MustPrecede(f, waitDeep, func(x ssa.Instruction) bool { return x == in }, nil)
					c.Check(f == run && r.OK, rCtx, "assign:"+key, p.InstrPos(call), "Launched assigned after command.Wait() in the run loop", "Launched is assigned without a preceding command.Wait() in the run loop")
				case restarting:
					dom := false
					for _, dc := range decCalls {
						te, _ := boolResultEdges(dc.(*ssa.Call))
						for _, g := range te {
							if EdgeDominates(g.If.Block(), g.Succ, in.Block()) {
								dom = true
							}
						}
					}
					c.Check(f == run && dom, rCtx, "assign:"+key, p.InstrPos(call), "Restarting assigned on the restart edge", "Restarting is assigned outside the restart edge of the run loop")
				case terminating:
					c.Check(isStopCore(f), rCtx, "assign:"+key, p.InstrPos(call), "Terminating assigned by the stop core", "Terminating is assigned outside the stop core")
				case completed, errorSt, skipped:
					c.Bad(rCtx, "assign:"+key, p.InstrPos(call), "a terminal state is assigned without going through the terminal function (latches are not released, done is not set)")
				case pending, disabled, foreground:
					c.Bad(rCtx, "assign:"+key, p.InstrPos(call), "an initial state is assigned after construction")
				default:
					c.Bad(rCtx, "assign:"+key, p.InstrPos(call), "unknown status constant "+k)
				}
			}
		}
	}
	if nSites < 6 {
		c.Bad(rCtx, "floor:status-sites", "", fmt.Sprintf("expected at least 6 status assignment sites, found %d", nSites))
	}
	// failed launch reaches Terminal(Error)
	termErr := Site{Name: "Terminal(Error)", Call: func(cc *ssa.CallCommon) bool {
		sc := cc.StaticCallee()
		if !isTerminal(sc) {
			return false
		}
		for _, a := range ArgsOf(cc) {
			if v, ok := ConstString(a); ok && v == errorSt {
				return true
			}
		}
		return false
	}}
	nl := 0
	AllInstrs(run, func(in ssa.Instruction) {
		call, ok := in.(*ssa.Call)
		if !ok || !launchDeep.MayAt(call) {
			return
		}
		nl++
		r := MustFollow([]Pt{after(call)}, p.Deep(termErr), ErrNilEdge(call, false))
		c.PathCheck(r, rCtx, "launch-error-is-Error:"+p.FuncKey(run), p.InstrPos(call), "a failed launch reaches Terminal(Error) on every path", "when the launch fails a path does not mark the process Error (it keeps reporting Running/Launching)")
	})
	if nl == 0 {
		c.Bad(rCtx, "launch-error-is-Error:none", FirstPos(p, run), "no launch call in the run entry")
	}

	s.checkExitCodeProvenance(c, "exitcode-provenance")

	// ------------------------------------------------------------------ (5), (6)
	s.checkNonzeroCodeForNonRun(c, "nonzero-code-for-nonrun")
	s.checkLatchesReleased(c, "no-stuck-transient")
	s.checkHealthReset(c, "health-reset")
	s.checkStatusStoreCallsHook(c, "status-store-calls-hook")
	s.checkDaemonRelease(c, "daemon-released-after-configured-stop")
	s.checkProberLifecycle(c, "prober-lifecycle")
	s.checkStartRefusedWhenRegistered(c, "one-supervisor-per-state-record")
	// a stop request changes the status of running-class and Pending processes only (terminal states stay)
	s.checkStopCoreTable(c, "stop-core-explicit-table", "explicit")
	// the derived fields of the record (is_running ...) are refreshed when the terminal status is stored: once the
	// instance is unregistered the registry hands out the record as it is
	{
		rT := c.Rule("terminal-refreshes-is-running", "in the terminal function every path from the call that stores the final status to the return passes a store of IsRunning (computed from the status) into the state record")
		refresh := p.Deep(StoreTo("IsRunning", s.FIsRunning))
		for _, t := range s.Terminals {
			c.Touch(t)
			var setCalls []ssa.Instruction
			AllInstrs(t, func(in ssa.Instruction) {
				if call, ok := in.(*ssa.Call); ok && p.Deep(StoreTo("Status", s.FStatus)).MayAt(call) {
					setCalls = append(setCalls, in)
				}
			})
			okT := len(setCalls) > 0
			for _, sc := range setCalls {
				if refresh.MustAt(sc) {
					continue
				}
				r := MustFollow([]Pt{after(sc)}, refresh, nil)
				if !r.OK {
					okT = false
				}
			}
			c.Check(okT, rT, p.FuncKey(t), FirstPos(p, t), "is_running is refreshed after the final status", "the terminal function stores the final status without refreshing IsRunning in the record: after the instance is unregistered the API keeps reporting is_running=true for a process that has ended")
		}
	}
	// while the instance is registered the API reads the record through the instance's getters: they refresh the
	// derived fields first (IsRunning is otherwise only written at the terminal state)
	{
		rG := c.Rule("state-getters-refresh", "every Process method that returns the state record (or hands it to a callback parameter) first passes, on every path, a store of IsRunning computed from the current status")
		refresh := p.Deep(StoreTo("IsRunning", s.FIsRunning))
		nG := 0
		for _, f := range p.FuncsOfPkg("app") {
			if !s.IsProcessMethod(f) || f.Parent() != nil {
				continue
			}
			var uses []ssa.Instruction
			res := f.Signature.Results()
			if res.Len() == 1 && (isPtrTo(res.At(0).Type(), s.ProcState) || types.Identical(res.At(0).Type(), s.ProcState)) {
				for _, ret := range returnsOf(f) {
					v := RetVals(ret)[0]
					if PathOf(v).LastField() == s.FProcState || PathOf(v).HasField(s.FProcState) {
						uses = append(uses, ret)
					}
				}
			}
			AllInstrs(f, func(in ssa.Instruction) {
				call, ok := in.(*ssa.Call)
				if !ok || call.Call.IsInvoke() {
					return
				}
				if _, isPrm := call.Call.Value.(*ssa.Parameter); !isPrm {
					return
				}
				for _, a := range call.Call.Args {
					if PathOf(a).LastField() == s.FProcState {
						uses = append(uses, in)
					}
				}
			})
			if len(uses) == 0 {
				continue
			}
			nG++
			c.Touch(f)
			r := MustPrecede(f, refresh, func(in ssa.Instruction) bool { return isOneOf(in, uses) }, nil)
			c.Check(r.OK, rG, p.FuncKey(f), FirstPos(p, f), "derived fields refreshed before the record is handed out", "the state record is handed out without refreshing IsRunning: a running process is reported with is_running=false (the field is otherwise written only when the process ends)")
		}
		c.Check(nG >= 1, rG, "floor:getters", "", "state getters found", "no Process method hands out the state record")
	}
	rRec := c.Rule("registry-record-is-live-record", "the function that moves a process to another name re-registers the state record it found (the one the instance writes to), not a copy, and stores the new name into it on every path through the move")
	nRen := 0
	for _, f := range p.FuncsOfPkg("app") {
		if !s.IsRunnerMethod(f) || f.Parent() != nil {
			continue
		}
		if !s.isRenameFn(f) {
			continue
		}
		nRen++
		c.Touch(f)
		s.checkRenameKeepsRecord(c, rRec, f)
	}
	if nRen == 0 {
		c.Bad(rRec, "rename:function", "", "no rename function found")
	}
}

// stringConstsOf resolves a string value to the constants it may hold
// (through phis and calls of repository functions returning constants).
func (p *Prog) stringConstsOf(v ssa.Value) ([]string, bool) {
	if sv, ok := ConstString(v); ok {
		return []string{sv}, true
	}
	switch x := stripConv(v).(type) {
	case *ssa.Phi:
		var out []string
		for _, e := range x.Edges {
			r, ok := p.stringConstsOf(e)
			if !ok {
				return nil, false
			}
			out = append(out, r...)
		}
		return out, true
	case *ssa.Call:
		sc := x.Call.StaticCallee()
		if sc == nil || sc.Blocks == nil {
			return nil, false
		}
		var out []string
		for _, r := range returnsOf(sc) {
			if len(r.Results) != 1 {
				return nil, false
			}
			rr, ok := p.stringConstsOf(r.Results[0])
			if !ok {
				return nil, false
			}
			out = append(out, rr...)
		}
		return out, len(out) > 0
	}
	return nil, false
}

// checkHealthReset (C09, C10): table of the status-change hook.
func (s *Sel) checkHealthReset(c *Ctx, ruleID string) {
	p := c.P
	rule := c.Rule(ruleID, "assigning Restarting, Launching or Terminating resets Health to unknown; no other status assignment changes Health")
	st := p.ConstGroup("types", "ProcessState")
	var states []string
	for _, k := range SortedKeys(st) {
		states = append(states, st[k])
	}
	unknown, _ := constString(p.Const("types", "ProcessHealthUnknown"))
	var setters []*ssa.Function
	newState := p.Func("types", "NewProcessState")
	for _, f := range s.StatusSetter {
		if f != newState && len(f.Params) == 2 {
			setters = append(setters, f)
		}
	}
	for _, f := range setters {
		c.RunTable(rule, p.FuncKey(f), &TableSpec{Fn: f, ExtraStrings: states, Focus: map[string]bool{"state": true},
			Rename: func(raw string) string {
				switch {
				case raw == "p1":
					return "state"
				case strings.HasSuffix(raw, ".procState.Health"):
					return "health"
				case strings.HasSuffix(raw, ".procState.Status"):
					return "status"
				}
				return ""
			}},
			&TableCheck{
				Keys: map[string][]constant.Value{"state": Strs(states...)},
				Judge: func(val map[string]constant.Value, l *Leaf) (bool, string, string) {
					state := VStr(val, "state")
					h := "unchanged"
					if m, ok := l.Mem["health"]; ok {
						h = m.String()
					}
					stt := "unchanged"
					if m, ok := l.Mem["status"]; ok {
						stt = m.String()
					}
					obs := fmt.Sprintf("Status:=%s Health:=%s", stt, h)
					wantH := "unchanged"
					if state == st["ProcessStateRestarting"] || state == st["ProcessStateLaunching"] || state == st["ProcessStateTerminating"] {
						wantH = fmt.Sprintf("%q", unknown)
					}
					exp := fmt.Sprintf("Status:=%q Health:=%s", state, wantH)
					return obs == exp, exp, obs
				},
			})
	}
	c.Floor(rule, 1, "status setter")
}

// shallowSources follows phis and conversions only.
func shallowSources(v ssa.Value) []ssa.Value {
	var out []ssa.Value
	seen := map[ssa.Value]bool{}
	var walk func(v ssa.Value)
	walk = func(v ssa.Value) {
		v = stripConv(v)
		if seen[v] {
			return
		}
		seen[v] = true
		if ph, ok := v.(*ssa.Phi); ok {
			for _, e := range ph.Edges {
				walk(e)
			}
			return
		}
		out = append(out, v)
	}
	walk(v)
	return out
}

// checkExitCodeProvenance (C09, C01, C05): who may write the exit code a
// dependent's gate reads.
func (s *Sel) checkExitCodeProvenance(c *Ctx, ruleID string) {
	p := c.P
	st := p.ConstGroup("types", "ProcessState")
	errorSt, skipped := st["ProcessStateError"], st["ProcessStateSkipped"]
	newState := p.Func("types", "NewProcessState")
	var setters []*ssa.Function
	for _, f := range s.StatusSetter {
		if f != newState {
			setters = append(setters, f)
		}
	}
	isTerminal := func(f *ssa.Function) bool {
		for _, t := range s.Terminals {
			if t == f {
				return true
			}
		}
		return false
	}
	waitDeep := p.Deep(MethodOnField("command.Wait", s.FCommand, s.MWait))
	rExit := c.Rule(ruleID, "every call of the exit-code setter passes command.ExitCode() of this process read after command.Wait(), or a non-zero constant from the status-change hook for Skipped/Error; nobody writes another process's exit code")
	var exitSetters []*ssa.Function
	for _, f := range p.FuncsWith(StoreTo("w", s.FExitCode)) {
		if f != newState {
			exitSetters = appendUniq(exitSetters, f)
		}
	}
	nE := 0
	for _, f := range p.FuncsOfPkg("app") {
		for _, in := range DirectSites(f, CallOfFn("setExitCode", exitSetters...)) {
			call, ok := in.(*ssa.Call)
			if !ok {
				continue
			}
			nE++
			c.Touch(f)
			args := ArgsOf(&call.Call)
			if len(args) != 1 {
				continue
			}
			if k, isConst := ConstInt(args[0]); isConst {
				// constant: only in a status-change hook (a function reached only from the status setters)
				inHook := p.onlyReachedFrom(f, setters, 0) && !isTerminal(f)
				okc := inHook && k != 0
				// and on a Skipped/Error case
				if okc {
					okc = false
					for _, g := range GuardsOf(call) {
						if cmp, okg := g.Cmp(); okg && cmp.Op.String() == "==" {
							for _, v := range []ssa.Value{cmp.X, cmp.Y} {
								if sv, oks := ConstString(v); oks && (sv == skipped || sv == errorSt) {
									okc = true
								}
							}
						}
					}
				}
				role := p.FuncKey(f)
				for _, k2 := range []latchKind{latchReady, latchLogReady} {
					for _, w := range s.WaitPrims(k2) {
						if w == f {
							role = "wait-on-" + k2.String()
						}
					}
				}
				c.Check(okc, rExit, "const:"+role, p.InstrPos(call), "non-zero constant for a never-run state", "a constant exit code is stored outside the Skipped/Error status-change hook: the reported exit code is not that of the process's last command (e.g. a waiting dependent overwrites the code of its dependency)")
				continue
			}
			isCmdExit := false
			if vc, isCall := stripConv(args[0]).(*ssa.Call); isCall {
				if sameFunc(CalleeObj(&vc.Call), s.MExitCode) && PathOf(ReceiverOf(&vc.Call)).LastField() == s.FCommand {
					isCmdExit = true
				}
			}
			r := MustPrecede(f, waitDeep, func(x ssa.Instruction) bool { return x == in }, nil)
			c.Check(isCmdExit && r.OK, rExit, "value:"+p.FuncKey(f), p.InstrPos(call), "command.ExitCode() after Wait()", "the exit code stored is not command.ExitCode() read after command.Wait()")
		}
	}
	if nE < 2 {
		c.Bad(rExit, "floor:setter-sites", "", "expected at least two call sites of the exit-code setter")
	}
	// the implementations behind command.ExitCode(): a commander that wraps an OS command (exec.Cmd) reports the
	// code of os.ProcessState on every path; in particular it never answers the constant 0 on its own (death by a
	// signal has ProcessState.ExitCode() == -1 and must not read as success)
	nImpl := 0
	for _, f := range p.implementationsOf(s.MExitCode) {
		if !wrapsExecCmd(f) {
			continue
		}
		nImpl++
		c.Touch(f)
		ok, why := true, ""
		for _, ret := range returnsOf(f) {
			if len(ret.Results) != 1 {
				continue
			}
			v := stripConv(RetVals(ret)[0])
			if k, isK := ConstInt(v); isK {
				if k == 0 {
					ok, why = false, "returns the constant 0 on a path"
				}
				continue
			}
			if !exitCodeOfOS(p, v, 0) {
				ok, why = false, "returns a value that is not os.ProcessState.ExitCode()"
			}
		}
		c.Check(ok, rExit, "impl:"+p.FuncKey(f), FirstPos(p, f), "reports the operating system's exit code on every path", "the commander's ExitCode "+why+": a command that did not exit by itself (killed by a signal, crashed) is reported with a code that is not the operating system's, so `process_completed_successfully` dependents and exit-code based decisions see success")
	}
	if nImpl < 1 {
		c.Bad(rExit, "floor:commander-implementations", "", "no commander implementation wrapping exec.Cmd found")
	}
}

// implementationsOf lists the source functions implementing an interface method.
func (p *Prog) implementationsOf(m *types.Func) []*ssa.Function {
	var out []*ssa.Function
	for _, f := range p.Funcs {
		if f.Parent() != nil || f.Signature.Recv() == nil || f.Name() != m.Name() || f.Object() == nil {
			continue
		}
		iface, ok := m.Type().(*types.Signature).Recv().Type().Underlying().(*types.Interface)
		if !ok {
			continue
		}
		if types.Implements(f.Signature.Recv().Type(), iface) {
			out = append(out, f)
		}
	}
	return out
}

// wrapsExecCmd: the receiver struct holds an *exec.Cmd (directly or through an embedded struct).
func wrapsExecCmd(f *ssa.Function) bool {
	t := f.Signature.Recv().Type()
	if pt, ok := t.(*types.Pointer); ok {
		t = pt.Elem()
	}
	var has func(t types.Type, depth int) bool
	has = func(t types.Type, depth int) bool {
		st, ok := t.Underlying().(*types.Struct)
		if !ok || depth > 3 {
			return false
		}
		for i := 0; i < st.NumFields(); i++ {
			ft := st.Field(i).Type()
			if pt, ok := ft.(*types.Pointer); ok {
				ft = pt.Elem()
			}
			if nt, ok := ft.(*types.Named); ok && nt.Obj().Pkg() != nil && nt.Obj().Pkg().Path() == "os/exec" && nt.Obj().Name() == "Cmd" {
				return true
			}
			if st.Field(i).Embedded() && has(ft, depth+1) {
				return true
			}
		}
		return false
	}
	return has(t, 0)
}

// exitCodeOfOS: v is the result of (*os.ProcessState).ExitCode(), possibly through phis or a delegating call to
// another ExitCode implementation.
func exitCodeOfOS(p *Prog, v ssa.Value, depth int) bool {
	if depth > 4 {
		return false
	}
	switch x := stripConv(v).(type) {
	case *ssa.Call:
		if o := CalleeObj(&x.Call); o != nil && o.Name() == "ExitCode" {
			if o.Pkg() != nil && o.Pkg().Path() == "os" {
				return true
			}
			if sc := x.Call.StaticCallee(); sc != nil && len(sc.Blocks) > 0 && wrapsExecCmd(sc) {
				return true // judged at that implementation
			}
		}
	case *ssa.Phi:
		for _, e := range x.Edges {
			if k, isK := ConstInt(e); isK {
				if k == 0 {
					return false
				}
				continue
			}
			if !exitCodeOfOS(p, e, depth+1) {
				return false
			}
		}
		return true
	}
	return false
}

// checkDaemonRelease (C09, C12): the daemon wait is released by the configured
// stop after, and only after, the shutdown command has finished - on every path.
func (s *Sel) checkDaemonRelease(c *Ctx, ruleID string) {
	p := c.P
	rule := c.Rule(ruleID, "in the function that runs the configured shutdown command the daemon wait is released (send on procStateChan) on every path to return, and no release is reachable before the shutdown command has been run (a daemon must neither stay Terminating forever when its stop command fails nor be reported done while the stop command is still running)")
	release := p.Deep(Site{Name: "send procStateChan", Instr: func(in ssa.Instruction) bool {
		sd, ok := in.(*ssa.Send)
		return ok && PathOf(sd.Chan).LastField() == s.FStateChan
	}})
	n := 0
	for _, f := range p.FuncsOfPkg("app") {
		if !s.IsProcessMethod(f) {
			continue
		}
		var runs []ssa.Instruction
		AllInstrs(f, func(in ssa.Instruction) {
			call, ok := in.(*ssa.Call)
			if !ok {
				return
			}
			o := CalleeObj(&call.Call)
			if o == nil || o.Name() != "Run" {
				return
			}
			bc, isB := stripConv(ReceiverOf(&call.Call)).(*ssa.Call)
			if !isB {
				return
			}
			for _, a := range bc.Call.Args {
				if PathOf(a).LastField() == s.FShutDownCommand {
					runs = append(runs, in)
				}
			}
		})
		if len(runs) == 0 {
			continue
		}
		n++
		c.Touch(f)
		var notifyFns []*ssa.Function
		for _, g := range p.FuncsOfPkg("app") {
			if s.IsProcessMethod(g) && len(DirectSites(g, release.site)) > 0 {
				notifyFns = append(notifyFns, g)
			}
		}
		notify := p.Deep(Or("notify", release.site, CallOfFn("notifyDaemonStopped", notifyFns...)))
		c.Check(notify.Always(f), rule, p.FuncKey(f)+":always", FirstPos(p, f), "released on every path", "a path of the configured stop (e.g. a failing shutdown command) does not release the daemon wait: the daemon stays Terminating for ever and Run() never returns")
		vis := Reach(Entry(f), func(in ssa.Instruction) bool { return isOneOf(in, runs) }, nil)
		early := false
		for in := range vis {
			if isOneOf(in, runs) {
				continue
			}
			if _, isRD := in.(*ssa.RunDefers); isRD {
				continue
			}
			if release.MayAt(in) {
				early = true
			}
		}
		c.Check(!early, rule, p.FuncKey(f)+":not-before-command", FirstPos(p, f), "no release before the shutdown command ran", "the daemon wait can be released before the shutdown command has run")
		// callers: the stop core must not release before calling this function
		for _, cr := range p.Callers(f) {
			vis := Reach(Entry(cr.Caller), func(in ssa.Instruction) bool { return in == cr.Instr }, nil)
			bad := false
			for in := range vis {
				if in != cr.Instr && release.MayAt(in) {
					if _, isRD := in.(*ssa.RunDefers); !isRD {
						bad = true
					}
				}
			}
			c.Check(!bad, rule, p.FuncKey(cr.Caller)+":not-before-command", p.InstrPos(cr.Instr), "the caller does not release the daemon wait before the configured stop", "the daemon wait is released before the configured shutdown command is run: the daemon is reported done (and the processes it depends on are stopped) while it is still alive")
		}
	}
	if n == 0 {
		c.Bad(rule, "none", "", "no function runs the configured shutdown command")
	}
	// the notification itself: sent whenever the process is a daemon - it does not depend on the recorded exit
	// code or status (which other goroutines write) - and the wait is released by nothing but that notification
	for _, g := range p.FuncsOfPkg("app") {
		if !s.IsProcessMethod(g) {
			continue
		}
		for _, sd := range DirectSites(g, release.site) {
			okG := true
			for _, gd := range GuardsOf(sd) {
				v, _ := gd.BoolVal()
				if PathOf(v).LastField() == s.FIsDaemon {
					continue
				}
				if cmp, isCmp := gd.Cmp(); isCmp && (PathOf(cmp.X).LastField() == s.FIsDaemon || PathOf(cmp.Y).LastField() == s.FIsDaemon) {
					continue
				}
				okG = false
			}
			c.Touch(g)
			c.Check(okG, rule, "notify-guard:"+p.FuncKey(g), p.InstrPos(sd), "the notification depends on IsDaemon only", "the daemon-stopped notification is sent only under a condition other than IsDaemon (for instance the recorded exit code, which a waiting dependent or a failed earlier launch may have set): the one-shot notification is dropped, the run loop stays in the daemon wait, the process stays Launched/Terminating for ever and shutdown hangs")
		}
	}
	for _, g := range p.FuncsOfPkg("app") {
		if !s.IsProcessMethod(g) || g.Parent() != nil {
			continue
		}
		AllInstrs(g, func(in ssa.Instruction) {
			sel, ok := in.(*ssa.Select)
			if !ok {
				return
			}
			hasState, other := false, false
			for _, st := range sel.States {
				if st.Dir == types.RecvOnly && PathOf(st.Chan).LastField() == s.FStateChan {
					hasState = true
				} else {
					other = true
				}
			}
			if hasState {
				c.Check(!other && sel.Blocking, rule, "wait-only-notification:"+p.FuncKey(g), p.InstrPos(sel), "the daemon wait ends only on the notification", "the daemon wait can also end on another event (for instance the cancellation of the run context, which the stop core performs before it runs the shutdown command): the daemon is reported done, unregistered and its dependencies are stopped while it is still alive, and a start request is accepted next to it")
			}
		})
	}
}
