package pcv

import (
	"go/token"
	"go/types"

	"golang.org/x/tools/go/ssa"
)

func init() {
	register(&PropCheck{
		ID: "C08",
		Explanation: "Manual start/stop/restart, structural part: (1) in the explicit-start operations the membership test on runningProcesses and the registration of the new instance are one critical section of runProcMutex; " +
			"(2) the restart operation joins a completion wait of the old instance on every path between its stop and the spawn; " +
			"(3) the removal from runningProcesses at the end of the process goroutine is guarded by identity with the registered instance; " +
			"(4) every explicit stop stores the no-restart flag first; (5) in start/stop/scale the unknown-name outcome is reached without any spawn, stop or map mutation and returns an error.",
		Assumptions: []string{"instance overlap at the OS level and outcomes of arbitrary request histories are not decided; lock identity of the runner is by field"},
		Run:         runC08,
	})
}

// apiMethod returns the ProjectRunner method implementing an IProject method.
func (s *Sel) apiMethod(name string) *ssa.Function {
	m := s.p.IfaceMethod("app", "IProject", name)
	f := s.p.TryMethod("app", "ProjectRunner", m.Name())
	if f == nil {
		broken("ANCHOR-UNRESOLVED ProjectRunner does not implement IProject.%s", name)
	}
	return f
}

func runC08(c *Ctx) {
	p := c.P
	s := p.Selectors()
	{
		roots := p.reachableFrom(s.apiMethod("StartProcess"), s.apiMethod("StopProcess"), s.apiMethod("RestartProcess"), s.apiMethod("StopProcesses"))
		s.checkErrorsNotSwallowed(c, "errors-not-swallowed", func(f *ssa.Function) bool { return roots[f] && inPkgs("app")(f) }, "a failed start/stop/restart would be reported as done")
	}
	s.checkFailedShutdownCommandKills(c)
	s.checkDaemonRelease(c, "daemon-released-after-configured-stop")
	{
		rR := c.Rule("rename-unregisters-first", "the function that moves a process to another name removes the instance from the registry of running instances before it changes the instance's name and registers it again afterwards")
		nR := 0
		for _, f := range p.FuncsOfPkg("app") {
			if s.isRenameFn(f) {
				nR++
				c.Touch(f)
				s.checkRenameUnregistersFirst(c, rR, f)
			}
		}
		if nR == 0 {
			c.Bad(rR, "rename:function", "", "no rename function found")
		}
	}
	ls := p.Locksets(s.Runner)
	spawnSite := CallOfFn("Spawn", s.Spawns...)
	spawnDeep := p.Deep(spawnSite)
	lookupRun := p.Deep(MapLookupOn("lookup runningProcesses", s.FRunning))
	insertRun := p.Deep(MapUpdateOn("insert runningProcesses", s.FRunning))

	// ------------------------------------------------------------------ (1)
	rAtomic := c.Rule("check-and-register-atomic", "in StartProcess and RestartProcess the test whether an instance is registered and the registration of the new instance (inside the spawn function) happen while runProcMutex is held continuously")
	for _, name := range []string{"StartProcess", "RestartProcess"} {
		f := s.apiMethod(name)
		c.Touch(f)
		var lookups, spawns []ssa.Instruction
		AllInstrs(f, func(in ssa.Instruction) {
			call, ok := in.(*ssa.Call)
			if !ok {
				return
			}
			if lookupRun.MayAt(call) && !spawnDeep.MayAt(call) && !p.Deep(s.stopCoreCall(true, true)).MayAt(call) {
				lookups = append(lookups, in)
			}
			if spawnDeep.MayAt(call) {
				spawns = append(spawns, in)
			}
		})
		if len(lookups) == 0 || len(spawns) == 0 {
			c.Bad(rAtomic, name+":shape", FirstPos(p, f), "the operation does not test the registry before spawning")
			continue
		}
		ok := true
		for _, sp := range spawns {
			if !ls.Holds(sp, s.FRunProcMutex, "") {
				ok = false
			}
		}
		for _, lk := range lookups {
			if !ls.Holds(lk, s.FRunProcMutex, "") {
				ok = false
			}
		}
		c.Check(ok, rAtomic, name, p.InstrPos(spawns[0]), "test and registration are one critical section", "the registry test and the registration of the new instance are separate critical sections of runProcMutex: two concurrent requests can both see 'not running' and both spawn an instance")
	}

	// ------------------------------------------------------------------ (2)
	rRestart := c.Rule("restart-awaits-exit", "in RestartProcess every path from the stop of the old instance to the spawn of the new one passes a completion wait of the old instance")
	{
		f := s.apiMethod("RestartProcess")
		stopDeep := p.Deep(s.stopCoreCall(true, false))
		waitDeep := p.Deep(Or("waitForCompletion", CallOfFn("wait", s.WaitPrims(latchDone)...), s.waitSite(latchDone)))
		n := 0
		AllInstrs(f, func(in ssa.Instruction) {
			call, ok := in.(*ssa.Call)
			if !ok || !stopDeep.MayAt(call) {
				return
			}
			n++
			vis := Reach([]Pt{after(call)}, waitDeep.MustAt, nil)
			bad := false
			for x := range vis {
				if cc, ok := x.(*ssa.Call); ok && spawnDeep.MayAt(cc) && !waitDeep.MustAt(cc) {
					bad = true
				}
			}
			c.Check(!bad, rRestart, p.FuncKey(f), p.InstrPos(call), "completion of the old instance is awaited before the spawn", "the new instance can be spawned while the old command is still alive (only a fixed sleep separates them)")
			// the stop is made for every registered instance, whatever state it is in: its only guard is the
			// registry lookup having returned an instance
			okG := true
			for _, gd := range GuardsOf(call) {
				cmp, isCmp := gd.Cmp()
				if isCmp && cmp.Op == token.NEQ && (IsNilConst(cmp.X) || IsNilConst(cmp.Y)) {
					other := cmp.X
					if IsNilConst(cmp.X) {
						other = cmp.Y
					}
					if isPtrTo(other.Type(), s.Process) {
						continue
					}
				}
				if v, _ := gd.BoolVal(); v != nil {
					if ex, isEx := v.(*ssa.Extract); isEx && ex.Index == 1 {
						if lk, isLk := ex.Tuple.(*ssa.Lookup); isLk && PathOf(lk.X).LastField() == s.FRunning {
							continue
						}
					}
				}
				okG = false
			}
			c.Check(okG, rRestart, p.FuncKey(f)+":stop-guard", p.InstrPos(call), "every registered instance is stopped and awaited first", "the restart stops (and awaits) the old instance only under a condition on its state: an instance that is registered but between restarts, pending or terminating is left alone, the new instance is spawned next to it (two live instances, one unreachable) or inherits its Terminating state and never launches")
		})
		if n == 0 {
			c.Bad(rRestart, p.FuncKey(f)+":no-stop", FirstPos(p, f), "RestartProcess does not stop the running instance")
		}
	}

	// ------------------------------------------------------------------ (3)
	rIdent := c.Rule("identity-guarded-removal", "every delete from runningProcesses that the process goroutine performs for its own instance is guarded by pointer equality between the registered value and that instance")
	del := MapDeleteOn("delete runningProcesses", s.FRunning)
	nDel := 0
	for _, g := range s.ProcGo {
		seen := map[*ssa.Function]bool{}
		var visit func(f *ssa.Function, d int)
		visit = func(f *ssa.Function, d int) {
			if f == nil || seen[f] || f.Blocks == nil || d > 3 {
				return
			}
			seen[f] = true
			for _, in := range DirectSites(f, del) {
				nDel++
				c.Touch(f)
				c.Check(identityGuarded(in, s), rIdent, p.FuncKey(f), p.InstrPos(in), "delete guarded by identity with the registered instance", "the goroutine of a finished instance deletes the registry entry by name: it unregisters a newer instance started under the same name (which then runs unsupervised and a second start succeeds)")
			}
			AllInstrs(f, func(in ssa.Instruction) {
				if cc := CallCommonOf(in); cc != nil {
					if _, isGo := in.(*ssa.Go); isGo {
						return
					}
					fns, _ := p.Callees(cc, false)
					for _, fn := range fns {
						if s.IsRunnerMethod(fn) {
							visit(fn, d+1)
						}
					}
				}
			})
		}
		visit(g, 0)
	}
	if nDel == 0 {
		c.Bad(rIdent, "none", "", "the process goroutine never removes its instance from runningProcesses")
	}

	// ------------------------------------------------------------------ (4)
	s.checkStopSetsFlagFirst(c, "stop-is-no-restart")
	s.checkRefusalMatchesPendingStop(c, "stopped-pending-never-launches")

	s.checkStartRefusedWhenRegistered(c, "start-refused-when-registered")

	// ------------------------------------------------------------------ (5)
	rUnknown := c.Rule("unknown-name-no-effect", "in StartProcess, StopProcess and ScaleProcess the branch on which the name is not found in project.Processes is reached without a spawn, a stop or a mutation of the runner's maps, performs none afterwards and returns a non-nil error")
	effect := p.Deep(Or("effect", spawnSite, s.stopCoreCall(true, true),
		MapUpdateOn("w1", s.FRunning), MapDeleteOn("d1", s.FRunning), MapUpdateOn("w2", s.FProcesses), MapDeleteOn("d2", s.FProcesses),
		MapUpdateOn("w3", s.FStates), MapDeleteOn("d3", s.FStates), MapUpdateOn("w4", s.FLogs), MapDeleteOn("d4", s.FLogs)))
	_ = insertRun
	for _, name := range []string{"StartProcess", "StopProcess", "ScaleProcess"} {
		f := s.apiMethod(name)
		c.Touch(f)
		n := 0
		for _, b := range f.Blocks {
			ifi := IfOf(b)
			if ifi == nil {
				continue
			}
			v, pos := BoolCond(ifi.Cond)
			ex, ok := v.(*ssa.Extract)
			if !ok || ex.Index != 1 {
				continue
			}
			lk, ok := ex.Tuple.(*ssa.Lookup)
			if !ok || !lk.CommaOk || PathOf(lk.X).LastField() != s.FProcesses {
				continue
			}
			n++
			notFound := 1
			if !pos {
				notFound = 0
			}
			// (a) no effect before reaching the not-found edge
			pre := Reach(Entry(f), func(in ssa.Instruction) bool { return in == ssa.Instruction(ifi) }, nil)
			bad := ssa.Instruction(nil)
			for in := range pre {
				if effect.MayAt(in) && EdgeReachable(in, ifi) {
					bad = in
				}
			}
			// (b) none after, and error returned
			post := Reach([]Pt{{b.Succs[notFound], 0}}, nil, nil)
			errRet := true
			for in := range post {
				if effect.MayAt(in) {
					bad = in
				}
				if ret, ok := in.(*ssa.Return); ok {
					if len(ret.Results) == 0 || IsNilConst(RetVals(ret)[len(ret.Results)-1]) {
						errRet = false
					}
				}
			}
			if bad != nil {
				c.Bad(rUnknown, name+":no-effect", p.InstrPos(bad), "a request naming an unknown process can have an effect (spawn/stop/map mutation) before or after the name is found missing")
			} else {
				c.OK(rUnknown, name+":no-effect", p.InstrPos(ifi), "no effect on the unknown-name path")
			}
			c.Check(errRet, rUnknown, name+":error", p.InstrPos(ifi), "unknown name returns an error", "the unknown-name branch can return success")
		}
		if n == 0 {
			c.Bad(rUnknown, name+":lookup", FirstPos(p, f), "the operation does not look the name up in project.Processes")
		}
	}
}

// EdgeReachable: the If instruction is reachable from `from`.
func EdgeReachable(from ssa.Instruction, to *ssa.If) bool {
	vis := Reach([]Pt{after(from)}, nil, nil)
	return vis[to]
}

// identityGuarded: the delete is dominated by the true edge of a comparison
// between a value looked up in the same map and a *Process value.
func identityGuarded(in ssa.Instruction, s *Sel) bool {
	for _, g := range GuardsOf(in) {
		cmp, ok := g.Cmp()
		if !ok || cmp.Op != token.EQL {
			continue
		}
		isLookup := func(v ssa.Value) bool {
			v = stripConv(v)
			if ex, ok := v.(*ssa.Extract); ok {
				v = ex.Tuple
			}
			lk, ok := v.(*ssa.Lookup)
			return ok && PathOf(lk.X).LastField() == s.FRunning
		}
		isProc := func(v ssa.Value) bool {
			return isPtrTo(v.Type(), s.Process) && !isLookup(v)
		}
		if (isLookup(cmp.X) && isProc(cmp.Y)) || (isLookup(cmp.Y) && isProc(cmp.X)) {
			return true
		}
	}
	return false
}

var _ types.Type

// checkStartRefusedWhenRegistered (C08, C09).
func (s *Sel) checkStartRefusedWhenRegistered(c *Ctx, ruleID string) {
	p := c.P
	spawnDeep := p.Deep(CallOfFn("Spawn", s.Spawns...))
	lookupRun := p.Deep(MapLookupOn("lookup runningProcesses", s.FRunning))
	rReg := c.Rule(ruleID, "in StartProcess, on the edge on which the registry lookup returned an instance (non-nil), no spawn is reachable and every return carries an error - whatever state that instance is in (running, restarting back-off, pending on dependencies, terminating)")
	{
		f := s.apiMethod("StartProcess")
		n := 0
		for _, b := range f.Blocks {
			ifi := IfOf(b)
			if ifi == nil {
				continue
			}
			cmp, ok := CondCmp(ifi.Cond)
			if !ok || (cmp.Op != token.NEQ && cmp.Op != token.EQL) {
				continue
			}
			var subj ssa.Value
			if IsNilConst(cmp.Y) {
				subj = cmp.X
			} else if IsNilConst(cmp.X) {
				subj = cmp.Y
			} else {
				continue
			}
			call, isCall := stripConv(subj).(*ssa.Call)
			if !isCall || !isPtrTo(call.Type(), s.Process) || !lookupRun.MayAt(call) {
				continue
			}
			n++
			nonNil := 0
			if cmp.Op == token.EQL {
				nonNil = 1
			}
			vis := Reach([]Pt{{b.Succs[nonNil], 0}}, nil, nil)
			bad := false
			for in := range vis {
				if cc, isC := in.(*ssa.Call); isC && spawnDeep.MayAt(cc) {
					bad = true
				}
				if ret, isRet := in.(*ssa.Return); isRet && IsNilConst(RetVals(ret)[len(ret.Results)-1]) {
					bad = true
				}
			}
			c.Check(!bad, rReg, p.FuncKey(f), p.InstrPos(ifi), "a registered instance always refuses the start", "StartProcess can spawn a second supervisor although an instance of the process is registered (e.g. while it is in its restart back-off, pending or terminating): two commands of the same replica end up alive and share one state record")
		}
		if n == 0 {
			c.Bad(rReg, p.FuncKey(f)+":no-test", FirstPos(p, f), "StartProcess does not test the registry lookup against nil")
		}
	}

}
