package pcv

import (
	"fmt"
	"go/token"
	"go/types"
	"sort"
	"strings"

	"golang.org/x/tools/go/ssa"
)

// ---------------------------------------------------------------------------
// Numeric abstract interpretation (rule kind K7): conjunctions of linear
// inequalities over the integer SSA values of one function, with symbolic
// variables for the lengths of slices. Forward dataflow over the CFG with a
// join at every merge point (a constraint survives the join iff both incoming
// states entail it); entailment is decided by Fourier–Motzkin elimination over
// the rationals after integer tightening of strict inequalities (sound for
// proving: rational infeasibility implies integer infeasibility). Loops are
// widened by dropping the constraints that are not stable after three rounds.

// Lin is a linear constraint  sum(coef[v]*v) + c <= 0.
type Lin struct {
	Coef map[string]int64
	C    int64
}

func (l Lin) clone() Lin {
	m := map[string]int64{}
	for k, v := range l.Coef {
		m[k] = v
	}
	return Lin{m, l.C}
}

func (l Lin) String() string {
	var ks []string
	for k := range l.Coef {
		ks = append(ks, k)
	}
	sort.Strings(ks)
	var parts []string
	for _, k := range ks {
		parts = append(parts, fmt.Sprintf("%+d*%s", l.Coef[k], k))
	}
	return fmt.Sprintf("%s %+d <= 0", strings.Join(parts, " "), l.C)
}

func (l Lin) key() string { return l.String() }

func gcd(a, b int64) int64 {
	if a < 0 {
		a = -a
	}
	if b < 0 {
		b = -b
	}
	for b != 0 {
		a, b = b, a%b
	}
	return a
}

// normalize divides by the gcd of the coefficients (integer tightening of the constant).
func (l Lin) normalize() Lin {
	var g int64
	for k, v := range l.Coef {
		if v == 0 {
			delete(l.Coef, k)
			continue
		}
		g = gcd(g, v)
	}
	if g > 1 {
		for k := range l.Coef {
			l.Coef[k] /= g
		}
		// floor division of the constant towards +inf for "<= 0" tightening:
		// sum + c <= 0  with sum multiple of g  =>  sum/g + ceil(c/g) <= 0
		c := l.C
		q := c / g
		if c%g != 0 && c > 0 {
			q++
		}
		l.C = q
	}
	return l
}

// Term is a linear term sum(coef*v)+c.
type Term struct {
	Coef map[string]int64
	C    int64
}

func TConst(c int64) Term { return Term{map[string]int64{}, c} }
func TVar(v string) Term  { return Term{map[string]int64{v: 1}, 0} }

func (t Term) Add(u Term) Term {
	m := map[string]int64{}
	for k, v := range t.Coef {
		m[k] += v
	}
	for k, v := range u.Coef {
		m[k] += v
	}
	return Term{m, t.C + u.C}
}

func (t Term) Scale(k int64) Term {
	m := map[string]int64{}
	for v, c := range t.Coef {
		m[v] = c * k
	}
	return Term{m, t.C * k}
}

func (t Term) Sub(u Term) Term { return t.Add(u.Scale(-1)) }

func (t Term) String() string {
	return strings.TrimSuffix(Lin{t.Coef, t.C}.String(), " <= 0")
}

// LE builds t <= u.
func LE(t, u Term) Lin { d := t.Sub(u); return Lin{d.Coef, d.C}.normalize() }

// LT builds t < u  (integers: t+1 <= u).
func LT(t, u Term) Lin { return LE(t.Add(TConst(1)), u) }

// LinState is a conjunction of constraints; nil Cons with Bottom=true is unreachable.
type LinState struct {
	Cons   []Lin
	Bottom bool
}

func (s *LinState) clone() *LinState {
	if s == nil {
		return nil
	}
	n := &LinState{Bottom: s.Bottom}
	for _, c := range s.Cons {
		n.Cons = append(n.Cons, c.clone())
	}
	return n
}

func (s *LinState) add(cs ...Lin) {
	seen := map[string]bool{}
	for _, c := range s.Cons {
		seen[c.key()] = true
	}
	for _, c := range cs {
		c = c.clone().normalize()
		if len(c.Coef) == 0 {
			if c.C > 0 {
				s.Bottom = true
			}
			continue
		}
		if !seen[c.key()] {
			seen[c.key()] = true
			s.Cons = append(s.Cons, c)
		}
	}
}

func (s *LinState) addEq(t, u Term) { s.add(LE(t, u), LE(u, t)) }

// feasible decides (over the rationals) whether the conjunction has a solution.
func feasible(cons []Lin) bool {
	// Fourier–Motzkin: eliminate variables one at a time
	cur := make([]Lin, 0, len(cons))
	for _, c := range cons {
		cur = append(cur, c.clone().normalize())
	}
	for iter := 0; iter < 64; iter++ {
		// constant constraints
		var vars map[string]int
		vars = map[string]int{}
		for _, c := range cur {
			if len(c.Coef) == 0 {
				if c.C > 0 {
					return false
				}
				continue
			}
			for v := range c.Coef {
				vars[v]++
			}
		}
		if len(vars) == 0 {
			return true
		}
		// choose the variable minimising pos*neg
		best, bestCost := "", int(^uint(0)>>1)
		var names []string
		for v := range vars {
			names = append(names, v)
		}
		sort.Strings(names)
		for _, v := range names {
			pos, neg := 0, 0
			for _, c := range cur {
				if k := c.Coef[v]; k > 0 {
					pos++
				} else if k < 0 {
					neg++
				}
			}
			cost := pos*neg - pos - neg
			if cost < bestCost {
				best, bestCost = v, cost
			}
		}
		var pos, neg, rest []Lin
		for _, c := range cur {
			k := c.Coef[best]
			switch {
			case k > 0:
				pos = append(pos, c)
			case k < 0:
				neg = append(neg, c)
			default:
				if len(c.Coef) > 0 {
					rest = append(rest, c)
				} else if c.C > 0 {
					return false
				}
			}
		}
		seen := map[string]bool{}
		for _, r := range rest {
			seen[r.key()] = true
		}
		for _, p := range pos {
			for _, n := range neg {
				a, b := p.Coef[best], -n.Coef[best]
				// b*p + a*n eliminates best
				m := map[string]int64{}
				for v, k := range p.Coef {
					m[v] += k * b
				}
				for v, k := range n.Coef {
					m[v] += k * a
				}
				delete(m, best)
				nc := Lin{m, p.C*b + n.C*a}.normalize()
				if len(nc.Coef) == 0 {
					if nc.C > 0 {
						return false
					}
					continue
				}
				if !seen[nc.key()] {
					seen[nc.key()] = true
					rest = append(rest, nc)
				}
			}
		}
		if len(rest) > 4000 {
			// give up precision: treat as feasible (sound for "cannot prove")
			return true
		}
		cur = rest
	}
	return true
}

// Entails: the state implies the constraint.
func (s *LinState) Entails(c Lin) bool {
	if s.Bottom {
		return true
	}
	// s and not(c):  sum + C >= 1   <=>  -sum - C + 1 <= 0
	neg := Lin{map[string]int64{}, -c.C + 1}
	for v, k := range c.Coef {
		neg.Coef[v] = -k
	}
	return !feasible(append(append([]Lin{}, s.Cons...), neg))
}

func (s *LinState) EntailsEq(t, u Term) bool {
	return s.Entails(LE(t, u)) && s.Entails(LE(u, t))
}

// Feasible: the state has a (rational) model.
func (s *LinState) Feasible() bool { return !s.Bottom && feasible(s.Cons) }

// joinLin keeps the constraints of either state that both states entail.
func joinLin(a, b *LinState) *LinState {
	if a == nil || a.Bottom {
		return b.clone()
	}
	if b == nil || b.Bottom {
		return a.clone()
	}
	out := &LinState{}
	for _, c := range a.Cons {
		if b.Entails(c) {
			out.add(c)
		}
	}
	for _, c := range b.Cons {
		if a.Entails(c) {
			out.add(c)
		}
	}
	return out
}

// project eliminates variable v (existential quantification).
func (s *LinState) project(v string) {
	var pos, neg, rest []Lin
	for _, c := range s.Cons {
		k := c.Coef[v]
		switch {
		case k > 0:
			pos = append(pos, c)
		case k < 0:
			neg = append(neg, c)
		default:
			rest = append(rest, c)
		}
	}
	for _, p := range pos {
		for _, n := range neg {
			a, b := p.Coef[v], -n.Coef[v]
			m := map[string]int64{}
			for x, k := range p.Coef {
				m[x] += k * b
			}
			for x, k := range n.Coef {
				m[x] += k * a
			}
			delete(m, v)
			rest = append(rest, Lin{m, p.C*b + n.C*a}.normalize())
		}
	}
	s.Cons = nil
	s.add(rest...)
}

// assign performs v := t (t may mention v).
func (s *LinState) assign(v string, t Term) {
	tmp := v + "'"
	s.addEq(TVar(tmp), t)
	s.project(v)
	// rename tmp -> v
	for i := range s.Cons {
		if k, ok := s.Cons[i].Coef[tmp]; ok {
			delete(s.Cons[i].Coef, tmp)
			s.Cons[i].Coef[v] = k
		}
	}
}

// ---------------------------------------------------------------------------
// the analysis of one function

// LinObligation is a proof obligation collected during the analysis.
type LinObligation struct {
	Instr ssa.Instruction
	What  string
	Cons  []Lin // all must be entailed
	State *LinState
	OK    bool
}

// LinAnalysis configures and holds the result of analysing one function.
type LinAnalysis struct {
	P  *Prog
	Fn *ssa.Function
	// Entry assumptions, over the variable names produced by VarOf/LenVarOfCell.
	Assume []Lin
	// LenCells: fields whose slice length is tracked as a memory cell
	// (loads of the field denote the same length until the field is stored).
	Obligations []LinObligation
	// ReturnStates holds, per return instruction, the state before it.
	ReturnStates map[*ssa.Return]*LinState
	// bound values of returned slices: lo/hi terms and the base length
	ReturnSlices map[*ssa.Return]RetSlice
	// OnInstr is called in the final pass with the state before each instruction.
	OnInstr func(in ssa.Instruction, st *LinState)
	in      map[*ssa.BasicBlock]*LinState
	reach       map[*ssa.BasicBlock]map[*ssa.BasicBlock]bool
	valueByName map[string]ssa.Value
}

// RetSlice describes a returned slice value as base[lo:hi].
type RetSlice struct {
	Lo, Hi  Term
	BaseLen Term
	Known   bool
}

// VarOf names the variable of an integer SSA value.
func VarOf(v ssa.Value) string {
	switch x := v.(type) {
	case *ssa.Parameter:
		for i, prm := range x.Parent().Params {
			if prm == x {
				return fmt.Sprintf("param:%d", i)
			}
		}
	}
	return "v:" + v.Name()
}

// CellLen names the variable holding the current length of a slice field.
func CellLen(path string) string { return "len:" + path }

func isIntType(t types.Type) bool {
	b, ok := t.Underlying().(*types.Basic)
	return ok && b.Info()&types.IsInteger != 0
}

func isSliceType(t types.Type) bool {
	_, ok := t.Underlying().(*types.Slice)
	return ok
}

// termOf converts an integer SSA value into a linear term.
func (a *LinAnalysis) termOf(v ssa.Value) (Term, bool) {
	if c, ok := ConstInt(v); ok {
		return TConst(c), true
	}
	if !isIntType(v.Type()) {
		return Term{}, false
	}
	switch x := v.(type) {
	case *ssa.Convert:
		if isIntType(x.X.Type()) {
			return a.termOf(x.X)
		}
	case *ssa.ChangeType:
		return a.termOf(x.X)
	}
	return TVar(VarOf(v)), true
}

// cellPathOf returns the memory cell (receiver-relative access path) a slice
// value was loaded from, if it is a plain load of a struct field.
func cellPathOf(v ssa.Value) (string, bool) {
	u, ok := v.(*ssa.UnOp)
	if !ok || u.Op != token.MUL {
		return "", false
	}
	fa, ok := u.X.(*ssa.FieldAddr)
	if !ok {
		return "", false
	}
	bs := baseString(fa)
	return bs, bs != ""
}

// lenTermOf returns the term for len(v) of a slice value.
func (a *LinAnalysis) lenTermOf(v ssa.Value) Term {
	return TVar("len#" + v.Name())
}

// Run performs the analysis.
func (a *LinAnalysis) Run() {
	f := a.Fn
	a.in = map[*ssa.BasicBlock]*LinState{}
	a.ReturnStates = map[*ssa.Return]*LinState{}
	a.ReturnSlices = map[*ssa.Return]RetSlice{}
	entry := &LinState{}
	entry.add(a.Assume...)
	a.in[f.Blocks[0]] = entry
	visits := map[*ssa.BasicBlock]int{}
	work := []*ssa.BasicBlock{f.Blocks[0]}
	for len(work) > 0 {
		b := work[0]
		work = work[1:]
		visits[b]++
		if visits[b] > 12 {
			continue
		}
		st := a.in[b].clone()
		outs := a.transferBlock(b, st, false)
		for i, s := range b.Succs {
			ns := outs[i]
			if ns == nil || ns.Bottom {
				continue
			}
			// phi assignments on the edge, then forget every SSA value that is
			// dead in the successor (this makes the relations among the
			// surviving variables explicit, which the join relies on)
			a.applyPhis(b, s, ns)
			a.dropDead(s, ns)
			old, ok := a.in[s]
			var merged *LinState
			if !ok {
				merged = ns
			} else {
				merged = joinLin(old, ns)
				if visits[s] >= 3 {
					// widening: keep only constraints of old that still hold
					w := &LinState{}
					for _, c := range old.Cons {
						if ns.Entails(c) {
							w.add(c)
						}
					}
					merged = w
				}
				if sameCons(old, merged) {
					continue
				}
			}
			a.in[s] = merged
			work = append(work, s)
		}
	}
	// final pass: collect obligations with the fixpoint states
	a.Obligations = nil
	for _, b := range f.Blocks {
		st, ok := a.in[b]
		if !ok {
			continue
		}
		a.transferBlock(b, st.clone(), true)
	}
}

// dropDead projects out the variables of SSA values that are not live at the
// entry of block s (after its phis).
func (a *LinAnalysis) dropDead(s *ssa.BasicBlock, st *LinState) {
	if st == nil || st.Bottom {
		return
	}
	reach := a.reachableFrom(s)
	liveVal := func(name string) bool {
		v, ok := a.valueByName[name]
		if !ok {
			return true
		}
		if _, isParam := v.(*ssa.Parameter); isParam {
			return true
		}
		refs := v.Referrers()
		if refs == nil {
			return false
		}
		for _, r := range *refs {
			if ph, isPhi := r.(*ssa.Phi); isPhi {
				for i, e := range ph.Edges {
					if e == v && reach[ph.Block().Preds[i]] {
						return true
					}
				}
				continue
			}
			if reach[r.Block()] {
				return true
			}
		}
		// the phis of s itself define values at entry: those are live if used
		return false
	}
	vars := map[string]bool{}
	for _, c := range st.Cons {
		for v := range c.Coef {
			vars[v] = true
		}
	}
	var names []string
	for v := range vars {
		names = append(names, v)
	}
	sort.Strings(names)
	for _, v := range names {
		var vn string
		switch {
		case strings.HasPrefix(v, "v:"):
			vn = v[2:]
		case strings.HasPrefix(v, "len#"):
			vn = v[4:]
		case strings.HasPrefix(v, "lo#"), strings.HasPrefix(v, "hi#"):
			vn = v[3:]
		case strings.HasPrefix(v, "base#"):
			vn = v[5:]
		default:
			continue
		}
		if !liveVal(vn) {
			st.project(v)
		}
	}
}

func (a *LinAnalysis) reachableFrom(s *ssa.BasicBlock) map[*ssa.BasicBlock]bool {
	if a.reach == nil {
		a.reach = map[*ssa.BasicBlock]map[*ssa.BasicBlock]bool{}
		a.valueByName = map[string]ssa.Value{}
		for _, prm := range a.Fn.Params {
			a.valueByName[prm.Name()] = prm
		}
		for _, b := range a.Fn.Blocks {
			for _, in := range b.Instrs {
				if v, ok := in.(ssa.Value); ok {
					a.valueByName[v.Name()] = v
				}
			}
		}
	}
	if r, ok := a.reach[s]; ok {
		return r
	}
	r := map[*ssa.BasicBlock]bool{}
	work := []*ssa.BasicBlock{s}
	for len(work) > 0 {
		b := work[len(work)-1]
		work = work[:len(work)-1]
		if r[b] {
			continue
		}
		r[b] = true
		work = append(work, b.Succs...)
	}
	a.reach[s] = r
	return r
}

func sameCons(a, b *LinState) bool {
	if len(a.Cons) != len(b.Cons) {
		return false
	}
	m := map[string]bool{}
	for _, c := range a.Cons {
		m[c.key()] = true
	}
	for _, c := range b.Cons {
		if !m[c.key()] {
			return false
		}
	}
	return true
}

func (a *LinAnalysis) applyPhis(from, to *ssa.BasicBlock, st *LinState) {
	idx := -1
	for i, p := range to.Preds {
		if p == from {
			idx = i
		}
	}
	if idx < 0 {
		return
	}
	type asg struct {
		v string
		t Term
	}
	var asgs []asg
	for _, in := range to.Instrs {
		ph, ok := in.(*ssa.Phi)
		if !ok {
			break
		}
		e := ph.Edges[idx]
		if isIntType(ph.Type()) {
			if t, ok := a.termOf(e); ok {
				asgs = append(asgs, asg{VarOf(ph), t})
			} else {
				asgs = append(asgs, asg{VarOf(ph), Term{}})
			}
		} else if isSliceType(ph.Type()) {
			asgs = append(asgs, asg{"len#" + ph.Name(), a.lenTermOf(e)})
		}
	}
	// parallel assignment through temporaries
	for i, x := range asgs {
		if x.t.Coef == nil {
			st.project(x.v)
			continue
		}
		tmp := fmt.Sprintf("phi%d'", i)
		st.addEq(TVar(tmp), x.t)
		asgs[i].t = TVar(tmp)
	}
	for i, x := range asgs {
		if x.t.Coef == nil {
			continue
		}
		st.project(x.v)
		st.addEq(TVar(x.v), x.t)
		st.project(fmt.Sprintf("phi%d'", i))
	}
}

// transferBlock interprets the instructions of b; returns one state per successor.
func (a *LinAnalysis) transferBlock(b *ssa.BasicBlock, st *LinState, collect bool) []*LinState {
	oblige := func(in ssa.Instruction, what string, cons ...Lin) {
		if !collect {
			return
		}
		ok := true
		for _, c := range cons {
			if !st.Entails(c) {
				ok = false
			}
		}
		a.Obligations = append(a.Obligations, LinObligation{Instr: in, What: what, Cons: cons, State: st.clone(), OK: ok})
	}
	for _, in := range b.Instrs {
		if collect && a.OnInstr != nil {
			a.OnInstr(in, st)
		}
		switch x := in.(type) {
		case *ssa.Phi:
			// handled on the edge
		case *ssa.BinOp:
			if !isIntType(x.Type()) {
				continue
			}
			tx, ok1 := a.termOf(x.X)
			ty, ok2 := a.termOf(x.Y)
			v := TVar(VarOf(x))
			if !ok1 || !ok2 {
				continue
			}
			switch x.Op {
			case token.ADD:
				st.addEq(v, tx.Add(ty))
			case token.SUB:
				st.addEq(v, tx.Sub(ty))
			case token.MUL:
				if len(tx.Coef) == 0 {
					st.addEq(v, ty.Scale(tx.C))
				} else if len(ty.Coef) == 0 {
					st.addEq(v, tx.Scale(ty.C))
				}
			}
		case *ssa.UnOp:
			if x.Op == token.MUL && isSliceType(x.Type()) {
				if cell, ok := cellPathOf(x); ok {
					st.addEq(a.lenTermOf(x), TVar(CellLen(cell)))
					st.add(LE(TConst(0), a.lenTermOf(x)))
				} else {
					st.add(LE(TConst(0), a.lenTermOf(x)))
				}
			}
			if x.Op == token.SUB && isIntType(x.Type()) {
				if t, ok := a.termOf(x.X); ok {
					st.addEq(TVar(VarOf(x)), t.Scale(-1))
				}
			}
		case *ssa.Call:
			if bi, ok := x.Call.Value.(*ssa.Builtin); ok {
				switch bi.Name() {
				case "len":
					if isSliceType(x.Call.Args[0].Type()) {
						st.addEq(TVar(VarOf(x)), a.lenTermOf(x.Call.Args[0]))
					}
					st.add(LE(TConst(0), TVar(VarOf(x))))
				case "append":
					if len(x.Call.Args) == 2 {
						// append(s, elems...) where elems is a slice
						st.addEq(a.lenTermOf(x), a.lenTermOf(x.Call.Args[0]).Add(a.lenTermOf(x.Call.Args[1])))
					}
				case "min", "max":
					if isIntType(x.Type()) && len(x.Call.Args) == 2 {
						t0, ok0 := a.termOf(x.Call.Args[0])
						t1, ok1 := a.termOf(x.Call.Args[1])
						if ok0 && ok1 {
							v := TVar(VarOf(x))
							if bi.Name() == "min" {
								st.add(LE(v, t0), LE(v, t1))
							} else {
								st.add(LE(t0, v), LE(t1, v))
							}
						}
					}
				}
			}
		case *ssa.Slice:
			// x.X[lo:hi]
			var baseLen Term
			switch bt := x.X.Type().Underlying().(type) {
			case *types.Slice:
				baseLen = a.lenTermOf(x.X)
			case *types.Pointer:
				if arr, ok := bt.Elem().Underlying().(*types.Array); ok {
					baseLen = TConst(arr.Len())
				} else {
					continue
				}
			default:
				continue
			}
			lo, hi := TConst(0), baseLen
			if x.Low != nil {
				if t, ok := a.termOf(x.Low); ok {
					lo = t
				}
			}
			if x.High != nil {
				if t, ok := a.termOf(x.High); ok {
					hi = t
				}
			}
			if x.Low != nil || x.High != nil {
				oblige(x, "slice bounds 0 <= lo <= hi <= len", LE(TConst(0), lo), LE(lo, hi), LE(hi, baseLen))
			}
			st.addEq(a.lenTermOf(x), hi.Sub(lo))
			// remember lo/hi through dedicated variables
			st.addEq(TVar("lo#"+x.Name()), lo)
			st.addEq(TVar("hi#"+x.Name()), hi)
			st.addEq(TVar("base#"+x.Name()), baseLen)
		case *ssa.IndexAddr:
			if isSliceType(x.X.Type()) {
				if t, ok := a.termOf(x.Index); ok {
					oblige(x, "index 0 <= i < len", LE(TConst(0), t), LT(t, a.lenTermOf(x.X)))
				}
			}
		case *ssa.Store:
			// store of a slice into a tracked cell updates its length variable
			if fa, ok := x.Addr.(*ssa.FieldAddr); ok && isSliceType(x.Val.Type()) {
				cell := baseString(fa)
				if cell != "" {
					st.assign(CellLen(cell), a.lenTermOf(x.Val))
				}
			}
			// store of an int into a field: track as cell variable
			if fa, ok := x.Addr.(*ssa.FieldAddr); ok && isIntType(x.Val.Type()) {
				cell := baseString(fa)
				if t, okT := a.termOf(x.Val); okT && cell != "" {
					st.assign("cell:"+cell, t)
				}
			}
		case *ssa.MakeSlice:
			if t, ok := a.termOf(x.Len); ok {
				st.addEq(a.lenTermOf(x), t)
			}
		case *ssa.Return:
			if collect {
				a.ReturnStates[x] = st.clone()
				if len(x.Results) >= 1 && isSliceType(x.Results[0].Type()) {
					if sl, ok := x.Results[0].(*ssa.Slice); ok {
						a.ReturnSlices[x] = RetSlice{Lo: TVar("lo#" + sl.Name()), Hi: TVar("hi#" + sl.Name()), BaseLen: TVar("base#" + sl.Name()), Known: true}
					} else {
						a.ReturnSlices[x] = RetSlice{Lo: TConst(0), Hi: a.lenTermOf(x.Results[0]), Known: false}
					}
				}
			}
		}
		// loads of int fields: same cell => same variable
		if u, ok := in.(*ssa.UnOp); ok && u.Op == token.MUL && isIntType(u.Type()) {
			if fa, ok := u.X.(*ssa.FieldAddr); ok {
				if cell := baseString(fa); cell != "" {
					st.addEq(TVar(VarOf(u)), TVar("cell:"+cell))
				}
			}
		}
	}
	outs := make([]*LinState, len(b.Succs))
	ifi := IfOf(b)
	// forget block-local temporaries so that the relations among the
	// persistent variables (cells, parameters, values live in other blocks)
	// are made explicit before the join
	dropLocal := func(s *LinState) {
		if s == nil || s.Bottom {
			return
		}
		for _, in := range b.Instrs {
			v, ok := in.(ssa.Value)
			if !ok {
				continue
			}
			local := true
			if refs := v.Referrers(); refs != nil {
				for _, r := range *refs {
					if r.Block() != b {
						local = false
					}
					if _, isPhi := r.(*ssa.Phi); isPhi {
						local = false
					}
				}
			}
			if _, isRet := in.(*ssa.Return); isRet {
				local = false
			}
			if !local {
				continue
			}
			for _, name := range []string{VarOf(v), "len#" + v.Name(), "lo#" + v.Name(), "hi#" + v.Name(), "base#" + v.Name()} {
				used := false
				for _, c := range s.Cons {
					if _, ok := c.Coef[name]; ok {
						used = true
						break
					}
				}
				if used {
					s.project(name)
				}
			}
		}
	}
	if ifi == nil {
		dropLocal(st)
		for i := range outs {
			outs[i] = st.clone()
		}
		return outs
	}
	t, f := st.clone(), st.clone()
	if cmp, ok := CondCmp(ifi.Cond); ok {
		tx, ok1 := a.termOf(cmp.X)
		ty, ok2 := a.termOf(cmp.Y)
		if ok1 && ok2 {
			switch cmp.Op {
			case token.LSS:
				t.add(LT(tx, ty))
				f.add(LE(ty, tx))
			case token.LEQ:
				t.add(LE(tx, ty))
				f.add(LT(ty, tx))
			case token.GTR:
				t.add(LT(ty, tx))
				f.add(LE(tx, ty))
			case token.GEQ:
				t.add(LE(ty, tx))
				f.add(LT(tx, ty))
			case token.EQL:
				t.addEq(tx, ty)
			case token.NEQ:
				f.addEq(tx, ty)
			}
		}
	}
	if !t.Feasible() {
		t.Bottom = true
	}
	if !f.Feasible() {
		f.Bottom = true
	}
	dropLocal(t)
	dropLocal(f)
	outs[0], outs[1] = t, f
	return outs
}
