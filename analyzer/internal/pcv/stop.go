package pcv

import (
	"fmt"
	"go/constant"
	"go/token"
	"go/types"
	"strings"

	"golang.org/x/tools/go/ssa"
)

// ---------------------------------------------------------------------------
// range loops and the guarded-collection idiom

// RangeLoop is a `for .. range coll` loop recognised in SSA form.
type RangeLoop struct {
	Header *ssa.BasicBlock // block ending in the loop condition
	If     *ssa.If
	Body   *ssa.BasicBlock
	Exit   *ssa.BasicBlock
	Coll   ssa.Value // slice or map ranged over
}

// RangeLoops recognises range loops over slices (index form) and maps.
func RangeLoops(f *ssa.Function) []RangeLoop {
	var out []RangeLoop
	for _, b := range f.Blocks {
		ifi := IfOf(b)
		if ifi == nil {
			continue
		}
		// slice form: if (phi+1) < len(S)
		if bo, ok := ifi.Cond.(*ssa.BinOp); ok && bo.Op == token.LSS {
			if call, ok := bo.Y.(*ssa.Call); ok {
				if bi, ok := call.Call.Value.(*ssa.Builtin); ok && bi.Name() == "len" {
					if add, ok := bo.X.(*ssa.BinOp); ok && add.Op == token.ADD {
						if _, ok := add.X.(*ssa.Phi); ok {
							out = append(out, RangeLoop{Header: b, If: ifi, Body: b.Succs[0], Exit: b.Succs[1], Coll: call.Call.Args[0]})
							continue
						}
					}
				}
			}
		}
		// map form: ok = extract next(range M) #0
		if ex, ok := ifi.Cond.(*ssa.Extract); ok && ex.Index == 0 {
			if nx, ok := ex.Tuple.(*ssa.Next); ok {
				if rg, ok := nx.Iter.(*ssa.Range); ok {
					out = append(out, RangeLoop{Header: b, If: ifi, Body: b.Succs[0], Exit: b.Succs[1], Coll: rg.X})
				}
			}
		}
	}
	return out
}

// bodyAlways: every iteration of the loop performs the site.
func (l RangeLoop) bodyAlways(d *Deep) bool {
	vis := Reach([]Pt{{l.Body, 0}}, d.MustAt, nil)
	if vis[l.If] {
		return false
	}
	for in := range vis {
		if _, ok := in.(*ssa.Return); ok && !d.MustAt(in) {
			return false
		}
	}
	return true
}

// sameColl: the two values denote the same collection (same SSA value, loads
// of the same local cell, or loads of the same field of the same base).
func sameColl(a, b ssa.Value) bool {
	if SameValue(a, b) {
		return true
	}
	pa, pb := PathOf(a), PathOf(b)
	if len(pa.Fields) > 0 && len(pa.Fields) == len(pb.Fields) && SameValue(pa.Base, pb.Base) {
		for i := range pa.Fields {
			if pa.Fields[i] != pb.Fields[i] {
				return false
			}
		}
		return true
	}
	return false
}

// collectionsAt returns the collections an instruction is correlated with:
// the collections of the range loops it is nested in and its slice/map
// arguments.
func collectionsAt(in ssa.Instruction) []ssa.Value {
	var out []ssa.Value
	for _, l := range RangeLoops(in.Parent()) {
		if l.Body == in.Block() || l.Body.Dominates(in.Block()) {
			out = append(out, l.Coll)
		}
	}
	if c := CallCommonOf(in); c != nil {
		for _, a := range c.Args {
			switch a.Type().Underlying().(type) {
			case *types.Slice, *types.Map:
				out = append(out, a)
			}
		}
	}
	if mc, ok := in.(*ssa.MakeClosure); ok {
		for _, b := range mc.Bindings {
			switch b.Type().Underlying().(type) {
			case *types.Slice, *types.Map:
				out = append(out, b)
			}
		}
	}
	return out
}

// PrecededUp: on every path (through the static call chains into the function
// of `site`, at most depth levels up) an A instruction is executed before
// `site`. A range loop over a collection the site is correlated with counts as
// an A instruction when each of its iterations performs A (guarded-collection
// idiom: the site only acts on elements of that same collection).
func (p *Prog) PrecededUp(site ssa.Instruction, a *Deep, depth int) (bool, ssa.Instruction) {
	f := site.Parent()
	colls := collectionsAt(site)
	var loopHeads []*ssa.If
	for _, l := range RangeLoops(f) {
		for _, cv := range colls {
			if sameColl(l.Coll, cv) && l.bodyAlways(a) && !(l.Body == site.Block() || l.Body.Dominates(site.Block())) {
				loopHeads = append(loopHeads, l.If)
			}
		}
	}
	stop := func(in ssa.Instruction) bool {
		if a.MustAt(in) {
			return true
		}
		for _, h := range loopHeads {
			if in == ssa.Instruction(h) {
				return true
			}
		}
		return false
	}
	vis := Reach(Entry(f), stop, nil)
	if !vis[site] || stop(site) {
		return true, nil
	}
	if depth <= 0 {
		return false, site
	}
	// lift to the callers / creation sites
	var ups []ssa.Instruction
	if f.Parent() != nil {
		AllInstrs(f.Parent(), func(in ssa.Instruction) {
			if mc, ok := in.(*ssa.MakeClosure); ok && mc.Fn == f {
				ups = append(ups, mc)
			}
		})
	} else {
		for _, cr := range p.Callers(f) {
			ups = append(ups, cr.Instr)
		}
		if p.addressTaken(f) {
			return false, site
		}
	}
	if len(ups) == 0 {
		return false, site
	}
	for _, u := range ups {
		if ok, off := p.PrecededUp(u, a, depth-1); !ok {
			return false, off
		}
	}
	return true, nil
}

// ---------------------------------------------------------------------------
// stop-related sites

func (s *Sel) atomicBool(name string) *types.Func {
	return s.p.ExtFunc("sync/atomic", "Bool", name)
}

// flagStoreSite: isStopped.Store(true)
func (s *Sel) flagStoreSite() Site {
	store := s.atomicBool("Store")
	return Site{Name: "isStopped.Store(true)", Call: func(c *ssa.CallCommon) bool {
		if !sameFunc(CalleeObj(c), store) || len(c.Args) != 2 {
			return false
		}
		if PathOf(c.Args[0]).LastField() != s.FIsStopped {
			return false
		}
		b, ok := ConstBool(c.Args[1])
		return ok && b
	}}
}

// stopCoreCall: call of a StopCore function with the given constant value of
// its boolean parameter (explicit=true / internal=false); any=true matches all.
func (s *Sel) stopCoreCall(explicit bool, any bool) Site {
	return Site{Name: fmt.Sprintf("StopCore(%v)", explicit), Call: func(c *ssa.CallCommon) bool {
		sc := c.StaticCallee()
		if sc == nil {
			return false
		}
		is := false
		for _, f := range s.StopCores {
			if f == sc {
				is = true
			}
		}
		if !is {
			return false
		}
		if any {
			return true
		}
		args := ArgsOf(c)
		if len(args) != 1 {
			return explicit // unknown shape: treat as explicit
		}
		b, ok := ConstBool(args[0])
		if !ok {
			return explicit
		}
		return b == explicit
	}}
}

// checkStopSetsFlagFirst (C02, C03, C08): every explicit stop is preceded by
// the no-restart flag store; the flag is consumed only by the restart decision.
func (s *Sel) checkStopSetsFlagFirst(c *Ctx, ruleID string) {
	p := c.P
	rule := c.Rule(ruleID, "every call of the stop core with explicit=true is preceded, on every path through its call chains, by isStopped.Store(true) (for loops: a loop over the same collection that stores the flag for every element); the flag is cleared only by the restart decision")
	flag := p.Deep(s.flagStoreSite())
	site := s.stopCoreCall(true, false)
	n := 0
	for _, f := range p.FuncsWith(site) {
		for _, in := range DirectSites(f, site) {
			n++
			c.Touch(f)
			ok, off := p.PrecededUp(in, flag, 5)
			detail := "an explicit stop can reach the stop core without the no-restart flag having been set (the process may be relaunched by its restart policy)"
			pos := p.InstrPos(in)
			if off != nil {
				pos = p.InstrPos(off)
				detail += "; unguarded entry: " + p.FuncKey(off.Parent())
			}
			c.Check(ok, rule, "explicit-stop:"+p.FuncKey(f), pos, "flag store precedes the explicit stop on all call chains", detail)
		}
	}
	if n == 0 {
		c.Bad(rule, "explicit-stop:none", "", "no explicit call of the stop core found")
	}
	// consumption
	swap, store, cas := s.atomicBool("Swap"), s.atomicBool("Store"), s.atomicBool("CompareAndSwap")
	for _, f := range p.Funcs {
		AllInstrs(f, func(in ssa.Instruction) {
			cc := CallCommonOf(in)
			if cc == nil || len(cc.Args) < 1 || PathOf(cc.Args[0]).LastField() != s.FIsStopped {
				return
			}
			o := CalleeObj(cc)
			clears := false
			switch {
			case sameFunc(o, swap), sameFunc(o, cas):
				clears = true
			case sameFunc(o, store):
				if b, ok := ConstBool(cc.Args[1]); !ok || !b {
					clears = true
				}
			}
			if !clears {
				return
			}
			inDec := false
			for _, d := range s.RestartDecs {
				if d == f {
					inDec = true
				}
			}
			c.Check(inDec, rule, "flag-cleared:"+p.FuncKey(f), p.InstrPos(in), "flag consumed by the restart decision", "the no-restart flag is cleared outside the restart decision (a pending stop request is forgotten)")
		})
	}
}

// checkStopCoreTable extracts the decision table of the stop core.
// view selects which clauses are compared: "internal" (C02/C10: internal stop
// keeps the restart policy), "explicit" (C03: explicit stop cancels the run
// context, makes a pending process terminal, signals a running one).
func (s *Sel) checkStopCoreTable(c *Ctx, ruleID, view string) {
	p := c.P
	var desc string
	if view == "internal" {
		desc = "for the internal (readiness-failure) stop the stop core neither stores the no-restart flag nor cancels the run context, in every state; a running process is still set Terminating and signalled"
	} else {
		desc = "for the explicit stop the stop core cancels the run context in every state; a Pending process is made terminal without any signal; a running-class process is set Terminating and reaches Commander.Stop or the configured shutdown command on every path; other states get no signal"
	}
	rule := c.Rule(ruleID, desc)
	requireN("StopCore", s.StopCores, 1, 1)
	sc := s.StopCores[0]
	st := p.ConstGroup("types", "ProcessState")
	var states []string
	for _, k := range SortedKeys(st) {
		states = append(states, st[k])
	}
	running := map[string]bool{st["ProcessStateRunning"]: true, st["ProcessStateLaunching"]: true, st["ProcessStateLaunched"]: true}
	isTerminal := func(f *ssa.Function) bool {
		for _, t := range s.Terminals {
			if t == f {
				return true
			}
		}
		return false
	}
	store := s.atomicBool("Store")
	spec := &TableSpec{
		Fn:           sc,
		ExtraStrings: states,
		Depth:        7,
		Focus:        map[string]bool{"explicit": true, "status": true},
		Rename: func(raw string) string {
			switch {
			case raw == "p1":
				return "explicit"
			case strings.HasSuffix(raw, ".procState.Status"):
				return "status"
			}
			return ""
		},
		StopAt: func(callee *ssa.Function, cc *ssa.CallCommon) (string, bool) {
			if isTerminal(callee) {
				return "Terminal", true
			}
			return "", false
		},
		ExternEffect: func(obj *types.Func, cc *ssa.CallCommon) (string, bool) {
			switch {
			case sameFunc(obj, s.MStop):
				return "Commander.Stop", true
			case sameFunc(obj, store) && len(cc.Args) > 0 && PathOf(cc.Args[0]).LastField() == s.FIsStopped:
				return "flagStore", true
			case obj.Pkg() != nil && obj.Pkg().Path() == "os/exec" && (obj.Name() == "Run" || obj.Name() == "Start" || obj.Name() == "Output"):
				return "exec.Run", true
			case sameFunc(obj, p.IfaceMethod("command", "Commander", "Run")):
				return "exec.Run", true
			}
			return "", false
		},
	}
	terminating := st["ProcessStateTerminating"]
	pending := st["ProcessStatePending"]
	judge := func(val map[string]constant.Value, l *Leaf) (bool, string, string) {
		explicit := VBool(val, "explicit")
		status := VStr(val, "status")
		cancelRun := l.HasEffect("callfn:p0.runCancelFn")
		flag := l.HasEffect("flagStore")
		term := l.HasEffect("Terminal")
		signalled := l.HasEffect("Commander.Stop") || l.HasEffect("exec.Run")
		setTerm := false
		if m, ok := l.Mem["status"]; ok && m.K == avConst && m.C.Kind() == constant.String && constant.StringVal(m.C) == terminating {
			setTerm = true
		}
		retNil := len(l.Returns) == 1 && l.Returns[0].K == avNil
		obs := fmt.Sprintf("cancelRun=%v flag=%v terminal=%v terminating=%v signalled=%v returnsNil=%v", cancelRun, flag, term, setTerm, signalled, retNil)
		var exp []string
		ok := true
		need := func(name string, got, want bool) {
			exp = append(exp, fmt.Sprintf("%s=%v", name, want))
			if got != want {
				ok = false
			}
		}
		if view == "internal" {
			if explicit {
				return true, "(explicit stop: not constrained by this view)", obs
			}
			need("cancelRun", cancelRun, false)
			need("flag", flag, false)
			if running[status] {
				need("terminating", setTerm, true)
				need("signalled", signalled, true)
			}
		} else {
			if !explicit {
				return true, "(internal stop: not constrained by this view)", obs
			}
			need("cancelRun", cancelRun, true)
			switch {
			case running[status]:
				need("terminating", setTerm, true)
				need("signalled", signalled, true)
			case status == pending:
				need("terminal", term, true)
				need("signalled", signalled, false)
				need("returnsNil", retNil, true)
			default:
				need("signalled", signalled, false)
				// nothing was attempted, so nothing failed: an error here makes the
				// shutdown skip the completion wait of an instance that may still be alive
				need("returnsNil", retNil, true)
			}
		}
		return ok, strings.Join(exp, " "), obs
	}
	c.RunTable(rule, p.FuncKey(sc)+":"+view, spec, &TableCheck{
		Keys: map[string][]constant.Value{
			"explicit": Bools(),
			"status":   Strs(states...),
		},
		Judge: judge,
	})
}

// checkShutdownFlagsAllFirst (C02, C03): in the shutdown function a loop over
// the collected instances stores the no-restart flag for every element, and
// that loop precedes the stop phase (so no instance can be relaunched by its
// policy while the others are still being stopped).
func (s *Sel) checkShutdownFlagsAllFirst(c *Ctx, ruleID string) {
	p := c.P
	rule := c.Rule(ruleID, "in the shutdown function, every path to the call that starts the stop phase first completes a loop over the same collection of instances whose every iteration stores the no-restart flag (all instances are marked before the first one is stopped)")
	shut := s.shutdownFn()
	c.Touch(shut)
	flag := p.Deep(s.flagStoreSite())
	stopDeep := p.Deep(s.stopCoreCall(true, false))
	n := 0
	AllInstrs(shut, func(in ssa.Instruction) {
		call, ok := in.(*ssa.Call)
		if !ok || !stopDeep.MayAt(call) {
			return
		}
		n++
		colls := collectionsAt(call)
		var heads []*ssa.If
		for _, l := range RangeLoops(shut) {
			for _, cv := range colls {
				if sameColl(l.Coll, cv) && l.bodyAlways(flag) && !stopDeep.mayInRegion(l) {
					heads = append(heads, l.If)
				}
			}
		}
		ok2 := false
		if len(heads) > 0 {
			vis := Reach(Entry(shut), func(x ssa.Instruction) bool {
				for _, h := range heads {
					if x == ssa.Instruction(h) {
						return true
					}
				}
				return false
			}, nil)
			ok2 = !vis[call]
		}
		c.Check(ok2, rule, p.FuncKey(shut), p.InstrPos(call), "all instances are flagged before the stop phase", "the stop phase can start before every collected instance carries the no-restart flag: an instance whose command exits while others are still being stopped is relaunched by its restart policy after the shutdown was requested")
	})
	if n == 0 {
		c.Bad(rule, p.FuncKey(shut)+":no-stop-phase", FirstPos(p, shut), "the shutdown function does not stop the instances")
	}
}

// mayInRegion: some instruction in the loop body may perform the site.
func (d *Deep) mayInRegion(l RangeLoop) bool {
	for b := range DominatedBlocks(l.Body) {
		for _, in := range b.Instrs {
			if d.MayAt(in) {
				return true
			}
		}
	}
	return false
}
