// Package pcv is the static analyzer for process-compose properties C01..C20.
//
// Everything here works on the type-checked, SSA-converted program loaded from
// the current working tree of the repository (default /repo). Nothing from the
// repository is ever executed.
package pcv

import (
	"fmt"
	"go/ast"
	"go/token"
	"go/types"
	"os"
	"path/filepath"
	"sort"
	"strings"

	"golang.org/x/tools/go/packages"
	"golang.org/x/tools/go/ssa"
	"golang.org/x/tools/go/ssa/ssautil"
)

const ModPath = "github.com/f1bonacc1/process-compose"

// Prog is the loaded, type-checked and SSA-built repository.
type Prog struct {
	Dir   string
	Pkgs  []*packages.Package
	SSA   *ssa.Program
	Fset  *token.FileSet
	byRel map[string]*packages.Package // "src/app" -> package
	spkg  map[string]*ssa.Package
	// Funcs lists every source-level function (including anonymous functions
	// and methods) of the repository packages, deterministically ordered.
	Funcs []*ssa.Function

	canon map[*types.Var]string // renamed anchored fields -> the name they are anchored under
	// VocabNotes records anchored names that had to be resolved by type/position (renamed fields).
	VocabNotes []string

	callers map[*ssa.Function][]*CallRef // static call sites, built lazily
	cha     map[*types.Func][]*ssa.Function
}

// BrokenError marks a failure of the checker itself (unresolved vocabulary,
// type errors, zero packages) as opposed to a property violation.
type BrokenError struct{ Msg string }

func (e *BrokenError) Error() string { return e.Msg }

func broken(format string, a ...any) {
	panic(&BrokenError{Msg: fmt.Sprintf(format, a...)})
}

// Load loads the repository at dir (all packages, default build configuration
// linux/amd64, tests excluded), with an optional overlay of file contents.
func Load(dir string, overlay map[string][]byte) (*Prog, error) {
	env := []string{}
	for _, kv := range os.Environ() {
		if strings.HasPrefix(kv, "GOFLAGS=") || strings.HasPrefix(kv, "GOWORK=") ||
			strings.HasPrefix(kv, "GOPROXY=") || strings.HasPrefix(kv, "GOSUMDB=") ||
			strings.HasPrefix(kv, "GOOS=") || strings.HasPrefix(kv, "GOARCH=") ||
			strings.HasPrefix(kv, "GOTOOLCHAIN=") {
			continue
		}
		env = append(env, kv)
	}
	env = append(env, "GOFLAGS=-mod=mod", "GOPROXY=off", "GOSUMDB=off", "GOWORK=off",
		"GOOS=linux", "GOARCH=amd64", "GOTOOLCHAIN=local", "CGO_ENABLED=0")
	cfg := &packages.Config{
		Mode:    packages.LoadSyntax | packages.NeedDeps | packages.NeedImports | packages.NeedModule,
		Dir:     dir,
		Env:     env,
		Overlay: overlay,
		Tests:   false,
	}
	pkgs, err := packages.Load(cfg, "./...")
	if err != nil {
		return nil, &BrokenError{Msg: "packages.Load: " + err.Error()}
	}
	if len(pkgs) == 0 {
		return nil, &BrokenError{Msg: "no packages loaded from " + dir}
	}
	sort.Slice(pkgs, func(i, j int) bool { return pkgs[i].PkgPath < pkgs[j].PkgPath })
	p := &Prog{Dir: dir, Pkgs: pkgs, byRel: map[string]*packages.Package{}, spkg: map[string]*ssa.Package{}}
	var errs []string
	for _, pk := range pkgs {
		for _, e := range pk.Errors {
			errs = append(errs, pk.PkgPath+": "+e.Error())
		}
		rel := strings.TrimPrefix(strings.TrimPrefix(pk.PkgPath, ModPath), "/")
		p.byRel[rel] = pk
		p.Fset = pk.Fset
	}
	if len(errs) > 0 {
		return nil, &BrokenError{Msg: "type/load errors:\n  " + strings.Join(errs, "\n  ")}
	}
	prog, spkgs := ssautil.Packages(pkgs, ssa.InstantiateGenerics)
	prog.Build()
	p.SSA = prog
	for i, sp := range spkgs {
		if sp == nil {
			return nil, &BrokenError{Msg: "no SSA for " + pkgs[i].PkgPath}
		}
		rel := strings.TrimPrefix(strings.TrimPrefix(pkgs[i].PkgPath, ModPath), "/")
		p.spkg[rel] = sp
	}
	// collect functions
	seen := map[*ssa.Function]bool{}
	var add func(f *ssa.Function)
	add = func(f *ssa.Function) {
		if f == nil || seen[f] {
			return
		}
		seen[f] = true
		if f.Blocks != nil {
			p.Funcs = append(p.Funcs, f)
		}
		for _, an := range f.AnonFuncs {
			add(an)
		}
	}
	for _, sp := range spkgs {
		var names []string
		for n := range sp.Members {
			names = append(names, n)
		}
		sort.Strings(names)
		for _, n := range names {
			switch m := sp.Members[n].(type) {
			case *ssa.Function:
				add(m)
			case *ssa.Type:
				for _, T := range []types.Type{m.Type(), types.NewPointer(m.Type())} {
					ms := prog.MethodSets.MethodSet(T)
					for i := 0; i < ms.Len(); i++ {
						fn := prog.MethodValue(ms.At(i))
						if fn != nil && fn.Synthetic == "" {
							add(fn)
						}
					}
				}
			}
		}
	}
	sort.SliceStable(p.Funcs, func(i, j int) bool { return p.FuncKey(p.Funcs[i]) < p.FuncKey(p.Funcs[j]) })
	return p, nil
}

// Rel returns the repository-relative package path ("src/app") of a package.
func relOf(pkgPath string) string {
	return strings.TrimPrefix(strings.TrimPrefix(pkgPath, ModPath), "/")
}

// InRepo reports whether the function belongs to the repository.
func (p *Prog) InRepo(f *ssa.Function) bool {
	if f == nil {
		return false
	}
	pk := f.Package()
	if pk == nil && f.Parent() != nil {
		return p.InRepo(f.Parent())
	}
	if pk == nil {
		if f.Object() != nil && f.Object().Pkg() != nil {
			return strings.HasPrefix(f.Object().Pkg().Path(), ModPath)
		}
		return false
	}
	return strings.HasPrefix(pk.Pkg.Path(), ModPath)
}

// Pkg returns the packages.Package for a short name such as "app".
func (p *Prog) Pkg(short string) *packages.Package {
	pk := p.byRel["src/"+short]
	if pk == nil {
		broken("ANCHOR-UNRESOLVED package src/%s", short)
	}
	return pk
}

func (p *Prog) SPkg(short string) *ssa.Package {
	sp := p.spkg["src/"+short]
	if sp == nil {
		broken("ANCHOR-UNRESOLVED ssa package src/%s", short)
	}
	return sp
}

// Named returns a named type of a repository package.
func (p *Prog) Named(pkg, name string) *types.Named {
	obj := p.Pkg(pkg).Types.Scope().Lookup(name)
	if obj == nil {
		broken("ANCHOR-UNRESOLVED type %s.%s", pkg, name)
	}
	n, ok := obj.Type().(*types.Named)
	if !ok {
		broken("ANCHOR-UNRESOLVED %s.%s is not a named type", pkg, name)
	}
	return n
}

// TryNamed is Named without the failure.
func (p *Prog) TryNamed(pkg, name string) *types.Named {
	pk := p.byRel["src/"+pkg]
	if pk == nil {
		return nil
	}
	obj := pk.Types.Scope().Lookup(name)
	if obj == nil {
		return nil
	}
	n, _ := obj.Type().(*types.Named)
	return n
}

// Field returns the field object of a struct type.
func (p *Prog) Field(pkg, typ, field string) *types.Var {
	f := p.TryField(pkg, typ, field)
	if f == nil {
		f = p.fieldFallback(pkg, typ, field)
	}
	if f == nil {
		broken("ANCHOR-UNRESOLVED field %s.%s.%s", pkg, typ, field)
	}
	if log := os.Getenv("PCV_VOCAB_LOG"); log != "" {
		if fh, err := os.OpenFile(log, os.O_APPEND|os.O_CREATE|os.O_WRONLY, 0o644); err == nil {
			ord, cnt, seen := 0, 0, false
			st := p.TryNamed(pkg, typ).Underlying().(*types.Struct)
			ts := types.TypeString(f.Type(), nil)
			for i := 0; i < st.NumFields(); i++ {
				if st.Field(i) == f {
					seen = true
				}
				if types.TypeString(st.Field(i).Type(), nil) == ts {
					cnt++
					if !seen {
						ord++
					}
				}
			}
			fmt.Fprintf(fh, "%s\t%s\t%s\t%s\t%d\t%d\n", pkg, typ, field, ts, ord, cnt)
			fh.Close()
		}
	}
	return f
}

// fieldFallback resolves an anchored field whose recorded name no longer exists (a rename): the field of the
// recorded type, when that type is unique among the struct's fields that are not themselves anchored names;
// otherwise the field with the recorded ordinal among the fields of that type, provided the number of fields
// of that type is unchanged. The resolution is noted in the evidence.
func (p *Prog) fieldFallback(pkg, typ, field string) *types.Var {
	rec, ok := vocabTable[pkg+"."+typ+"."+field]
	if !ok {
		return nil
	}
	n := p.TryNamed(pkg, typ)
	if n == nil {
		return nil
	}
	st, ok := n.Underlying().(*types.Struct)
	if !ok {
		return nil
	}
	var same []*types.Var
	for i := 0; i < st.NumFields(); i++ {
		if types.TypeString(st.Field(i).Type(), nil) == rec.typ {
			same = append(same, st.Field(i))
		}
	}
	if len(same) != rec.count || rec.ord >= len(same) {
		return nil
	}
	// the candidate must not be another anchored name that still exists
	f := same[rec.ord]
	if _, taken := vocabTable[pkg+"."+typ+"."+f.Name()]; taken {
		return nil
	}
	if p.canon == nil {
		p.canon = map[*types.Var]string{}
	}
	if _, seen := p.canon[f]; seen {
		return f
	}
	p.canon[f] = field
	p.VocabNotes = append(p.VocabNotes, fmt.Sprintf("field %s.%s.%s not found by name; resolved to %s (type %s, position %d of %d among fields of that type)", pkg, typ, field, f.Name(), rec.typ, rec.ord+1, rec.count))
	return f
}

// CanonName is the name a field is anchored under (its current name unless it was renamed); used in the keys of
// listed findings so that a rename does not make a listed finding look new.
func (p *Prog) CanonName(f *types.Var) string {
	if n, ok := p.canon[f]; ok {
		return n
	}
	return f.Name()
}

type vocabRec struct {
	typ        string
	ord, count int
}

func (p *Prog) TryField(pkg, typ, field string) *types.Var {
	n := p.TryNamed(pkg, typ)
	if n == nil {
		return nil
	}
	st, ok := n.Underlying().(*types.Struct)
	if !ok {
		return nil
	}
	for i := 0; i < st.NumFields(); i++ {
		if st.Field(i).Name() == field {
			return st.Field(i)
		}
	}
	return nil
}

// StructFields lists the fields of a named struct type.
func StructFields(n *types.Named) []*types.Var {
	st, ok := n.Underlying().(*types.Struct)
	if !ok {
		return nil
	}
	var out []*types.Var
	for i := 0; i < st.NumFields(); i++ {
		out = append(out, st.Field(i))
	}
	return out
}

// IfaceMethod returns the method object of an interface type.
func (p *Prog) IfaceMethod(pkg, iface, method string) *types.Func {
	n := p.Named(pkg, iface)
	it, ok := n.Underlying().(*types.Interface)
	if !ok {
		broken("ANCHOR-UNRESOLVED %s.%s is not an interface", pkg, iface)
	}
	for i := 0; i < it.NumMethods(); i++ {
		if it.Method(i).Name() == method {
			return it.Method(i)
		}
	}
	broken("ANCHOR-UNRESOLVED interface method %s.%s.%s", pkg, iface, method)
	return nil
}

// Method returns the SSA function of a method (pointer or value receiver).
func (p *Prog) Method(pkg, typ, name string) *ssa.Function {
	f := p.TryMethod(pkg, typ, name)
	if f == nil {
		broken("ANCHOR-UNRESOLVED method %s.(%s).%s", pkg, typ, name)
	}
	return f
}

func (p *Prog) TryMethod(pkg, typ, name string) *ssa.Function {
	n := p.TryNamed(pkg, typ)
	if n == nil {
		return nil
	}
	for _, T := range []types.Type{types.NewPointer(n), n} {
		ms := p.SSA.MethodSets.MethodSet(T)
		for i := 0; i < ms.Len(); i++ {
			if ms.At(i).Obj().Name() == name {
				fn := p.SSA.MethodValue(ms.At(i))
				if fn != nil && fn.Synthetic != "" {
					// wrapper: find the declared one
					if obj, ok := ms.At(i).Obj().(*types.Func); ok {
						if d := p.SSA.FuncValue(obj); d != nil {
							return d
						}
					}
				}
				return fn
			}
		}
	}
	return nil
}

// Func returns a package-level function.
func (p *Prog) Func(pkg, name string) *ssa.Function {
	f := p.TryFunc(pkg, name)
	if f == nil {
		broken("ANCHOR-UNRESOLVED function %s.%s", pkg, name)
	}
	return f
}

func (p *Prog) TryFunc(pkg, name string) *ssa.Function {
	sp := p.spkg["src/"+pkg]
	if sp == nil {
		return nil
	}
	return sp.Func(name)
}

// ExtFunc resolves a function or method object of a dependency by import path,
// e.g. ExtFunc("strings", "", "Split") or ExtFunc("sync", "Mutex", "Lock").
func (p *Prog) ExtFunc(path, recv, name string) *types.Func {
	var tp *types.Package
	for _, pk := range p.Pkgs {
		if tp = findImport(pk.Types, path, map[*types.Package]bool{}); tp != nil {
			break
		}
	}
	if tp == nil {
		return nil
	}
	if recv == "" {
		f, _ := tp.Scope().Lookup(name).(*types.Func)
		return f
	}
	obj := tp.Scope().Lookup(recv)
	if obj == nil {
		return nil
	}
	for _, T := range []types.Type{obj.Type(), types.NewPointer(obj.Type())} {
		ms := types.NewMethodSet(T)
		for i := 0; i < ms.Len(); i++ {
			if ms.At(i).Obj().Name() == name {
				f, _ := ms.At(i).Obj().(*types.Func)
				return f
			}
		}
	}
	return nil
}

func findImport(tp *types.Package, path string, seen map[*types.Package]bool) *types.Package {
	if tp == nil || seen[tp] {
		return nil
	}
	seen[tp] = true
	if tp.Path() == path {
		return tp
	}
	for _, im := range tp.Imports() {
		if r := findImport(im, path, seen); r != nil {
			return r
		}
	}
	return nil
}

// Const returns the constant object of a repository package.
func (p *Prog) Const(pkg, name string) *types.Const {
	c, _ := p.Pkg(pkg).Types.Scope().Lookup(name).(*types.Const)
	if c == nil {
		broken("ANCHOR-UNRESOLVED const %s.%s", pkg, name)
	}
	return c
}

// ConstGroup returns the string constants of a package whose name has the given prefix.
func (p *Prog) ConstGroup(pkg, prefix string) map[string]string {
	out := map[string]string{}
	sc := p.Pkg(pkg).Types.Scope()
	for _, n := range sc.Names() {
		if !strings.HasPrefix(n, prefix) {
			continue
		}
		if c, ok := sc.Lookup(n).(*types.Const); ok {
			if s, ok := constString(c); ok {
				out[n] = s
			}
		}
	}
	return out
}

func constString(c *types.Const) (string, bool) {
	if b, ok := c.Type().Underlying().(*types.Basic); ok && b.Info()&types.IsString != 0 {
		s := c.Val().ExactString()
		if len(s) >= 2 && s[0] == '"' {
			var out string
			fmt.Sscanf(s, "%q", &out)
			return out, true
		}
	}
	return "", false
}

// Pos renders a position relative to the repository root.
func (p *Prog) Pos(pos token.Pos) string {
	if !pos.IsValid() {
		return "?"
	}
	ps := p.Fset.Position(pos)
	rel, err := filepath.Rel(p.Dir, ps.Filename)
	if err != nil {
		rel = ps.Filename
	}
	return fmt.Sprintf("%s:%d", rel, ps.Line)
}

// InstrPos finds the closest valid position of an instruction.
func (p *Prog) InstrPos(in ssa.Instruction) string {
	if in == nil {
		return "?"
	}
	if in.Pos().IsValid() {
		return p.Pos(in.Pos())
	}
	// look around in the block for something with a position
	b := in.Block()
	if b != nil {
		idx := -1
		for i, x := range b.Instrs {
			if x == in {
				idx = i
			}
		}
		for d := 1; d < len(b.Instrs); d++ {
			for _, j := range []int{idx - d, idx + d} {
				if j >= 0 && j < len(b.Instrs) && b.Instrs[j].Pos().IsValid() {
					return p.Pos(b.Instrs[j].Pos()) + "~"
				}
			}
		}
		if b.Parent() != nil {
			return p.Pos(b.Parent().Pos()) + "~"
		}
	}
	return "?"
}

// FuncKey is a stable, line-free identity of a function:
// "app.(*Process).run", "app.(*ProjectRunner).runProcess$1".
func (p *Prog) FuncKey(f *ssa.Function) string {
	if f == nil {
		return "<nil>"
	}
	if f.Parent() != nil {
		// anonymous function: parent key + index among parent's anon funcs
		idx := 0
		for i, an := range f.Parent().AnonFuncs {
			if an == f {
				idx = i + 1
			}
		}
		return fmt.Sprintf("%s$%d", p.FuncKey(f.Parent()), idx)
	}
	pkg := ""
	if f.Pkg != nil {
		pkg = f.Pkg.Pkg.Name()
	} else if f.Object() != nil && f.Object().Pkg() != nil {
		pkg = f.Object().Pkg().Name()
	}
	if recv := f.Signature.Recv(); recv != nil {
		t := recv.Type()
		star := ""
		if pt, ok := t.(*types.Pointer); ok {
			t = pt.Elem()
			star = "*"
		}
		tn := t.String()
		if n, ok := t.(*types.Named); ok {
			tn = n.Obj().Name()
		}
		return fmt.Sprintf("%s.(%s%s).%s", pkg, star, tn, f.Name())
	}
	return pkg + "." + f.Name()
}

// FileOf returns the syntax file containing pos.
func (p *Prog) FileOf(pos token.Pos) *ast.File {
	for _, pk := range p.Pkgs {
		for _, f := range pk.Syntax {
			if f.Pos() <= pos && pos <= f.End() {
				return f
			}
		}
	}
	return nil
}

// FuncsOfPkg lists source functions of one repository package (incl. closures).
func (p *Prog) FuncsOfPkg(short string) []*ssa.Function {
	var out []*ssa.Function
	want := ModPath + "/src/" + short
	for _, f := range p.Funcs {
		if pk := pkgOfFunc(f); pk != nil && pk.Path() == want {
			out = append(out, f)
		}
	}
	return out
}

func pkgOfFunc(f *ssa.Function) *types.Package {
	for f != nil {
		if f.Pkg != nil {
			return f.Pkg.Pkg
		}
		if f.Object() != nil && f.Object().Pkg() != nil {
			return f.Object().Pkg()
		}
		f = f.Parent()
	}
	return nil
}
