package pcv

import (
	"fmt"
	"go/types"
	"sort"
	"strings"

	"golang.org/x/tools/go/ssa"
)

// Sel holds the semantic selectors (DESIGN.md section 3) resolved on the
// current tree. They are computed from what constructs do to typed program
// entities; function names of the repository's internals are not used.
type Sel struct {
	p *Prog

	// vocabulary (types, fields, interface methods, constants)
	Process, Runner, ProcConf, ProcState *types.Named

	FCommand, FDone, FStarted, FProcConf, FProcState            *types.Var
	FIsStopped, FProcCond, FStartedChan, FStateChan             *types.Var
	FReadyCtx, FReadyCancel, FLogReadyCtx, FLogReadyCancel      *types.Var
	FRunCtx, FRunCancel, FReadyProber, FLiveProber, FLogBuffer  *types.Var
	FStateMtx, FConfMtx, FLogger, FStdOutDone, FStdErrDone      *types.Var
	FStatus, FHealth, FExitCode, FRestarts, FIsRunning, FPid    *types.Var
	FRunning, FDoneProcs, FStates, FLogs, FProject, FProcesses  *types.Var
	FRunProcMutex, FDoneProcMutex, FStatesMutex, FLogsMutex     *types.Var
	FProcConfMutex, FRunnerExitCode, FWaitGroup, FCtxApp        *types.Var
	FCancelApp, FOrdered                                        *types.Var
	FRestartPolicy, FRestart, FMaxRestarts, FBackoff, FExitOnEnd *types.Var
	FExitOnSkipped, FDependsOn, FCondition, FShutDownParams     *types.Var
	FSignal, FParentOnly, FShutDownTimeout, FShutDownCommand    *types.Var
	FReplicaName, FReplicaNum, FReplicas, FName, FWorkingDir    *types.Var
	FReadyLogLine, FIsDaemon, FDisabled, FIsForeground          *types.Var

	MStart, MStop, MWait, MExitCode, MSetEnv, MSetDir, MSetCmdArgs, MAttachIo, MPid *types.Func
	MStdoutPipe, MStderrPipe                                                         *types.Func

	// derived anchors
	LaunchSite   Site
	Starter      *ssa.Function   // function literal containing Launch
	RunEntries   []*ssa.Function // *Process methods reaching Launch, called from outside Process
	ProcGo       []*ssa.Function // go-closures calling a RunEntry
	Spawns       []*ssa.Function // functions containing those go statements
	Gates        []*ssa.Function // functions branching on ProcessDependency.Condition (the one the goroutine calls)
	GateSwitch     map[*ssa.Function]*ssa.Function // gate -> helper holding the comparisons, when extracted
	GateSwitchCall map[*ssa.Function]*ssa.Call     // gate -> its call of that helper
	Terminals    []*ssa.Function // *Process methods storing true to Process.done
	StopCores    []*ssa.Function // *Process methods calling Commander.Stop(ShutDownParams.Signal,..)
	RestartDecs  []*ssa.Function // bool *Process methods reading RestartPolicy.Restart
	StatusSetter []*ssa.Function // functions storing to ProcessState.Status
}

func (p *Prog) Selectors() *Sel {
	s := &Sel{p: p}
	s.Process = p.Named("app", "Process")
	s.Runner = p.Named("app", "ProjectRunner")
	s.ProcConf = p.Named("types", "ProcessConfig")
	s.ProcState = p.Named("types", "ProcessState")
	pf := func(n string) *types.Var { return p.Field("app", "Process", n) }
	rf := func(n string) *types.Var { return p.Field("app", "ProjectRunner", n) }
	cf := func(n string) *types.Var { return p.Field("types", "ProcessConfig", n) }
	sf := func(n string) *types.Var { return p.Field("types", "ProcessState", n) }
	s.FCommand, s.FDone, s.FStarted = pf("command"), pf("done"), pf("started")
	s.FProcConf, s.FProcState = pf("procConf"), pf("procState")
	s.FIsStopped, s.FProcCond = pf("isStopped"), pf("procCond")
	s.FStartedChan, s.FStateChan = pf("procStartedChan"), pf("procStateChan")
	s.FReadyCtx, s.FReadyCancel = pf("procReadyCtx"), pf("readyCancelFn")
	s.FLogReadyCtx, s.FLogReadyCancel = pf("procLogReadyCtx"), pf("readyLogCancelFn")
	s.FRunCtx, s.FRunCancel = pf("procRunCtx"), pf("runCancelFn")
	s.FReadyProber, s.FLiveProber, s.FLogBuffer = pf("readyProber"), pf("liveProber"), pf("logBuffer")
	s.FStateMtx, s.FConfMtx, s.FLogger = pf("stateMtx"), pf("confMtx"), pf("logger")
	s.FStdOutDone, s.FStdErrDone = pf("stdOutDone"), pf("stdErrDone")
	s.FStatus, s.FHealth, s.FExitCode = sf("Status"), sf("Health"), sf("ExitCode")
	s.FRestarts, s.FIsRunning, s.FPid = sf("Restarts"), sf("IsRunning"), sf("Pid")
	s.FRunning, s.FDoneProcs = rf("runningProcesses"), rf("doneProcesses")
	s.FStates, s.FLogs, s.FProject = rf("processStates"), rf("processLogs"), rf("project")
	s.FProcesses = p.Field("types", "Project", "Processes")
	s.FRunProcMutex, s.FDoneProcMutex = rf("runProcMutex"), rf("doneProcMutex")
	s.FStatesMutex, s.FLogsMutex, s.FProcConfMutex = rf("statesMutex"), rf("logsMutex"), rf("procConfMutex")
	s.FRunnerExitCode, s.FWaitGroup = rf("exitCode"), rf("waitGroup")
	s.FCtxApp, s.FCancelApp, s.FOrdered = rf("ctxApp"), rf("cancelAppFn"), rf("isOrderedShutDown")
	s.FRestartPolicy = cf("RestartPolicy")
	rp := func(n string) *types.Var { return p.Field("types", "RestartPolicyConfig", n) }
	s.FRestart, s.FMaxRestarts, s.FBackoff = rp("Restart"), rp("MaxRestarts"), rp("BackoffSeconds")
	s.FExitOnEnd, s.FExitOnSkipped = rp("ExitOnEnd"), rp("ExitOnSkipped")
	s.FDependsOn = cf("DependsOn")
	s.FCondition = p.Field("types", "ProcessDependency", "Condition")
	s.FShutDownParams = cf("ShutDownParams")
	sp := func(n string) *types.Var { return p.Field("types", "ShutDownParams", n) }
	s.FSignal, s.FParentOnly = sp("Signal"), sp("ParentOnly")
	s.FShutDownTimeout, s.FShutDownCommand = sp("ShutDownTimeout"), sp("ShutDownCommand")
	s.FReplicaName, s.FReplicaNum, s.FReplicas = cf("ReplicaName"), cf("ReplicaNum"), cf("Replicas")
	s.FName, s.FWorkingDir, s.FReadyLogLine = cf("Name"), cf("WorkingDir"), cf("ReadyLogLine")
	s.FIsDaemon, s.FDisabled, s.FIsForeground = cf("IsDaemon"), cf("Disabled"), cf("IsForeground")
	cm := func(n string) *types.Func { return p.IfaceMethod("command", "Commander", n) }
	s.MStart, s.MStop, s.MWait, s.MExitCode = cm("Start"), cm("Stop"), cm("Wait"), cm("ExitCode")
	s.MSetEnv, s.MSetDir, s.MSetCmdArgs, s.MAttachIo, s.MPid = cm("SetEnv"), cm("SetDir"), cm("SetCmdArgs"), cm("AttachIo"), cm("Pid")
	s.MStdoutPipe, s.MStderrPipe = cm("StdoutPipe"), cm("StderrPipe")

	// Launch: Commander.Start on Process.command
	s.LaunchSite = MethodOnField("Launch", s.FCommand, s.MStart)
	launchFns := s.inApp(p.FuncsWith(s.LaunchSite))
	if len(launchFns) == 1 {
		s.Starter = launchFns[0]
	}
	// functions storing to Status
	s.StatusSetter = p.FuncsWith(StoreTo("store Status", s.FStatus))
	// Terminal: *Process methods storing const true to done
	for _, f := range p.FuncsOfPkg("app") {
		if !s.IsProcessMethod(f) {
			continue
		}
		for _, in := range DirectSites(f, StoreTo("done", s.FDone)) {
			if v, ok := StoredValue(in, s.FDone); ok {
				if b, ok := ConstBool(v); ok && b {
					s.Terminals = appendUniq(s.Terminals, f)
				}
			}
		}
	}
	// StopCore: calls Commander.Stop with signal loaded from ShutDownParams.Signal
	for _, f := range p.FuncsOfPkg("app") {
		if !s.IsProcessMethod(f) {
			continue
		}
		AllInstrs(f, func(in ssa.Instruction) {
			c, ok := in.(*ssa.Call)
			if !ok || !sameFunc(CalleeObj(&c.Call), s.MStop) {
				return
			}
			if len(c.Call.Args) >= 1 && PathOf(c.Call.Args[0]).LastField() == s.FSignal {
				s.StopCores = appendUniq(s.StopCores, f)
			}
		})
	}
	// a stop core whose signalling tail was extracted: a helper with exactly one static caller, itself a Process
	// method, is replaced by that caller (repeatedly) - the stop core is the function the stop requests call
	for i, sc := range s.StopCores {
		for depth := 0; depth < 3; depth++ {
			crs := p.Callers(sc)
			if len(crs) != 1 {
				break
			}
			cr := crs[0]
			if _, isCall := cr.Instr.(*ssa.Call); !isCall || !s.IsProcessMethod(cr.Caller) || cr.Caller.Parent() != nil {
				break
			}
			sc = cr.Caller
		}
		s.StopCores[i] = sc
	}
	// RestartDecision: bool-returning *Process methods that read RestartPolicy.Restart
	for _, f := range p.FuncsOfPkg("app") {
		if !s.IsProcessMethod(f) || f.Parent() != nil {
			continue
		}
		res := f.Signature.Results()
		if res.Len() != 1 || !types.Identical(res.At(0).Type(), types.Typ[types.Bool]) {
			continue
		}
		if len(FindInstrs(f, func(in ssa.Instruction) bool { return IsLoadOf(in, s.FRestart) })) > 0 {
			s.RestartDecs = appendUniq(s.RestartDecs, f)
		}
	}
	// Gate: functions of app whose If conditions compare a value loaded from Condition
	for _, f := range p.FuncsOfPkg("app") {
		n := 0
		AllInstrs(f, func(in ssa.Instruction) {
			if bo, ok := in.(*ssa.BinOp); ok {
				if PathOf(bo.X).LastField() == s.FCondition || PathOf(bo.Y).LastField() == s.FCondition {
					n++
				}
			}
		})
		if n > 0 {
			s.Gates = appendUniq(s.Gates, f)
		}
	}
	// A gate whose per-dependency switch was extracted: the function holding the comparisons does not iterate
	// depends_on itself; the function that does (and calls it inside that iteration) is the gate the goroutine
	// calls. Gates then names that outer function and GateSwitch[outer] the inner one.
	s.GateSwitch = map[*ssa.Function]*ssa.Function{}
	s.GateSwitchCall = map[*ssa.Function]*ssa.Call{}
	rangesDeps := func(f *ssa.Function) bool {
		return len(FindInstrs(f, func(in ssa.Instruction) bool {
			rg, ok := in.(*ssa.Range)
			return ok && PathOf(rg.X).LastField() == s.FDependsOn
		})) > 0
	}
	for i, inner := range s.Gates {
		if rangesDeps(inner) {
			continue
		}
		for _, cr := range p.Callers(inner) {
			call, isCall := cr.Instr.(*ssa.Call)
			if !isCall || !rangesDeps(cr.Caller) || InnermostLoopOf(call) == nil {
				continue
			}
			s.Gates[i] = cr.Caller
			s.GateSwitch[cr.Caller] = inner
			s.GateSwitchCall[cr.Caller] = call
		}
	}
	// RunEntry: *Process methods (not closures) from which Launch may be reached and that
	// are called from code that is not a Process method.
	launchDeep := p.Deep(s.LaunchSite)
	for _, f := range p.FuncsOfPkg("app") {
		if !s.IsProcessMethod(f) || f.Parent() != nil {
			continue
		}
		if !launchDeep.May(f) {
			continue
		}
		for _, cr := range p.Callers(f) {
			if !s.IsProcessMethod(cr.Caller) {
				s.RunEntries = appendUniq(s.RunEntries, f)
			}
		}
	}
	// ProcGoroutine: closures started by `go` that call a RunEntry; Spawn: their parents
	for _, f := range p.FuncsOfPkg("app") {
		AllInstrs(f, func(in ssa.Instruction) {
			g, ok := in.(*ssa.Go)
			if !ok {
				return
			}
			fns, _ := p.Callees(&g.Call, false)
			for _, fn := range fns {
				if len(DirectSites(fn, CallOfFn("RunEntry", s.RunEntries...))) > 0 {
					s.ProcGo = appendUniq(s.ProcGo, fn)
					s.Spawns = appendUniq(s.Spawns, f)
				}
			}
		})
	}
	return s
}

func (s *Sel) inApp(fs []*ssa.Function) []*ssa.Function {
	var out []*ssa.Function
	for _, f := range fs {
		if pk := pkgOfFunc(f); pk != nil && pk.Path() == ModPath+"/src/app" {
			out = append(out, f)
		}
	}
	return out
}

// IsProcessMethod: f is a method of *app.Process or a closure nested in one.
func (s *Sel) IsProcessMethod(f *ssa.Function) bool {
	return recvIs(f, s.Process)
}

// IsRunnerMethod: f is a method of *app.ProjectRunner or a closure nested in one.
func (s *Sel) IsRunnerMethod(f *ssa.Function) bool {
	return recvIs(f, s.Runner)
}

func recvIs(f *ssa.Function, n *types.Named) bool {
	for f != nil {
		if r := f.Signature.Recv(); r != nil {
			t := r.Type()
			if pt, ok := t.(*types.Pointer); ok {
				t = pt.Elem()
			}
			if nt, ok := t.(*types.Named); ok && nt.Obj() == n.Obj() {
				return true
			}
			return false
		}
		f = f.Parent()
	}
	return false
}

func appendUniq(fs []*ssa.Function, f *ssa.Function) []*ssa.Function {
	for _, x := range fs {
		if x == f {
			return fs
		}
	}
	return append(fs, f)
}

// Describe prints the resolution of every selector.
func (s *Sel) Describe() string {
	var b strings.Builder
	list := func(name string, fs []*ssa.Function) {
		var ks []string
		for _, f := range fs {
			ks = append(ks, s.p.FuncKey(f))
		}
		sort.Strings(ks)
		fmt.Fprintf(&b, "%-14s %d  %s\n", name, len(fs), strings.Join(ks, ", "))
	}
	if s.Starter != nil {
		list("Starter", []*ssa.Function{s.Starter})
	} else {
		list("Starter", nil)
	}
	list("RunEntry", s.RunEntries)
	list("ProcGoroutine", s.ProcGo)
	list("Spawn", s.Spawns)
	list("Gate", s.Gates)
	list("Terminal", s.Terminals)
	list("StopCore", s.StopCores)
	list("RestartDec", s.RestartDecs)
	list("StatusSetter", s.StatusSetter)
	return b.String()
}

// Require fails the check (broken, exit 2) if a selector does not resolve to
// exactly the expected multiplicity.
func requireN(name string, fs []*ssa.Function, min, max int) {
	if len(fs) < min || len(fs) > max {
		broken("ANCHOR-UNRESOLVED selector=%s resolved to %d constructs (expected %d..%d)", name, len(fs), min, max)
	}
}
