package pcv

import (
	"go/constant"
	"go/token"
	"go/types"
	"sort"
	"strings"

	"golang.org/x/tools/go/ssa"
)

// ---------------------------------------------------------------------------
// basic instruction helpers

func idxIn(b *ssa.BasicBlock, in ssa.Instruction) int {
	for i, x := range b.Instrs {
		if x == in {
			return i
		}
	}
	return -1
}

// DominatesInstr: every path from function entry to b passes a.
func DominatesInstr(a, b ssa.Instruction) bool {
	if a.Block() == b.Block() {
		return idxIn(a.Block(), a) < idxIn(b.Block(), b)
	}
	return a.Block().Dominates(b.Block())
}

// AllInstrs iterates over every instruction of a function.
func AllInstrs(f *ssa.Function, fn func(in ssa.Instruction)) {
	for _, b := range f.Blocks {
		for _, in := range b.Instrs {
			fn(in)
		}
	}
}

// CallCommonOf returns the call description of Call, Go and Defer instructions.
func CallCommonOf(in ssa.Instruction) *ssa.CallCommon {
	switch x := in.(type) {
	case *ssa.Call:
		return &x.Call
	case *ssa.Go:
		return &x.Call
	case *ssa.Defer:
		return &x.Call
	}
	return nil
}

// CalleeObj returns the *types.Func called (static function, method, or
// interface method), or nil for closures and dynamic calls.
func CalleeObj(c *ssa.CallCommon) *types.Func {
	if c.IsInvoke() {
		return c.Method
	}
	if f := c.StaticCallee(); f != nil {
		if obj, ok := f.Object().(*types.Func); ok {
			return obj
		}
		// bound-method wrapper / thunk
		if f.Synthetic != "" {
			if o := boundTarget(f); o != nil {
				return o
			}
		}
	}
	return nil
}

// boundTarget returns the method a synthetic $bound/$thunk wrapper forwards to.
func boundTarget(f *ssa.Function) *types.Func {
	if f == nil || f.Synthetic == "" {
		return nil
	}
	var out *types.Func
	for _, b := range f.Blocks {
		for _, in := range b.Instrs {
			if c, ok := in.(*ssa.Call); ok {
				if c.Call.IsInvoke() {
					out = c.Call.Method
				} else if sc := c.Call.StaticCallee(); sc != nil {
					if o, ok := sc.Object().(*types.Func); ok {
						out = o
					}
				}
			}
		}
	}
	return out
}

// sameFunc compares function objects modulo generic origin.
func sameFunc(a, b *types.Func) bool {
	if a == nil || b == nil {
		return false
	}
	return a.Origin() == b.Origin()
}

// IsBuiltinCall reports a call of the named builtin (close, delete, append, len ...).
func IsBuiltinCall(in ssa.Instruction, name string) (*ssa.CallCommon, bool) {
	c := CallCommonOf(in)
	if c == nil {
		return nil, false
	}
	if b, ok := c.Value.(*ssa.Builtin); ok && b.Name() == name {
		return c, true
	}
	return nil, false
}

// ConstOf returns the constant of a value, looking through conversions.
func ConstOf(v ssa.Value) (constant.Value, bool) {
	for {
		switch x := v.(type) {
		case *ssa.Const:
			if x.Value == nil {
				return nil, false
			}
			return x.Value, true
		case *ssa.Convert:
			v = x.X
		case *ssa.ChangeType:
			v = x.X
		case *ssa.MakeInterface:
			v = x.X
		default:
			return nil, false
		}
	}
}

func ConstString(v ssa.Value) (string, bool) {
	c, ok := ConstOf(v)
	if !ok || c.Kind() != constant.String {
		return "", false
	}
	return constant.StringVal(c), true
}

func ConstInt(v ssa.Value) (int64, bool) {
	c, ok := ConstOf(v)
	if !ok || c.Kind() != constant.Int {
		return 0, false
	}
	i, ok := constant.Int64Val(c)
	return i, ok
}

func ConstBool(v ssa.Value) (bool, bool) {
	c, ok := ConstOf(v)
	if !ok || c.Kind() != constant.Bool {
		return false, false
	}
	return constant.BoolVal(c), true
}

func IsNilConst(v ssa.Value) bool {
	c, ok := v.(*ssa.Const)
	return ok && c.Value == nil
}

// ---------------------------------------------------------------------------
// access paths: where does a value come from, expressed as base + field chain

// AccessPath is the provenance of a value: a base value followed by fields.
type AccessPath struct {
	Base   ssa.Value
	Fields []*types.Var
	// Addr is true when the path denotes the address of the last field
	Addr bool
}

// PathOf computes the access path of v by walking back through field
// addresses, loads, struct field extraction and trivial conversions.
func PathOf(v ssa.Value) AccessPath {
	var fields []*types.Var
	addr := false
	first := true
	for {
		switch x := v.(type) {
		case *ssa.FieldAddr:
			st := derefStruct(x.X.Type())
			if st == nil {
				return AccessPath{Base: v, Fields: fields, Addr: addr}
			}
			if first {
				addr = true
			}
			fields = append([]*types.Var{st.Field(x.Field)}, fields...)
			v = x.X
		case *ssa.Field:
			st, _ := x.X.Type().Underlying().(*types.Struct)
			if st == nil {
				return AccessPath{Base: v, Fields: fields, Addr: addr}
			}
			fields = append([]*types.Var{st.Field(x.Field)}, fields...)
			v = x.X
		case *ssa.UnOp:
			if x.Op == token.MUL {
				v = x.X
			} else {
				return AccessPath{Base: v, Fields: fields, Addr: addr}
			}
		case *ssa.ChangeType:
			v = x.X
		case *ssa.Convert:
			v = x.X
		default:
			return AccessPath{Base: v, Fields: fields, Addr: addr}
		}
		first = false
	}
}

func derefStruct(t types.Type) *types.Struct {
	if p, ok := t.Underlying().(*types.Pointer); ok {
		t = p.Elem()
	}
	st, _ := t.Underlying().(*types.Struct)
	return st
}

// FieldNames renders the field chain "procConf.RestartPolicy.Restart".
func (a AccessPath) FieldNames() string {
	var s []string
	for _, f := range a.Fields {
		s = append(s, f.Name())
	}
	return strings.Join(s, ".")
}

// HasField reports whether the chain contains the field.
func (a AccessPath) HasField(f *types.Var) bool {
	for _, x := range a.Fields {
		if x == f {
			return true
		}
	}
	return false
}

// EndsWith reports whether the chain ends with the given fields.
func (a AccessPath) EndsWith(fs ...*types.Var) bool {
	if len(a.Fields) < len(fs) {
		return false
	}
	off := len(a.Fields) - len(fs)
	for i, f := range fs {
		if a.Fields[off+i] != f {
			return false
		}
	}
	return true
}

// LastField returns the last field of the chain or nil.
func (a AccessPath) LastField() *types.Var {
	if len(a.Fields) == 0 {
		return nil
	}
	return a.Fields[len(a.Fields)-1]
}

// ReadsField: v is (derived from) a load of field f (anywhere in its chain end).
func ReadsField(v ssa.Value, f *types.Var) bool {
	return PathOf(v).LastField() == f
}

// ---------------------------------------------------------------------------
// sites

// Site is a predicate over instructions. Call matches Call instructions and
// deferred calls (at the RunDefers point); Instr matches any other instruction.
type Site struct {
	Name  string
	Call  func(c *ssa.CallCommon) bool
	Instr func(in ssa.Instruction) bool
}

// matchDirect applies the site to one instruction (not interprocedural).
// must selects how deferred calls are treated at RunDefers.
func (s Site) matchDirect(in ssa.Instruction, must bool) bool {
	switch x := in.(type) {
	case *ssa.Call:
		if s.Call != nil && s.Call(&x.Call) {
			return true
		}
	case *ssa.RunDefers:
		if s.Call == nil {
			return false
		}
		f := in.Parent()
		for _, b := range f.Blocks {
			for _, y := range b.Instrs {
				d, ok := y.(*ssa.Defer)
				if !ok || !s.Call(&d.Call) {
					continue
				}
				if !must || DominatesInstr(d, in) {
					return true
				}
			}
		}
		return false
	case *ssa.Defer, *ssa.Go:
		// registration / other goroutine: handled by RunDefers / GoSite
	}
	if s.Instr != nil && s.Instr(in) {
		return true
	}
	return false
}

// Or combines sites.
func Or(name string, sites ...Site) Site {
	return Site{
		Name: name,
		Call: func(c *ssa.CallCommon) bool {
			for _, s := range sites {
				if s.Call != nil && s.Call(c) {
					return true
				}
			}
			return false
		},
		Instr: func(in ssa.Instruction) bool {
			for _, s := range sites {
				if s.Instr != nil && s.Instr(in) {
					return true
				}
			}
			return false
		},
	}
}

// CallOf matches calls of any of the given function objects (static or invoke).
func CallOf(name string, fns ...*types.Func) Site {
	return Site{Name: name, Call: func(c *ssa.CallCommon) bool {
		o := CalleeObj(c)
		for _, f := range fns {
			if sameFunc(o, f) {
				return true
			}
		}
		return false
	}}
}

// CallOfFn matches calls whose static callee is one of the SSA functions.
func CallOfFn(name string, fns ...*ssa.Function) Site {
	return Site{Name: name, Call: func(c *ssa.CallCommon) bool {
		sc := c.StaticCallee()
		if sc == nil {
			return false
		}
		for _, f := range fns {
			if f == sc || (f.Object() != nil && sc.Object() == f.Object()) {
				return true
			}
			if sc.Synthetic != "" && f.Object() != nil {
				if o, ok := f.Object().(*types.Func); ok && sameFunc(boundTarget(sc), o) {
					return true
				}
			}
		}
		return false
	}}
}

// StoreTo matches stores whose address is the given field (of any base).
func StoreTo(name string, field *types.Var) Site {
	return Site{Name: name, Instr: func(in ssa.Instruction) bool {
		if op, _, ok := AtomicOpOn(in, field); ok && op != "Load" {
			return true
		}
		st, ok := in.(*ssa.Store)
		if !ok {
			return false
		}
		fa, ok := st.Addr.(*ssa.FieldAddr)
		if !ok {
			return false
		}
		s := derefStruct(fa.X.Type())
		return s != nil && s.Field(fa.Field) == field
	}}
}

// StoredValue returns the stored value if in is a store to field.
func StoredValue(in ssa.Instruction, field *types.Var) (ssa.Value, bool) {
	if op, v, ok := AtomicOpOn(in, field); ok && op != "Load" && v != nil {
		return v, true
	}
	st, ok := in.(*ssa.Store)
	if !ok {
		return nil, false
	}
	fa, ok := st.Addr.(*ssa.FieldAddr)
	if !ok {
		return nil, false
	}
	s := derefStruct(fa.X.Type())
	if s == nil || s.Field(fa.Field) != field {
		return nil, false
	}
	return st.Val, true
}

// LoadOf matches loads of the given field.
func LoadOf(name string, field *types.Var) Site {
	return Site{Name: name, Instr: func(in ssa.Instruction) bool {
		return IsLoadOf(in, field)
	}}
}

// AtomicOpOn: in is a call of a sync/atomic method (Load, Store, Swap, CompareAndSwap, Add) on the address of the
// given field (a field whose type is one of the sync/atomic value types). For writes the new value is returned.
func AtomicOpOn(in ssa.Instruction, field *types.Var) (op string, val ssa.Value, ok bool) {
	ci, isCall := in.(ssa.CallInstruction)
	if !isCall {
		return "", nil, false
	}
	cc := ci.Common()
	if cc.IsInvoke() || len(cc.Args) == 0 {
		return "", nil, false
	}
	o := CalleeObj(cc)
	if o == nil || o.Pkg() == nil || o.Pkg().Path() != "sync/atomic" {
		return "", nil, false
	}
	fa, isFA := cc.Args[0].(*ssa.FieldAddr)
	if !isFA {
		return "", nil, false
	}
	st := derefStruct(fa.X.Type())
	if st == nil || st.Field(fa.Field) != field {
		return "", nil, false
	}
	switch o.Name() {
	case "Load":
		return "Load", nil, true
	case "Store", "Swap", "Add":
		if len(cc.Args) >= 2 {
			return o.Name(), cc.Args[1], true
		}
	case "CompareAndSwap":
		if len(cc.Args) >= 3 {
			return o.Name(), cc.Args[2], true
		}
	}
	return "", nil, false
}

func IsLoadOf(in ssa.Instruction, field *types.Var) bool {
	if op, _, ok := AtomicOpOn(in, field); ok && op == "Load" {
		return true
	}
	switch x := in.(type) {
	case *ssa.UnOp:
		if x.Op != token.MUL {
			return false
		}
		fa, ok := x.X.(*ssa.FieldAddr)
		if !ok {
			return false
		}
		s := derefStruct(fa.X.Type())
		return s != nil && s.Field(fa.Field) == field
	case *ssa.Field:
		s, _ := x.X.Type().Underlying().(*types.Struct)
		return s != nil && s.Field(x.Field) == field
	}
	return false
}

// MapUpdateOn matches m[k]=v where m is loaded from the given field.
func MapUpdateOn(name string, field *types.Var) Site {
	return Site{Name: name, Instr: func(in ssa.Instruction) bool {
		mu, ok := in.(*ssa.MapUpdate)
		return ok && PathOf(mu.Map).LastField() == field
	}}
}

// MapDeleteOn matches delete(m,k) where m is loaded from the given field.
func MapDeleteOn(name string, field *types.Var) Site {
	return Site{Name: name, Call: func(c *ssa.CallCommon) bool {
		b, ok := c.Value.(*ssa.Builtin)
		return ok && b.Name() == "delete" && len(c.Args) == 2 && PathOf(c.Args[0]).LastField() == field
	}}
}

// MapLookupOn matches m[k] reads where m is loaded from the given field.
func MapLookupOn(name string, field *types.Var) Site {
	return Site{Name: name, Instr: func(in ssa.Instruction) bool {
		switch x := in.(type) {
		case *ssa.Lookup:
			return PathOf(x.X).LastField() == field
		case *ssa.Range:
			return PathOf(x.X).LastField() == field
		}
		return false
	}}
}

// CloseOf matches close(ch) where ch is loaded from the field.
func CloseOf(name string, field *types.Var) Site {
	return Site{Name: name, Call: func(c *ssa.CallCommon) bool {
		b, ok := c.Value.(*ssa.Builtin)
		return ok && b.Name() == "close" && len(c.Args) == 1 && PathOf(c.Args[0]).LastField() == field
	}}
}

// CallFieldFn matches a dynamic call of a function value loaded from the field
// (e.g. p.readyCancelFn()).
func CallFieldFn(name string, field *types.Var) Site {
	return Site{Name: name, Call: func(c *ssa.CallCommon) bool {
		if c.IsInvoke() || c.StaticCallee() != nil {
			return false
		}
		return PathOf(c.Value).LastField() == field
	}}
}

// MethodOnField matches a call of method obj whose receiver is (the address of
// or a load of) the given field, e.g. p.isStopped.Store(..), p.command.Start().
func MethodOnField(name string, field *types.Var, methods ...*types.Func) Site {
	return Site{Name: name, Call: func(c *ssa.CallCommon) bool {
		o := CalleeObj(c)
		ok := false
		for _, m := range methods {
			if sameFunc(o, m) {
				ok = true
			}
		}
		if !ok {
			return false
		}
		var recv ssa.Value
		if c.IsInvoke() {
			recv = c.Value
		} else if len(c.Args) > 0 {
			recv = c.Args[0]
		}
		return recv != nil && PathOf(recv).LastField() == field
	}}
}

// ReturnSite matches return instructions.
var ReturnSite = Site{Name: "return", Instr: func(in ssa.Instruction) bool {
	_, ok := in.(*ssa.Return)
	return ok
}}

// ---------------------------------------------------------------------------
// function graphs and path queries

// Pt is a program point: "before instruction I of block B".
type Pt struct {
	B *ssa.BasicBlock
	I int
}

func ptOf(in ssa.Instruction) Pt { return Pt{in.Block(), idxIn(in.Block(), in)} }
func after(in ssa.Instruction) Pt { p := ptOf(in); p.I++; return p }

// EdgeFilter decides whether the CFG edge from block `from` to its succ-th
// successor may be taken.
type EdgeFilter func(from *ssa.BasicBlock, succ int) bool

// Reach explores forward from the start points. stop(in) instructions are
// recorded in the result but not traversed. The result holds every visited
// instruction.
func Reach(starts []Pt, stop func(in ssa.Instruction) bool, edge EdgeFilter) map[ssa.Instruction]bool {
	visited := map[ssa.Instruction]bool{}
	seenBlockStart := map[*ssa.BasicBlock]bool{}
	var work []Pt
	work = append(work, starts...)
	for len(work) > 0 {
		pt := work[len(work)-1]
		work = work[:len(work)-1]
		b := pt.B
		i := pt.I
		if i == 0 {
			if seenBlockStart[b] {
				continue
			}
			seenBlockStart[b] = true
		}
		stopped := false
		for ; i < len(b.Instrs); i++ {
			in := b.Instrs[i]
			if visited[in] && pt.I != 0 {
				// a mid-block start that was already covered
				stopped = true
				break
			}
			visited[in] = true
			if stop != nil && stop(in) {
				stopped = true
				break
			}
			if isNoReturn(in) {
				stopped = true
				break
			}
		}
		if stopped {
			continue
		}
		for si, s := range b.Succs {
			if edge != nil && !edge(b, si) {
				continue
			}
			work = append(work, Pt{s, 0})
		}
	}
	return visited
}

// isNoReturn: panic, os.Exit, runtime.Goexit, log.Fatal*.
func isNoReturn(in ssa.Instruction) bool {
	if _, ok := in.(*ssa.Panic); ok {
		return true
	}
	c, ok := in.(*ssa.Call)
	if !ok {
		return false
	}
	o := CalleeObj(&c.Call)
	if o == nil || o.Pkg() == nil {
		return false
	}
	switch o.Pkg().Path() + "." + o.Name() {
	case "os.Exit", "runtime.Goexit", "log.Fatal", "log.Fatalf", "log.Fatalln":
		return true
	}
	return false
}

// Entry is the entry point of a function.
func Entry(f *ssa.Function) []Pt {
	if len(f.Blocks) == 0 {
		return nil
	}
	return []Pt{{f.Blocks[0], 0}}
}

// ---------------------------------------------------------------------------
// call resolution

// CallRef is one static call site.
type CallRef struct {
	Caller *ssa.Function
	Instr  ssa.Instruction // *ssa.Call, *ssa.Go or *ssa.Defer
}

func (p *Prog) buildCallers() {
	if p.callers != nil {
		return
	}
	p.callers = map[*ssa.Function][]*CallRef{}
	for _, f := range p.allFuncsWithSynthetic() {
		AllInstrs(f, func(in ssa.Instruction) {
			c := CallCommonOf(in)
			if c == nil {
				return
			}
			if sc := c.StaticCallee(); sc != nil {
				p.callers[sc] = append(p.callers[sc], &CallRef{f, in})
			}
		})
	}
}

func (p *Prog) allFuncsWithSynthetic() []*ssa.Function {
	return p.Funcs
}

// Callers returns the static call sites of f in the repository.
func (p *Prog) Callers(f *ssa.Function) []*CallRef {
	p.buildCallers()
	return p.callers[f]
}

// resolveCtx bounds the backward value resolution.
type resolveCtx struct {
	p     *Prog
	seen  map[ssa.Value]bool
	depth int
	ok    bool
}

// Sources walks backward from v through phis, parameters (to the arguments at
// all static call sites), free variables (to their bindings), loads of struct
// fields (to every store to that field in the repository), loads of local
// variables, calls (to the return values of their resolved callees) and
// conversions. It returns the leaf values and whether the resolution is
// complete (no unknown source was encountered).
func (p *Prog) Sources(v ssa.Value) ([]ssa.Value, bool) {
	rc := &resolveCtx{p: p, seen: map[ssa.Value]bool{}, ok: true}
	var out []ssa.Value
	rc.walk(v, &out, 0)
	return out, rc.ok
}

func (rc *resolveCtx) walk(v ssa.Value, out *[]ssa.Value, depth int) {
	if v == nil {
		return
	}
	if rc.seen[v] {
		return
	}
	rc.seen[v] = true
	if depth > 24 {
		rc.ok = false
		return
	}
	p := rc.p
	switch x := v.(type) {
	case *ssa.Phi:
		for _, e := range x.Edges {
			rc.walk(e, out, depth+1)
		}
	case *ssa.ChangeType:
		rc.walk(x.X, out, depth+1)
	case *ssa.ChangeInterface:
		rc.walk(x.X, out, depth+1)
	case *ssa.TypeAssert:
		rc.walk(x.X, out, depth+1)
	case *ssa.Parameter:
		f := x.Parent()
		idx := -1
		for i, prm := range f.Params {
			if prm == x {
				idx = i
			}
		}
		callers := p.Callers(f)
		if idx < 0 || len(callers) == 0 || p.addressTaken(f) {
			*out = append(*out, v)
			rc.ok = false
			return
		}
		for _, cr := range callers {
			c := CallCommonOf(cr.Instr)
			if idx < len(c.Args) {
				rc.walk(c.Args[idx], out, depth+1)
			} else {
				rc.ok = false
			}
		}
	case *ssa.FreeVar:
		f := x.Parent()
		idx := -1
		for i, fv := range f.FreeVars {
			if fv == x {
				idx = i
			}
		}
		found := false
		if f.Parent() != nil {
			AllInstrs(f.Parent(), func(in ssa.Instruction) {
				if mc, ok := in.(*ssa.MakeClosure); ok && mc.Fn == f && idx >= 0 && idx < len(mc.Bindings) {
					found = true
					rc.walk(mc.Bindings[idx], out, depth+1)
				}
			})
		}
		if !found {
			*out = append(*out, v)
			rc.ok = false
		}
	case *ssa.UnOp:
		if x.Op != token.MUL {
			*out = append(*out, v)
			return
		}
		switch a := x.X.(type) {
		case *ssa.FieldAddr:
			st := derefStruct(a.X.Type())
			if st == nil {
				*out = append(*out, v)
				rc.ok = false
				return
			}
			fld := st.Field(a.Field)
			stores := p.StoresToField(fld)
			if len(stores) == 0 {
				*out = append(*out, v)
				rc.ok = false
				return
			}
			for _, s := range stores {
				rc.walk(s, out, depth+1)
			}
		case *ssa.Alloc, *ssa.FreeVar, *ssa.Parameter:
			// local variable (possibly captured): stores to the same cell
			cell := rc.cellRoot(a)
			if cell == nil {
				*out = append(*out, v)
				rc.ok = false
				return
			}
			vals := p.storesToCell(cell)
			if len(vals) == 0 {
				*out = append(*out, v)
				rc.ok = false
				return
			}
			for _, s := range vals {
				rc.walk(s, out, depth+1)
			}
		default:
			*out = append(*out, v)
			rc.ok = false
		}
	case *ssa.Extract:
		if call, ok := x.Tuple.(*ssa.Call); ok {
			fns, complete := p.Callees(&call.Call, false)
			if !complete || len(fns) == 0 {
				*out = append(*out, v)
				rc.ok = false
				return
			}
			for _, fn := range fns {
				if fn.Blocks == nil {
					*out = append(*out, v)
					return
				}
			}
			for _, fn := range fns {
				for _, r := range returnsOf(fn) {
					if x.Index < len(r.Results) {
						rc.walk(r.Results[x.Index], out, depth+1)
					}
				}
			}
			return
		}
		*out = append(*out, v)
	case *ssa.Call:
		fns, complete := p.Callees(&x.Call, false)
		if !complete || len(fns) == 0 {
			*out = append(*out, v)
			return
		}
		for _, fn := range fns {
			if fn.Blocks == nil {
				*out = append(*out, v)
				return
			}
		}
		for _, fn := range fns {
			for _, r := range returnsOf(fn) {
				if len(r.Results) == 1 {
					rc.walk(r.Results[0], out, depth+1)
				}
			}
		}
	default:
		*out = append(*out, v)
	}
}

// cellRoot maps an address value to the *ssa.Alloc it denotes, following free
// variables to their bindings.
func (rc *resolveCtx) cellRoot(a ssa.Value) *ssa.Alloc {
	for i := 0; i < 8; i++ {
		switch x := a.(type) {
		case *ssa.Alloc:
			return x
		case *ssa.FreeVar:
			f := x.Parent()
			idx := -1
			for i, fv := range f.FreeVars {
				if fv == x {
					idx = i
				}
			}
			var bound ssa.Value
			if f.Parent() != nil {
				AllInstrs(f.Parent(), func(in ssa.Instruction) {
					if mc, ok := in.(*ssa.MakeClosure); ok && mc.Fn == f && idx >= 0 && idx < len(mc.Bindings) {
						bound = mc.Bindings[idx]
					}
				})
			}
			if bound == nil {
				return nil
			}
			a = bound
		default:
			return nil
		}
	}
	return nil
}

// storesToCell lists the values stored to a local cell in its function and in
// all closures nested in it.
func (p *Prog) storesToCell(cell *ssa.Alloc) []ssa.Value {
	var out []ssa.Value
	rc := &resolveCtx{p: p}
	var visit func(f *ssa.Function)
	visit = func(f *ssa.Function) {
		AllInstrs(f, func(in ssa.Instruction) {
			if st, ok := in.(*ssa.Store); ok {
				if rc.cellRoot(st.Addr) == cell {
					out = append(out, st.Val)
				}
			}
		})
		for _, an := range f.AnonFuncs {
			visit(an)
		}
	}
	visit(cell.Parent())
	return out
}

func returnsOf(f *ssa.Function) []*ssa.Return {
	var out []*ssa.Return
	for _, b := range f.Blocks {
		if len(b.Instrs) == 0 || b == f.Recover {
			continue
		}
		if r, ok := b.Instrs[len(b.Instrs)-1].(*ssa.Return); ok {
			out = append(out, r)
		}
	}
	return out
}

// StoresToField lists every value stored to the field anywhere in the
// repository, including composite-literal initialisation (which go/ssa lowers
// to stores).
func (p *Prog) StoresToField(fld *types.Var) []ssa.Value {
	var out []ssa.Value
	for _, f := range p.Funcs {
		AllInstrs(f, func(in ssa.Instruction) {
			if v, ok := StoredValue(in, fld); ok {
				out = append(out, v)
			}
		})
	}
	return out
}

// addressTaken: the function is used as a value somewhere (so its parameters
// may receive values from unknown call sites).
func (p *Prog) addressTaken(f *ssa.Function) bool {
	if f.Parent() != nil {
		// closures: handled through MakeClosure flows; treat as address taken
		// unless every use of each MakeClosure is a direct call/go/defer.
		taken := false
		AllInstrs(f.Parent(), func(in ssa.Instruction) {
			mc, ok := in.(*ssa.MakeClosure)
			if !ok || mc.Fn != f {
				return
			}
			for _, ref := range *mc.Referrers() {
				c := CallCommonOf(ref)
				if c == nil || c.Value != mc {
					taken = true
				}
			}
		})
		return taken
	}
	for _, g := range p.Funcs {
		found := false
		AllInstrs(g, func(in ssa.Instruction) {
			for _, op := range in.Operands(nil) {
				if op == nil || *op == nil {
					continue
				}
				if fv, ok := (*op).(*ssa.Function); ok && fv == f {
					c := CallCommonOf(in)
					if c == nil || c.Value != fv {
						found = true
					}
				}
			}
		})
		if found {
			return true
		}
	}
	return false
}

// FuncValues resolves a function-typed value to the functions it may denote.
// complete is false when some source could not be resolved.
func (p *Prog) FuncValues(v ssa.Value) ([]*ssa.Function, bool) {
	leaves, ok := p.Sources(v)
	var out []*ssa.Function
	seen := map[*ssa.Function]bool{}
	for _, l := range leaves {
		switch x := l.(type) {
		case *ssa.MakeClosure:
			fn := x.Fn.(*ssa.Function)
			if !seen[fn] {
				seen[fn] = true
				out = append(out, fn)
			}
		case *ssa.Function:
			if !seen[x] {
				seen[x] = true
				out = append(out, x)
			}
		case *ssa.Const:
			if x.Value == nil {
				continue // nil function value
			}
			ok = false
		default:
			ok = false
		}
	}
	return out, ok
}

// ConcreteTypes resolves an interface value to the concrete types it may hold.
func (p *Prog) ConcreteTypes(v ssa.Value) ([]types.Type, bool) {
	leaves, ok := p.Sources(v)
	var out []types.Type
	seen := map[string]bool{}
	for _, l := range leaves {
		switch x := l.(type) {
		case *ssa.MakeInterface:
			k := x.X.Type().String()
			if !seen[k] {
				seen[k] = true
				out = append(out, x.X.Type())
			}
		case *ssa.Const:
			if x.Value == nil {
				continue
			}
			ok = false
		default:
			ok = false
		}
	}
	return out, ok
}

// Callees resolves the callees of a call. With may=false only exact
// resolutions are returned (static callee, closure/function-value provenance,
// concrete-type provenance of the interface receiver); complete tells whether
// the set is known to be exhaustive. With may=true, interface calls that
// cannot be resolved by provenance fall back to class-hierarchy analysis over
// the repository's types.
func (p *Prog) Callees(c *ssa.CallCommon, may bool) ([]*ssa.Function, bool) {
	if _, ok := c.Value.(*ssa.Builtin); ok {
		return nil, true
	}
	if c.IsInvoke() {
		tys, ok := p.ConcreteTypes(c.Value)
		if ok && len(tys) > 0 {
			var out []*ssa.Function
			for _, t := range tys {
				ms := p.SSA.MethodSets.MethodSet(t)
				sel := ms.Lookup(c.Method.Pkg(), c.Method.Name())
				if sel == nil {
					return nil, false
				}
				if fn := p.SSA.MethodValue(sel); fn != nil {
					out = append(out, p.unwrap(fn))
				}
			}
			return out, true
		}
		if may {
			return p.CHA(c.Method), false
		}
		return nil, false
	}
	if sc := c.StaticCallee(); sc != nil {
		return []*ssa.Function{p.unwrap(sc)}, true
	}
	fns, ok := p.FuncValues(c.Value)
	for i := range fns {
		fns[i] = p.unwrap(fns[i])
	}
	return fns, ok
}

// unwrap replaces a synthetic bound-method wrapper by the declared method when
// that one has a body in the repository.
func (p *Prog) unwrap(f *ssa.Function) *ssa.Function {
	if f == nil || f.Synthetic == "" {
		return f
	}
	if o := boundTarget(f); o != nil {
		if d := p.SSA.FuncValue(o); d != nil && d.Blocks != nil {
			return d
		}
	}
	return f
}

// CHA returns the repository methods implementing the interface method.
func (p *Prog) CHA(m *types.Func) []*ssa.Function {
	if p.cha == nil {
		p.cha = map[*types.Func][]*ssa.Function{}
	}
	if r, ok := p.cha[m]; ok {
		return r
	}
	var out []*ssa.Function
	recv := m.Type().(*types.Signature).Recv()
	var iface *types.Interface
	if recv != nil {
		iface, _ = recv.Type().Underlying().(*types.Interface)
	}
	for _, pk := range p.Pkgs {
		sc := pk.Types.Scope()
		for _, n := range sc.Names() {
			tn, ok := sc.Lookup(n).(*types.TypeName)
			if !ok {
				continue
			}
			if _, isIface := tn.Type().Underlying().(*types.Interface); isIface {
				continue
			}
			for _, T := range []types.Type{tn.Type(), types.NewPointer(tn.Type())} {
				if iface != nil && !types.Implements(T, iface) {
					continue
				}
				ms := p.SSA.MethodSets.MethodSet(T)
				sel := ms.Lookup(m.Pkg(), m.Name())
				if sel == nil {
					continue
				}
				if fn := p.SSA.MethodValue(sel); fn != nil {
					fn = p.unwrap(fn)
					dup := false
					for _, o := range out {
						if o == fn {
							dup = true
						}
					}
					if !dup {
						out = append(out, fn)
					}
				}
				break
			}
		}
	}
	sort.Slice(out, func(i, j int) bool { return p.FuncKey(out[i]) < p.FuncKey(out[j]) })
	p.cha[m] = out
	return out
}

// ---------------------------------------------------------------------------
// interprocedural summaries

type sumKey struct {
	f    *ssa.Function
	site string
}

// Deep lifts a site interprocedurally.
type Deep struct {
	p      *Prog
	site   Site
	always map[*ssa.Function]int // 0 unknown, 1 in progress, 2 yes, 3 no
	may    map[*ssa.Function]int
}

func (p *Prog) Deep(site Site) *Deep {
	return &Deep{p: p, site: site, always: map[*ssa.Function]int{}, may: map[*ssa.Function]int{}}
}

// MustAt: executing instruction `in` always performs the site (directly, or
// through a call all of whose exactly-resolved callees always perform it).
func (d *Deep) MustAt(in ssa.Instruction) bool {
	if d.site.matchDirect(in, true) {
		return true
	}
	switch x := in.(type) {
	case *ssa.Call:
		return d.calleesAlways(&x.Call)
	case *ssa.RunDefers:
		f := in.Parent()
		for _, b := range f.Blocks {
			for _, y := range b.Instrs {
				if df, ok := y.(*ssa.Defer); ok && DominatesInstr(df, in) && d.calleesAlways(&df.Call) {
					return true
				}
			}
		}
	}
	return false
}

func (d *Deep) calleesAlways(c *ssa.CallCommon) bool {
	fns, complete := d.p.Callees(c, false)
	if !complete || len(fns) == 0 {
		return false
	}
	for _, fn := range fns {
		if !d.Always(fn) {
			return false
		}
	}
	return true
}

// Always: every path from the entry of f to a normal return performs the site.
func (d *Deep) Always(f *ssa.Function) bool {
	switch d.always[f] {
	case 1, 3:
		return false
	case 2:
		return true
	}
	if f.Blocks == nil {
		d.always[f] = 3
		return false
	}
	d.always[f] = 1
	vis := Reach(Entry(f), d.MustAt, nil)
	res := true
	for in := range vis {
		if _, ok := in.(*ssa.Return); ok && !d.MustAt(in) {
			// a return was reached without passing the site. (MustAt(in) on
			// the Return itself is false; RunDefers precedes it.)
			res = false
			break
		}
	}
	if res {
		d.always[f] = 2
	} else {
		d.always[f] = 3
	}
	return res
}

// MayAt: executing `in` may perform the site, directly or in any callee
// (over-approximated through CHA and function-value flow; unresolved dynamic
// calls are ignored, see Unresolved).
func (d *Deep) MayAt(in ssa.Instruction) bool {
	if d.site.matchDirect(in, false) {
		return true
	}
	switch x := in.(type) {
	case *ssa.Call:
		return d.calleesMay(&x.Call)
	case *ssa.RunDefers:
		f := in.Parent()
		for _, b := range f.Blocks {
			for _, y := range b.Instrs {
				if df, ok := y.(*ssa.Defer); ok && d.calleesMay(&df.Call) {
					return true
				}
			}
		}
	}
	return false
}

func (d *Deep) calleesMay(c *ssa.CallCommon) bool {
	fns, _ := d.p.Callees(c, true)
	for _, fn := range fns {
		if d.May(fn) {
			return true
		}
	}
	return false
}

// May: some instruction of f, or of a function transitively called by f
// (synchronously), matches the site.
func (d *Deep) May(f *ssa.Function) bool {
	switch d.may[f] {
	case 2:
		return true
	case 3:
		return false
	}
	seen := map[*ssa.Function]bool{f: true}
	work := []*ssa.Function{f}
	res := false
	for len(work) > 0 && !res {
		g := work[len(work)-1]
		work = work[:len(work)-1]
		if d.may[g] == 2 {
			res = true
			break
		}
		if d.may[g] == 3 || g.Blocks == nil {
			continue
		}
		for _, b := range g.Blocks {
			for _, in := range b.Instrs {
				if d.site.matchDirect(in, false) {
					res = true
				}
				var cs []*ssa.CallCommon
				switch x := in.(type) {
				case *ssa.Call:
					cs = append(cs, &x.Call)
				case *ssa.Defer:
					cs = append(cs, &x.Call)
				}
				for _, c := range cs {
					fns, _ := d.p.Callees(c, true)
					for _, fn := range fns {
						if !seen[fn] {
							seen[fn] = true
							work = append(work, fn)
						}
					}
				}
			}
		}
	}
	if res {
		d.may[f] = 2
	} else {
		d.may[f] = 3
		for g := range seen {
			d.may[g] = 3
		}
	}
	return res
}

// ---------------------------------------------------------------------------
// path obligations

// PathResult describes an offending path end.
type PathResult struct {
	OK       bool
	Offender ssa.Instruction
}

// MustPrecede: on every path from the entry of f to a B instruction an A
// instruction (must-semantics, interprocedural) is executed first.
func MustPrecede(f *ssa.Function, a *Deep, isB func(in ssa.Instruction) bool, edge EdgeFilter) PathResult {
	vis := Reach(Entry(f), func(in ssa.Instruction) bool { return a.MustAt(in) }, edge)
	var offenders []ssa.Instruction
	for in := range vis {
		if a.MustAt(in) {
			continue
		}
		if isB(in) {
			offenders = append(offenders, in)
		}
	}
	if len(offenders) == 0 {
		return PathResult{OK: true}
	}
	sortInstrs(offenders)
	return PathResult{Offender: offenders[0]}
}

// MustFollow: on every path from `from` to a normal return of the function a
// B instruction (must-semantics) is executed.
func MustFollow(from []Pt, b *Deep, edge EdgeFilter) PathResult {
	vis := Reach(from, func(in ssa.Instruction) bool { return b.MustAt(in) }, edge)
	var offenders []ssa.Instruction
	for in := range vis {
		if _, ok := in.(*ssa.Return); ok {
			offenders = append(offenders, in)
		}
	}
	if len(offenders) == 0 {
		return PathResult{OK: true}
	}
	sortInstrs(offenders)
	return PathResult{Offender: offenders[0]}
}

// NeverBetween: no path from `from` reaches an X instruction (may-semantics)
// without first passing a stop instruction.
func NeverBetween(from []Pt, stop func(in ssa.Instruction) bool, x *Deep, edge EdgeFilter) PathResult {
	vis := Reach(from, stop, edge)
	var offenders []ssa.Instruction
	for in := range vis {
		if stop != nil && stop(in) {
			continue
		}
		if x.MayAt(in) {
			offenders = append(offenders, in)
		}
	}
	if len(offenders) == 0 {
		return PathResult{OK: true}
	}
	sortInstrs(offenders)
	return PathResult{Offender: offenders[0]}
}

func sortInstrs(ins []ssa.Instruction) {
	sort.Slice(ins, func(i, j int) bool {
		a, b := ins[i], ins[j]
		if a.Block().Index != b.Block().Index {
			return a.Block().Index < b.Block().Index
		}
		return idxIn(a.Block(), a) < idxIn(b.Block(), b)
	})
}

// FindInstrs lists the instructions of f matching the predicate, in order.
func FindInstrs(f *ssa.Function, pred func(in ssa.Instruction) bool) []ssa.Instruction {
	var out []ssa.Instruction
	for _, b := range f.Blocks {
		for _, in := range b.Instrs {
			if pred(in) {
				out = append(out, in)
			}
		}
	}
	return out
}

// DirectSites lists the instructions of f that match the site directly.
func DirectSites(f *ssa.Function, s Site) []ssa.Instruction {
	return FindInstrs(f, func(in ssa.Instruction) bool {
		if _, ok := in.(*ssa.RunDefers); ok {
			return false
		}
		if d, ok := in.(*ssa.Defer); ok {
			return s.Call != nil && s.Call(&d.Call)
		}
		return s.matchDirect(in, false)
	})
}

// FuncsWith lists repository functions containing a direct match of the site.
func (p *Prog) FuncsWith(s Site) []*ssa.Function {
	var out []*ssa.Function
	for _, f := range p.Funcs {
		if len(DirectSites(f, s)) > 0 {
			out = append(out, f)
		}
	}
	return out
}

// ---------------------------------------------------------------------------
// branch conditions

// CondEdge identifies the outcome of an If: block B, successor index (0 = true).
type CondEdge struct {
	If   *ssa.If
	Succ int
}

// IfOf returns the If terminating the block, if any.
func IfOf(b *ssa.BasicBlock) *ssa.If {
	if len(b.Instrs) == 0 {
		return nil
	}
	i, _ := b.Instrs[len(b.Instrs)-1].(*ssa.If)
	return i
}

// Cmp is a decoded comparison "X op Y".
type Cmp struct {
	Op   token.Token
	X, Y ssa.Value
}

// CondCmp decodes the condition of an If into a comparison, normalising
// negations (!c) so that Op refers to the true edge.
func CondCmp(cond ssa.Value) (Cmp, bool) {
	neg := false
	for {
		switch x := cond.(type) {
		case *ssa.UnOp:
			if x.Op == token.NOT {
				neg = !neg
				cond = x.X
				continue
			}
			return Cmp{}, false
		case *ssa.BinOp:
			op := x.Op
			if neg {
				op = negateOp(op)
			}
			switch op {
			case token.EQL, token.NEQ, token.LSS, token.LEQ, token.GTR, token.GEQ:
				return Cmp{op, x.X, x.Y}, true
			}
			return Cmp{}, false
		default:
			return Cmp{}, false
		}
	}
}

func negateOp(op token.Token) token.Token {
	switch op {
	case token.EQL:
		return token.NEQ
	case token.NEQ:
		return token.EQL
	case token.LSS:
		return token.GEQ
	case token.LEQ:
		return token.GTR
	case token.GTR:
		return token.LEQ
	case token.GEQ:
		return token.LSS
	}
	return op
}

// BoolCond decodes a condition that is a plain boolean value (possibly
// negated): returns the value and whether the true edge means value==true.
func BoolCond(cond ssa.Value) (ssa.Value, bool) {
	pos := true
	for {
		if u, ok := cond.(*ssa.UnOp); ok && u.Op == token.NOT {
			pos = !pos
			cond = u.X
			continue
		}
		return cond, pos
	}
}
