package pcv

import (
	"fmt"
	"go/constant"
	"go/token"
	"go/types"
	"strings"

	"golang.org/x/tools/go/ssa"
)

func init() {
	register(&PropCheck{
		ID: "C06",
		Explanation: "OS-level stop, structural part: (1) on every non-attached path to the launch the commander is told to create a new process group (SetCmdArgs, which stores Setpgid=true on unix); " +
			"(2) decision table of the unix Stop: out-of-range signals become SIGTERM, parent_only signals the parent process only, otherwise syscall.Kill(-pgid, sig) with pgid = Getpgid(pid); " +
			"(3) every Commander.Stop with the constant SIGKILL is control-dependent on context.DeadlineExceeded of a context whose timeout is shutdown.timeout_seconds * time.Second, or on the failure of the configured shutdown command; " +
			"(4) the configured shutdown command gets the process environment and working directory and a timeout context before it is run; " +
			"(5) the supervisor's signal registrations cover SIGTERM, SIGINT and SIGHUP, precede Run() and their consumers reach ShutDownProject; (6) the stop core forwards the configured signal and parent_only.",
		Assumptions: []string{
			"signals actually delivered, descendants actually dead, real time to SIGKILL and windows are not decided",
			"syscall.Kill with a negative pid addresses the process group (library model)",
		},
		Run: runC06,
	})
}

func runC06(c *Ctx) {
	p := c.P
	s := p.Selectors()
	s.checkErrorsNotSwallowed(c, "errors-not-swallowed", inPkgs("command"), "a signal that could not be delivered would be reported as delivered, so no escalation follows")
	s.checkFailedShutdownCommandKills(c)
	s.checkOrderedOrderComplete(c)
	// a live update that changes only the shutdown parameters reaches the running process: the configuration
	// comparison covers every field of ShutDownParams (whole, or field by field)
	{
		rCmp := c.Rule("shutdown-params-compared", "the configuration comparison used by the live update compares ShutDownParams as a whole or accesses each of its fields (signal, parent_only, timeout, command) on both operands")
		var cmp *ssa.Function
		bestN := -1
		for _, f := range p.FuncsOfPkg("types") {
			if !recvIs(f, s.ProcConf) || f.Parent() != nil {
				continue
			}
			sig := f.Signature
			if sig.Params().Len() == 1 && isPtrTo(sig.Params().At(0).Type(), s.ProcConf) && sig.Results().Len() == 1 && types.Identical(sig.Results().At(0).Type(), types.Typ[types.Bool]) {
				n := 0
				AllInstrs(f, func(in ssa.Instruction) {
					if _, ok := in.(*ssa.FieldAddr); ok {
						n++
					}
				})
				if n > bestN {
					cmp, bestN = f, n
				}
			}
		}
		if c.Check(cmp != nil, rCmp, "compare-fn", "", "comparison found", "no comparison of two process configurations found") {
			c.Touch(cmp)
			whole := 0
			sub := map[*types.Var]int{}
			AllInstrs(cmp, func(in ssa.Instruction) {
				switch x := in.(type) {
				case *ssa.UnOp:
					if fa, ok := x.X.(*ssa.FieldAddr); ok && x.Op == token.MUL {
						if st := derefStruct(fa.X.Type()); st != nil && st.Field(fa.Field) == s.FShutDownParams {
							whole++
						}
					}
				case *ssa.FieldAddr:
					if inner, ok := x.X.(*ssa.FieldAddr); ok {
						if st := derefStruct(inner.X.Type()); st != nil && st.Field(inner.Field) == s.FShutDownParams {
							sub[derefStruct(x.X.Type()).Field(x.Field)]++
						}
					}
				}
			})
			missing := ""
			if whole < 2 {
				for _, fld := range []*types.Var{s.FSignal, s.FParentOnly, s.FShutDownTimeout, s.FShutDownCommand} {
					if sub[fld] < 2 {
						missing = fld.Name()
					}
				}
			}
			c.Check(missing == "", rCmp, "fields", FirstPos(p, cmp), "every shutdown parameter takes part in the comparison", "the configuration comparison leaves out shutdown."+missing+": an update that changes only this parameter is treated as \"up to date\", the running process keeps the old value and is stopped with the wrong signal scope / signal / timeout / command")
		}
	}
	requireN("StopCore", s.StopCores, 1, 1)
	sigkill := int64(9)

	// ------------------------------------------------------------------ (1)
	r1 := c.Rule("pgid-before-start", "in the starter closure every path to Commander.Start that does not pass AttachIo passes SetCmdArgs on Process.command; the non-PTY unix SetCmdArgs stores SysProcAttr with Setpgid=true")
	if s.Starter == nil {
		c.Bad(r1, "starter", "", "no unique launch site")
	} else {
		c.Touch(s.Starter)
		attach := MethodOnField("AttachIo", s.FCommand, s.MAttachIo)
		setArgs := MethodOnField("SetCmdArgs", s.FCommand, s.MSetCmdArgs)
		stop := Or("SetCmdArgs|AttachIo", attach, setArgs)
		// named exception: a PTY child is made a session leader by pty.Start, so the
		// rule is judged under the assumption IsTty=false
		notTty := func(from *ssa.BasicBlock, succ int) bool {
			ifi := IfOf(from)
			if ifi == nil {
				return true
			}
			v, pos := BoolCond(ifi.Cond)
			if f := PathOf(v).LastField(); f == nil || f.Name() != "IsTty" {
				return true
			}
			return pos != (succ == 0)
		}
		vis := Reach(Entry(s.Starter), p.Deep(stop).MustAt, notTty)
		bad := false
		for in := range vis {
			if s.LaunchSite.matchDirect(in, true) {
				bad = true
			}
		}
		c.Check(!bad, r1, p.FuncKey(s.Starter), FirstPos(p, s.Starter), "SetCmdArgs or AttachIo precedes Start on every path", "a path launches the command without SetCmdArgs (no own process group: stopping it cannot reach its descendants) and without attaching the terminal")
		// the attach branch is taken only for main / elevated processes: assuming
		// isMain=false and IsElevated=false AttachIo is unreachable
		assume := func(from *ssa.BasicBlock, succ int) bool {
			ifi := IfOf(from)
			if ifi == nil {
				return true
			}
			v, pos := BoolCond(ifi.Cond)
			f := PathOf(v).LastField()
			if f == nil || (f.Name() != "isMain" && f.Name() != "IsElevated") {
				return true
			}
			// the field is false: the true edge (for a positive test) is infeasible
			return pos != (succ == 0)
		}
		vis2 := Reach(Entry(s.Starter), nil, assume)
		reach := false
		for _, in := range DirectSites(s.Starter, attach) {
			if vis2[in] {
				reach = true
			}
		}
		c.Check(!reach, r1, p.FuncKey(s.Starter)+":attach-guard", FirstPos(p, s.Starter), "AttachIo only for the foreground/elevated case", "AttachIo (no own process group) is reachable for an ordinary background process")
	}
	// unix SetCmdArgs of CmdWrapper
	{
		f := p.TryMethod("command", "CmdWrapper", "SetCmdArgs")
		ok := false
		if f != nil {
			c.Touch(f)
			AllInstrs(f, func(in ssa.Instruction) {
				st, isSt := in.(*ssa.Store)
				if !isSt {
					return
				}
				fa, isFa := st.Addr.(*ssa.FieldAddr)
				if !isFa {
					return
				}
				sx := derefStruct(fa.X.Type())
				if sx == nil || sx.Field(fa.Field).Name() != "Setpgid" {
					return
				}
				if b, okb := ConstBool(st.Val); okb && b {
					// the struct is stored into cmd.SysProcAttr
					ok = true
				}
			})
			storesAttr := false
			AllInstrs(f, func(in ssa.Instruction) {
				if st, isSt := in.(*ssa.Store); isSt {
					if fa, isFa := st.Addr.(*ssa.FieldAddr); isFa {
						sx := derefStruct(fa.X.Type())
						if sx != nil && sx.Field(fa.Field).Name() == "SysProcAttr" {
							storesAttr = true
						}
					}
				}
			})
			ok = ok && storesAttr
		}
		c.Check(ok, r1, "unix-SetCmdArgs", FirstPos(p, f), "Setpgid=true stored in SysProcAttr", "the unix SetCmdArgs does not put the child into its own process group (Setpgid=true)")
	}

	// ------------------------------------------------------------------ (2)
	r2 := c.Rule("kill-group", "decision table of the unix (*CmdWrapper).Stop over {cmd nil, signal, parent_only, Getpgid error}: nothing when no command; effective signal = sig if 1<=sig<=31 else SIGTERM; parent_only => Process.Signal(effective) only; else Kill(-Getpgid(pid), effective), and no signal when Getpgid fails")
	stopFn := p.TryMethod("command", "CmdWrapper", "Stop")
	if stopFn == nil {
		c.Bad(r2, "stop-fn", "", "(*CmdWrapper).Stop not found")
	} else {
		c.RunTable(r2, p.FuncKey(stopFn), &TableSpec{
			Fn: stopFn, Depth: 4,
			Focus: map[string]bool{"sig": true, "parentOnly": true, "pgid": true, "pgidErrNil": true, "nocmd": true},
			Rename: func(raw string) string {
				switch {
				case raw == "p1":
					return "sig"
				case raw == "p2":
					return "parentOnly"
				case raw == "nil:p0."+p.Field("command", "CmdWrapper", "cmd").Name():
					return "nocmd"
				case strings.HasPrefix(raw, "call:syscall.Getpgid(") && strings.HasSuffix(raw, "#0"):
					return "pgid"
				case strings.HasPrefix(raw, "nil:call:syscall.Getpgid(") && strings.HasSuffix(raw, "#1"):
					return "pgidErrNil"
				}
				return ""
			},
			ExtraInts: []int64{0, 1, 15, 31, 32, 9},
			Domain: func(key string, t types.Type) []constant.Value {
				switch key {
				case "sig":
					return Ints(-1, 0, 1, 2, 9, 15, 31, 32, 64)
				case "pgid":
					return Ints(77, 4321)
				}
				return nil
			},
			ExternEffect: func(obj *types.Func, cc *ssa.CallCommon) (string, bool) {
				if obj.Pkg() == nil {
					return "", false
				}
				switch obj.Pkg().Path() + "." + obj.Name() {
				case "syscall.Kill":
					return "Kill", true
				case "os.Signal":
					return "Process.Signal", true
				case "os.Kill":
					return "Process.Kill", true
				}
				return "", false
			},
		}, &TableCheck{
			Keys: map[string][]constant.Value{"sig": Ints(-1, 0, 1, 2, 9, 15, 31, 32, 64), "parentOnly": Bools(), "nocmd": Bools()},
			Judge: func(val map[string]constant.Value, l *Leaf) (bool, string, string) {
				var obs []string
				for _, e := range l.Effects {
					if e.Name == "Kill" || e.Name == "Process.Signal" || e.Name == "Process.Kill" {
						var as []string
						for i, a := range e.Args {
							if e.Name != "Kill" && i == 0 {
								continue // receiver
							}
							as = append(as, a.String())
						}
						obs = append(obs, e.Name+"("+strings.Join(as, ",")+")")
					}
				}
				o := strings.Join(obs, ";")
				if VBool(val, "nocmd") {
					return o == "", "", o
				}
				sig := VInt(val, "sig")
				if sig < 1 || sig > 31 {
					sig = 15
				}
				var exp string
				if VBool(val, "parentOnly") {
					exp = fmt.Sprintf("Process.Signal(%d)", sig)
				} else {
					if _, has := val["pgidErrNil"]; has && VBool(val, "pgidErrNil") {
						exp = fmt.Sprintf("Kill(%d,%d)", -VInt(val, "pgid"), sig)
					} else if has {
						exp = ""
					} else {
						// error not consulted: the kill must not have happened without checking
						exp = "<Getpgid error must be checked>"
					}
				}
				return o == exp, exp, o
			},
		})
	}

	// ------------------------------------------------------------------ (3)
	r3 := c.Rule("sigkill-only-after-deadline", "every Commander.Stop call whose signal argument is the constant SIGKILL is dominated either by the true edge of errors.Is(err, context.DeadlineExceeded) where err is the Err() of a context created by context.WithTimeout(_, time.Duration(ShutDownTimeout)*time.Second), or by the non-nil edge of running the configured shutdown command")
	nKill := 0
	for _, f := range p.FuncsOfPkg("app") {
		AllInstrs(f, func(in ssa.Instruction) {
			call, ok := in.(*ssa.Call)
			if !ok || !sameFunc(CalleeObj(&call.Call), s.MStop) {
				return
			}
			args := ArgsOf(&call.Call)
			if len(args) < 1 {
				return
			}
			k, isConst := ConstInt(args[0])
			if !isConst {
				return
			}
			nKill++
			c.Touch(f)
			if k != sigkill {
				c.Bad(r3, "const-signal:"+p.FuncKey(f), p.InstrPos(call), fmt.Sprintf("Commander.Stop is called with the constant signal %d instead of the configured one", k))
				return
			}
			ok2, why := s.sigkillGuard(call)
			c.Check(ok2, r3, "sigkill:"+p.FuncKey(f), p.InstrPos(call), why, "SIGKILL is sent on a path that is not behind the expiry of shutdown.timeout_seconds or the failure of the shutdown command (a process could be killed early)")
		})
	}
	if nKill == 0 {
		c.Bad(r3, "sigkill:none", "", "no SIGKILL escalation found: a process ignoring the stop signal is never killed")
	}
	// the escalation exists on the deadline path: the stop core reaches it when a timeout is configured
	{
		sc := s.StopCores[0]
		esc := p.Deep(Site{Name: "Stop(SIGKILL)", Call: func(cc *ssa.CallCommon) bool {
			if !sameFunc(CalleeObj(cc), s.MStop) {
				return false
			}
			args := ArgsOf(cc)
			k, ok := ConstInt(args[0])
			return ok && k == sigkill
		}})
		c.Check(esc.May(sc), r3, "escalation-reachable", FirstPos(p, sc), "the stop core can escalate to SIGKILL", "the stop core never escalates to SIGKILL")
	}

	// the clock of shutdown.timeout_seconds starts when the signal was sent
	{
		rArm := c.Rule("deadline-armed-after-signal", "every context.WithTimeout whose duration is ShutDownTimeout*time.Second (the SIGKILL deadline) is created after the configured stop signal was sent to this process, on every call chain (the grace period is counted from the signal, not from the start of the project shutdown)")
		sigSite := p.Deep(Site{Name: "Stop(configured signal)", Call: func(cc *ssa.CallCommon) bool {
			if !sameFunc(CalleeObj(cc), s.MStop) {
				return false
			}
			args := ArgsOf(cc)
			return len(args) == 2 && PathOf(args[0]).LastField() == s.FSignal
		}})
		nArm := 0
		for _, f := range p.FuncsOfPkg("app") {
			AllInstrs(f, func(in ssa.Instruction) {
				call, ok := in.(*ssa.Call)
				if !ok {
					return
				}
				o := CalleeObj(&call.Call)
				if o == nil || o.Pkg() == nil || o.Pkg().Path() != "context" || o.Name() != "WithTimeout" || len(call.Call.Args) != 2 {
					return
				}
				bo, isB := call.Call.Args[1].(*ssa.BinOp)
				if !isB {
					return
				}
				if PathOf(bo.X).LastField() != s.FShutDownTimeout && PathOf(bo.Y).LastField() != s.FShutDownTimeout {
					return
				}
				// not the shutdown-command context (its value goes through a local with a default)
				nArm++
				c.Touch(f)
				ok2, off := p.PrecededUp(call, sigSite, 4)
				pos := p.InstrPos(call)
				if off != nil {
					pos = p.InstrPos(off)
				}
				c.Check(ok2, rArm, p.FuncKey(f), pos, "the deadline is armed after the signal", "the SIGKILL deadline can be armed before the stop signal is sent (e.g. when the project shutdown starts): a process that is signalled late is killed before its timeout_seconds have elapsed")
			})
		}
		if nArm == 0 {
			c.Bad(rArm, "none", "", "no SIGKILL deadline derived from shutdown.timeout_seconds found")
		}
	}

	// ------------------------------------------------------------------ (4)
	r4 := c.Rule("shutdown-command-context", "the command built from ShutDownParams.ShutDownCommand is created with a context from context.WithTimeout and receives SetEnv(<process environment>) and SetDir(procConf.WorkingDir) on every path before Run()")
	envFns := s.envFuncs()
	n4 := 0
	for _, f := range p.FuncsOfPkg("app") {
		if !s.IsProcessMethod(f) {
			continue
		}
		AllInstrs(f, func(in ssa.Instruction) {
			call, ok := in.(*ssa.Call)
			if !ok {
				return
			}
			sc := call.Call.StaticCallee()
			if sc == nil || pkgOfFunc(sc) == nil || pkgOfFunc(sc).Name() != "command" {
				return
			}
			usesCmd := false
			for _, a := range call.Call.Args {
				if PathOf(a).LastField() == s.FShutDownCommand {
					usesCmd = true
				}
			}
			if !usesCmd {
				return
			}
			n4++
			c.Touch(f)
			// context argument from WithTimeout
			ctxOK := false
			for _, a := range call.Call.Args {
				if ex, isEx := a.(*ssa.Extract); isEx {
					if cc, isC := ex.Tuple.(*ssa.Call); isC {
						if o := CalleeObj(&cc.Call); o != nil && o.Pkg() != nil && o.Pkg().Path() == "context" && o.Name() == "WithTimeout" {
							ctxOK = true
						}
					}
				}
			}
			c.Check(ctxOK, r4, "timeout-context:"+p.FuncKey(f), p.InstrPos(call), "built with a timeout context", "the shutdown command is not bound to a timeout context (it can hang forever)")
			// uses of the command value
			var runs, envs, dirs []ssa.Instruction
			for _, ref := range *call.Referrers() {
				rc, isC := ref.(*ssa.Call)
				if !isC {
					continue
				}
				o := CalleeObj(&rc.Call)
				if o == nil {
					continue
				}
				switch o.Name() {
				case "Run", "Start", "Output":
					runs = append(runs, rc)
				case "SetEnv":
					as := ArgsOf(&rc.Call)
					if len(as) == 1 {
						if ec, isE := stripConv(as[0]).(*ssa.Call); isE {
							for _, ef := range envFns {
								if ec.Call.StaticCallee() == ef {
									envs = append(envs, rc)
								}
							}
						}
					}
				case "SetDir":
					as := ArgsOf(&rc.Call)
					if len(as) == 1 && PathOf(as[0]).LastField() == s.FWorkingDir {
						dirs = append(dirs, rc)
					}
				}
			}
			okAll := len(runs) > 0
			for _, r := range runs {
				for _, set := range [][]ssa.Instruction{envs, dirs} {
					vis := Reach([]Pt{after(call)}, func(x ssa.Instruction) bool { return isOneOf(x, set) }, nil)
					if vis[r] {
						okAll = false
					}
				}
			}
			c.Check(okAll, r4, "env-dir-before-run:"+p.FuncKey(f), p.InstrPos(call), "environment and working directory set before Run()", "the shutdown command is run without the process's environment or working directory")
		})
	}
	if n4 == 0 {
		c.Bad(r4, "none", "", "the configured shutdown command is never built")
	}

	// ------------------------------------------------------------------ (5)
	r5 := c.Rule("signal-handlers", "every signal.Notify in cmd/tui that lists SIGTERM on behalf of the supervisor lists {SIGTERM, SIGINT, SIGHUP}, and the function consuming the channel reaches IProject.ShutDownProject / (*ProjectRunner).ShutDownProject; in the headless path the registration precedes Run()")
	shutIface := p.IfaceMethod("app", "IProject", "ShutDownProject")
	shutDeep := p.Deep(Or("ShutDownProject", CallOf("iface", shutIface), CallOfFn("runner", s.shutdownFn())))
	nN := 0
	for _, pk := range []string{"cmd", "tui"} {
		for _, f := range p.FuncsOfPkg(pk) {
			AllInstrs(f, func(in ssa.Instruction) {
				call, ok := in.(*ssa.Call)
				if !ok {
					return
				}
				o := CalleeObj(&call.Call)
				if o == nil || o.Pkg() == nil || o.Pkg().Path() != "os/signal" || o.Name() != "Notify" {
					return
				}
				sigs := notifySignals(call)
				if !sigs["SIGTERM"] || !sigs["SIGHUP"] && !sigs["SIGINT"] {
					return
				}
				// named exception: the TUI's temporary foreground-command handler (lists INT+TERM only and does not shut down)
				if !sigs["SIGHUP"] && pk == "tui" {
					c.Note("signal.Notify in %s handles a temporary foreground command (named exception)", p.FuncKey(f))
					return
				}
				nN++
				c.Touch(f)
				c.Check(sigs["SIGTERM"] && sigs["SIGINT"] && sigs["SIGHUP"], r5, "signals:"+p.FuncKey(f), p.InstrPos(call), "SIGTERM, SIGINT, SIGHUP registered", "the supervisor's signal handler does not cover SIGTERM, SIGINT and SIGHUP")
				// consumer reaches shutdown: the function itself, its closures, or the handler passed in
				reaches := false
				seen := map[*ssa.Function]bool{}
				var visit func(g *ssa.Function, d int)
				visit = func(g *ssa.Function, d int) {
					if g == nil || seen[g] || g.Blocks == nil || d > 4 {
						return
					}
					seen[g] = true
					if shutDeep.May(g) {
						reaches = true
					}
					for _, an := range g.AnonFuncs {
						visit(an, d+1)
					}
					AllInstrs(g, func(x ssa.Instruction) {
						if cc := CallCommonOf(x); cc != nil {
							fns, _ := p.Callees(cc, false)
							for _, fn := range fns {
								if p.InRepo(fn) {
									visit(fn, d+1)
								}
							}
						}
					})
				}
				visit(f, 0)
				// the registration stays in force while the shutdown runs: nothing in the registering function or the
				// functions visited above un-registers the channel (signal.Stop / Reset / Ignore restore the default
				// disposition, so a second signal during the shutdown kills the supervisor and orphans the processes)
				undone := ""
				for g := range seen {
					AllInstrs(g, func(x ssa.Instruction) {
						if cc := CallCommonOf(x); cc != nil {
							if o2 := CalleeObj(cc); o2 != nil && o2.Pkg() != nil && o2.Pkg().Path() == "os/signal" && (o2.Name() == "Stop" || o2.Name() == "Reset" || o2.Name() == "Ignore") {
								undone = o2.Name() + " in " + p.FuncKey(g)
							}
						}
					})
				}
				c.Check(undone == "", r5, "stays-registered:"+p.FuncKey(f), p.InstrPos(call), "the handler stays registered during the shutdown", "the signal registration is undone (signal."+undone+") before or while the shutdown runs: a repeated SIGTERM/SIGINT/SIGHUP then terminates process-compose itself, the SIGKILL escalation never happens and the managed process groups survive")
				c.Check(reaches, r5, "consumer:"+p.FuncKey(f), p.InstrPos(call), "the signal consumer reaches ShutDownProject", "the consumer of the signal channel does not reach ShutDownProject: SIGTERM/SIGINT/SIGHUP would not stop the managed processes")
			})
		}
	}
	if nN < 2 {
		c.Bad(r5, "floor:registrations", "", fmt.Sprintf("expected the headless and the TUI signal registration, found %d", nN))
	}
	// headless: registration before Run
	runFn := p.TryMethod("app", "ProjectRunner", "Run")
	for _, f := range p.FuncsOfPkg("cmd") {
		runCalls := DirectSites(f, CallOfFn("Run", runFn))
		if len(runCalls) == 0 {
			continue
		}
		notifyDeep := p.Deep(Site{Name: "signal.Notify", Call: func(cc *ssa.CallCommon) bool {
			o := CalleeObj(cc)
			return o != nil && o.Pkg() != nil && o.Pkg().Path() == "os/signal" && o.Name() == "Notify"
		}})
		tuiStart := p.Deep(Site{Name: "tui start", Call: func(cc *ssa.CallCommon) bool {
			sc := cc.StaticCallee()
			return sc != nil && pkgOfFunc(sc) != nil && pkgOfFunc(sc).Name() == "tui" && strings.HasPrefix(sc.Name(), "RunTUI")
		}})
		if tuiStart.May(f) {
			continue // TUI mode installs its own handler (tui.setSignal), judged above
		}
		either := func(in ssa.Instruction) bool { return notifyDeep.MustAt(in) }
		vis := Reach(Entry(f), either, nil)
		bad := false
		for _, rc := range runCalls {
			if vis[rc] {
				bad = true
			}
		}
		c.Check(!bad, r5, "registered-before-run:"+p.FuncKey(f), FirstPos(p, f), "signal handling is installed before Run()", "Run() is reached before the signal handler (or the TUI with its handler) is installed: a signal during start-up kills the supervisor and orphans its processes")
	}

	// ------------------------------------------------------------------ (6)
	r6 := c.Rule("configured-signal-used", "in the stop core the non-escalation Commander.Stop passes ShutDownParams.Signal and ShutDownParams.ParentOnly of the same process")
	n6 := 0
	for _, sc0 := range s.StopCores {
		// the stop core and the Process methods it calls (an extracted signalling tail)
		scope := []*ssa.Function{sc0}
		AllInstrs(sc0, func(in ssa.Instruction) {
			if call, ok := in.(*ssa.Call); ok {
				if g := call.Call.StaticCallee(); g != nil && len(g.Blocks) > 0 && s.IsProcessMethod(g) && len(p.Callers(g)) == 1 {
					scope = appendUniq(scope, g)
				}
			}
		})
		for _, sc := range scope {
			sc := sc
			AllInstrs(sc, func(in ssa.Instruction) {
				call, ok := in.(*ssa.Call)
				if !ok || !sameFunc(CalleeObj(&call.Call), s.MStop) {
					return
				}
				args := ArgsOf(&call.Call)
				if len(args) != 2 {
					return
				}
				if _, isConst := ConstInt(args[0]); isConst {
					return
				}
				n6++
				c.Check(PathOf(args[0]).LastField() == s.FSignal && PathOf(args[1]).LastField() == s.FParentOnly, r6, p.FuncKey(sc0), p.InstrPos(call), "configured signal and parent_only forwarded", "the stop core does not forward shutdown.signal / shutdown.parent_only")
			})
		}
	}
	if n6 == 0 {
		c.Bad(r6, "none", "", "the stop core never sends the configured signal")
	}
	// forceKill forwards parent_only as well
	for _, f := range p.FuncsOfPkg("app") {
		AllInstrs(f, func(in ssa.Instruction) {
			call, ok := in.(*ssa.Call)
			if !ok || !sameFunc(CalleeObj(&call.Call), s.MStop) {
				return
			}
			args := ArgsOf(&call.Call)
			if k, isConst := ConstInt(args[0]); isConst && k == sigkill {
				if ok2, why := s.sigkillGuard(call); ok2 && strings.Contains(why, "deadline") {
					c.Check(PathOf(args[1]).LastField() == s.FParentOnly, r6, "sigkill-parent-only:"+p.FuncKey(f), p.InstrPos(call), "parent_only forwarded on escalation", "the SIGKILL escalation ignores shutdown.parent_only")
				}
			}
		})
	}
}

// envFuncs: Process methods returning []string that read os.Environ.
func (s *Sel) envFuncs() []*ssa.Function {
	var out []*ssa.Function
	for _, f := range s.p.FuncsOfPkg("app") {
		if !s.IsProcessMethod(f) || f.Parent() != nil {
			continue
		}
		res := f.Signature.Results()
		if res.Len() != 1 || res.At(0).Type().String() != "[]string" {
			continue
		}
		has := false
		AllInstrs(f, func(in ssa.Instruction) {
			if call, ok := in.(*ssa.Call); ok {
				if o := CalleeObj(&call.Call); o != nil && o.Pkg() != nil && o.Pkg().Path() == "os" && o.Name() == "Environ" {
					has = true
				}
			}
		})
		if has {
			out = append(out, f)
		}
	}
	return out
}

// sigkillGuard classifies the guard of a Stop(SIGKILL) call.
func (s *Sel) sigkillGuard(call *ssa.Call) (bool, string) {
	for _, g := range GuardsOf(call) {
		v, val := g.BoolVal()
		if ec, ok := v.(*ssa.Call); ok && val {
			o := CalleeObj(&ec.Call)
			if o != nil && o.Pkg() != nil && o.Pkg().Path() == "errors" && o.Name() == "Is" && len(ec.Call.Args) == 2 && isGlobal(ec.Call.Args[1], "context", "DeadlineExceeded") {
				// err is ctx.Err() of a context made by WithTimeout(Duration(ShutDownTimeout)*Second)
				if s.isErrOfShutdownTimeoutCtx(ec.Call.Args[0]) {
					return true, "behind the shutdown timeout deadline"
				}
			}
		}
		// non-nil error of running the shutdown command
		if cmp, ok := g.Cmp(); ok && cmp.Op == token.NEQ {
			var ev ssa.Value
			if IsNilConst(cmp.Y) {
				ev = cmp.X
			} else if IsNilConst(cmp.X) {
				ev = cmp.Y
			}
			if rc, isC := stripConv(ev).(*ssa.Call); isC {
				if o := CalleeObj(&rc.Call); o != nil && o.Name() == "Run" {
					if bc, isB := stripConv(ReceiverOf(&rc.Call)).(*ssa.Call); isB {
						for _, a := range bc.Call.Args {
							if PathOf(a).LastField() == s.FShutDownCommand {
								return true, "behind the failure of the shutdown command"
							}
						}
					}
				}
			}
		}
	}
	return false, ""
}

// isErrOfShutdownTimeoutCtx: v = <ctx>.Err() where ctx was loaded from a field
// that is assigned context.WithTimeout(_, time.Duration(ShutDownTimeout)*time.Second).
func (s *Sel) isErrOfShutdownTimeoutCtx(v ssa.Value) bool {
	p := s.p
	call, ok := stripConv(v).(*ssa.Call)
	if !ok || !call.Call.IsInvoke() || call.Call.Method.Name() != "Err" {
		return false
	}
	srcs, _ := p.Sources(call.Call.Value)
	for _, l := range srcs {
		ex, ok := l.(*ssa.Extract)
		if !ok {
			continue
		}
		wc, ok := ex.Tuple.(*ssa.Call)
		if !ok {
			continue
		}
		o := CalleeObj(&wc.Call)
		if o == nil || o.Pkg() == nil || o.Pkg().Path() != "context" || o.Name() != "WithTimeout" || len(wc.Call.Args) != 2 {
			continue
		}
		// duration = Convert(ShutDownTimeout) * 1e9
		if bo, ok := wc.Call.Args[1].(*ssa.BinOp); ok && bo.Op == token.MUL {
			var fieldSide, constSide ssa.Value = bo.X, bo.Y
			if _, isC := ConstInt(bo.X); isC {
				fieldSide, constSide = bo.Y, bo.X
			}
			k, isC := ConstInt(constSide)
			if isC && k == 1000000000 && PathOf(fieldSide).LastField() == s.FShutDownTimeout {
				return true
			}
		}
	}
	return false
}

// notifySignals decodes the signal list of a signal.Notify call.
func notifySignals(call *ssa.Call) map[string]bool {
	out := map[string]bool{}
	if len(call.Call.Args) < 2 {
		return out
	}
	sl, ok := call.Call.Args[1].(*ssa.Slice)
	if !ok {
		return out
	}
	al, ok := sl.X.(*ssa.Alloc)
	if !ok {
		return out
	}
	for _, ref := range *al.Referrers() {
		ia, ok := ref.(*ssa.IndexAddr)
		if !ok {
			continue
		}
		for _, r2 := range *ia.Referrers() {
			st, ok := r2.(*ssa.Store)
			if !ok {
				continue
			}
			v := st.Val
			if mi, ok := v.(*ssa.MakeInterface); ok {
				v = mi.X
			}
			if k, ok := ConstInt(v); ok {
				switch k {
				case 15:
					out["SIGTERM"] = true
				case 2:
					out["SIGINT"] = true
				case 1:
					out["SIGHUP"] = true
				case 9:
					out["SIGKILL"] = true
				}
				continue
			}
			// os.Interrupt: a variable denoting SIGINT
			if u, ok := v.(*ssa.UnOp); ok && u.Op == token.MUL {
				if g, ok := u.X.(*ssa.Global); ok && g.Pkg != nil && g.Pkg.Pkg.Path() == "os" {
					switch g.Name() {
					case "Interrupt":
						out["SIGINT"] = true
					case "Kill":
						out["SIGKILL"] = true
					}
				}
			}
		}
	}
	return out
}
