package pcv

import (
	"fmt"
	"go/token"
	"go/types"
	"sort"
	"strings"

	"golang.org/x/tools/go/ssa"
)

func init() {
	register(&PropCheck{
		ID: "C20",
		Explanation: "Concurrent API use, structural part: (1) must-lockset analysis of every post-construction access to the shared fields of the frozen guard table " +
			"(runner maps <-> their mutexes, project.Processes of the runner's project <-> procConfMutex, ProcessState fields <-> stateMtx/confMtx, Process.done/started <-> Process.Mutex, " +
			"ProcessLogBuffer.buffer/observers <-> mx; Health, Restarts, ReplicaName, exitCode have no designated guard and are judged by whether any common lock or once-guard protects them); " +
			"(2) channel close/send typestate: every channel that is closed in one function and sent to in another must be sent to inside a select with default or under a mutex with a closed-flag test, and closed under the same mutex; " +
			"(3) the lock-order graph over mutex fields is acyclic; (4) no operation that may block indefinitely is reachable while one of the short-section locks is held.",
		Assumptions: []string{
			"only the tabled fields are judged; races inside tui and third-party code, starvation and liveness are not decided",
			"ProjectRunner mutexes are identified by field (one runner per program); Process/ProcessLogBuffer locks require the same base value as the guarded access",
			"code reachable only from constructors (before the object is published) is exempt",
		},
		Run: runC20,
	})
}

// guardEntry is one row of the frozen guard table.
type guardEntry struct {
	name   string
	field  *types.Var // guarded field
	via    *types.Var // field the access path must pass through immediately before (nil = any)
	lock   *types.Var // designated mutex field (nil = none designated)
	strip  int        // number of trailing path elements to strip to reach the lock owner
	single bool       // lock owner is the singleton runner
	isMap  bool
	// condFlag: the field is the predicate of a sync.Cond wait loop; atomic operations on it count as accesses
	condFlag bool
}

func (s *Sel) guardTable() []guardEntry {
	p := s.p
	lb := func(n string) *types.Var { return p.Field("pclog", "ProcessLogBuffer", n) }
	var procMutex *types.Var
	for _, f := range StructFields(s.Process) {
		if f.Embedded() && f.Type().String() == "sync.Mutex" {
			procMutex = f
		}
	}
	if procMutex == nil {
		broken("ANCHOR-UNRESOLVED Process does not embed sync.Mutex")
	}
	sf := func(n string) *types.Var { return p.Field("types", "ProcessState", n) }
	t := []guardEntry{
		{name: "runningProcesses", field: s.FRunning, lock: s.FRunProcMutex, single: true, isMap: true},
		{name: "doneProcesses", field: s.FDoneProcs, lock: s.FDoneProcMutex, single: true, isMap: true},
		{name: "processStates", field: s.FStates, lock: s.FStatesMutex, single: true, isMap: true},
		{name: "processLogs", field: s.FLogs, lock: s.FLogsMutex, single: true, isMap: true},
		{name: "project.Processes", field: s.FProcesses, via: s.FProject, lock: s.FProcConfMutex, single: true, isMap: true},
		{name: "ProcessState.Status", field: s.FStatus, via: s.FProcState, lock: s.FStateMtx, strip: 2},
		{name: "ProcessState.Pid", field: s.FPid, via: s.FProcState, lock: s.FStateMtx, strip: 2},
		{name: "ProcessState.IsRunning", field: s.FIsRunning, via: s.FProcState, lock: s.FStateMtx, strip: 2},
		{name: "ProcessState.SystemTime", field: sf("SystemTime"), via: s.FProcState, lock: s.FStateMtx, strip: 2},
		{name: "ProcessState.Age", field: sf("Age"), via: s.FProcState, lock: s.FStateMtx, strip: 2},
		{name: "ProcessState.Mem", field: sf("Mem"), via: s.FProcState, lock: s.FStateMtx, strip: 2},
		{name: "ProcessState.CPU", field: sf("CPU"), via: s.FProcState, lock: s.FStateMtx, strip: 2},
		{name: "ProcessState.Name", field: sf("Name"), via: s.FProcState, lock: s.FStateMtx, strip: 2},
		{name: "ProcessState.ExitCode", field: s.FExitCode, via: s.FProcState, lock: s.FConfMtx, strip: 2},
		{name: "ProcessState.Health", field: s.FHealth, via: s.FProcState, lock: s.FStateMtx, strip: 2},
		{name: "ProcessState.Restarts", field: s.FRestarts, via: s.FProcState, lock: s.FStateMtx, strip: 2},
		{name: "Process.done", field: s.FDone, lock: procMutex, strip: 1, condFlag: true},
		{name: "Process.started", field: s.FStarted, lock: procMutex, strip: 1},
		{name: "ProcessLogBuffer.buffer", field: lb("buffer"), lock: lb("mx"), strip: 1},
		{name: "ProcessLogBuffer.observers", field: lb("observers"), lock: lb("mx"), strip: 1, isMap: true},
	}
	return t
}

// accessOf classifies an instruction as access to the guarded field and
// returns the kind ("r"/"w") and the address/value whose path identifies it.
func accessOf(in ssa.Instruction, g guardEntry) (kind string, pathVal ssa.Value, ok bool) {
	match := func(v ssa.Value) bool {
		ap := PathOf(v)
		if ap.LastField() != g.field {
			return false
		}
		if g.via != nil {
			if len(ap.Fields) < 2 || ap.Fields[len(ap.Fields)-2] != g.via {
				return false
			}
		}
		return true
	}
	// the predicate of a condition variable stays a guarded field when it is made an atomic: it must change
	// under the lock the waiter holds, otherwise the wake-up can be lost between the waiter's test and its Wait
	if g.condFlag {
		if op, _, isAt := AtomicOpOn(in, g.field); isAt {
			fa := in.(ssa.CallInstruction).Common().Args[0]
			if op == "Load" {
				return "r", fa, true
			}
			return "w", fa, true
		}
	}
	switch x := in.(type) {
	case *ssa.Store:
		if fa, isFa := x.Addr.(*ssa.FieldAddr); isFa && match(fa) {
			return "w", fa, true
		}
	case *ssa.UnOp:
		if x.Op == token.MUL {
			if fa, isFa := x.X.(*ssa.FieldAddr); isFa && match(fa) {
				if g.isMap {
					// the load of the map header itself; the uses decide r/w
					w := false
					for _, ref := range *x.Referrers() {
						switch r := ref.(type) {
						case *ssa.MapUpdate:
							if r.Map == ssa.Value(x) {
								w = true
							}
						case *ssa.Call:
							if b, isB := r.Call.Value.(*ssa.Builtin); isB && b.Name() == "delete" {
								w = true
							}
						}
					}
					if w {
						return "w", fa, true
					}
					return "r", fa, true
				}
				return "r", fa, true
			}
		}
	case *ssa.Field:
		if match(x) {
			return "r", x, true
		}
	}
	return "", nil, false
}

func runC20(c *Ctx) {
	p := c.P
	s := p.Selectors()
	ls := p.Locksets(s.Runner)
	table := s.guardTable()

	// constructors / init-phase functions
	ctors := []*ssa.Function{p.Func("app", "NewProjectRunner"), p.Func("app", "NewProcess"), p.Func("types", "NewProcessState"), p.Func("pclog", "NewLogBuffer")}
	initPhase := func(f *ssa.Function) bool {
		for _, ct := range ctors {
			if f == ct {
				return true
			}
		}
		return p.onlyReachedFrom(f, ctors, 0)
	}
	// functions of package types operating on a *Project: they are accesses of
	// the runner's project only when called with the runner's project
	project := p.Named("types", "Project")

	// ------------------------------------------------------------------ (1)
	rG := c.Rule("guarded-access", "every post-construction read or write of a field of the guard table happens with its designated mutex in the must-lockset (same owner object for per-instance locks)")
	type hit struct {
		key, pos, detail string
		ok               bool
		fn               *ssa.Function
		name, kind       string
	}
	var hits []hit
	seenKey := map[string]bool{}
	var curFn *ssa.Function
	var curName, curKind string
	record := func(key, pos string, ok bool, detail string) {
		if seenKey[key] {
			// keep the worst verdict per key
			for i := range hits {
				if hits[i].key == key && hits[i].ok && !ok {
					hits[i].ok = false
					hits[i].pos = pos
					hits[i].detail = detail
				}
			}
			return
		}
		seenKey[key] = true
		hits = append(hits, hit{key: key, pos: pos, detail: detail, ok: ok, fn: curFn, name: curName, kind: curKind})
	}
	for _, f := range p.Funcs {
		if initPhase(f) {
			continue
		}
		pk := pkgOfFunc(f)
		if pk == nil {
			continue
		}
		short := pk.Name()
		if short != "app" && short != "pclog" && short != "types" && short != "api" && short != "tui" && short != "cmd" {
			continue
		}
		AllInstrs(f, func(in ssa.Instruction) {
			for _, g := range table {
				kind, pv, ok := accessOf(in, g)
				if !ok {
					continue
				}
				ap := PathOf(pv)
				// fresh local objects are not shared yet
				if al, isAl := ap.Base.(*ssa.Alloc); isAl && al.Heap && len(ap.Fields) == 1 {
					continue
				}
				if short == "types" && recvIs(f, project) {
					// judged at the call sites in app (see below)
					continue
				}
				base := ""
				if !g.single {
					full := baseString(pv)
					parts := strings.Split(full, ".")
					if len(parts) > g.strip {
						base = strings.Join(parts[:len(parts)-g.strip], ".")
					} else {
						base = full
					}
				}
				held := g.lock != nil && ls.Holds(in, g.lock, base)
				if held && !g.single {
					// exact owner
					held = false
					for _, k := range ls.HeldAt(in) {
						if k.Field == g.lock && k.Base == base {
							held = true
						}
					}
				}
				c.Touch(f)
				key := fmt.Sprintf("%s@%s:%s", g.name, p.FuncKey(f), kind)
				curFn, curName, curKind = f, g.name, kind
				record(key, p.InstrPos(in), held, fmt.Sprintf("%s of %s without %s held", map[string]string{"r": "read", "w": "write"}[kind], g.name, g.lock.Name()))
				// a map header copied under the lock must also be used under it
				if u, isU := in.(*ssa.UnOp); isU && g.isMap && held {
					for _, ref := range *u.Referrers() {
						use := false
						switch r := ref.(type) {
						case *ssa.Range, *ssa.Lookup, *ssa.MapUpdate:
							use = true
						case *ssa.Call:
							if b, isB := r.Call.Value.(*ssa.Builtin); isB && (b.Name() == "delete" || b.Name() == "len") {
								use = true
							}
						}
						if !use {
							continue
						}
						heldUse := ls.Holds(ref, g.lock, base)
						if !heldUse {
							curFn, curKind = nil, ""
							record(fmt.Sprintf("%s@%s:use-outside-lock", g.name, p.FuncKey(f)), p.InstrPos(ref), false, fmt.Sprintf("%s is read into a local under %s but iterated/accessed after the lock was released (the local aliases the live map)", g.name, g.lock.Name()))
						}
					}
				}
			}
			// calls of *types.Project methods on the runner's project that touch Processes
			if call, ok := in.(*ssa.Call); ok {
				sc := call.Call.StaticCallee()
				if sc != nil && recvIs(sc, project) && sc.Parent() == nil && len(call.Call.Args) > 0 {
					rv := call.Call.Args[0]
					if PathOf(rv).LastField() == s.FProject && p.Deep(LoadOf("Processes", s.FProcesses)).May(sc) {
						held := ls.Holds(in, s.FProcConfMutex, "")
						key := fmt.Sprintf("project.Processes@%s:via-%s", p.FuncKey(f), sc.Name())
						curFn, curKind = nil, ""
						record(key, p.InstrPos(in), held, "the runner's project.Processes is read through "+p.FuncKey(sc)+" without procConfMutex held")
					}
				}
			}
		})
	}
	// An unlisted unguarded access in an unexported helper that is only called directly, and only from functions
	// for which the same access is already listed, is the listed finding after an "extract function" edit: it is
	// attributed to those callers. Anything else stays a new violation.
	staticCallers := func(f *ssa.Function) ([]*ssa.Function, bool) {
		var out []*ssa.Function
		exact := true
		for _, g := range p.Funcs {
			AllInstrs(g, func(in ssa.Instruction) {
				if ci, ok := in.(ssa.CallInstruction); ok {
					if ci.Common().StaticCallee() == f {
						if _, isCall := in.(*ssa.Call); isCall {
							out = appendUniq(out, g)
						} else {
							exact = false // go / defer: a different context
						}
					}
				}
				// the function used as a value
				for _, op := range in.Operands(nil) {
					if *op == ssa.Value(f) {
						if ci, ok := in.(ssa.CallInstruction); !ok || ci.Common().Value != ssa.Value(f) {
							exact = false
						}
					}
				}
			})
		}
		return out, exact
	}
	for i := range hits {
		h := &hits[i]
		if h.ok || h.fn == nil || h.kind == "" || c.IsKnown(rG, h.key) {
			continue
		}
		if h.fn.Parent() != nil || h.fn.Object() == nil || h.fn.Object().Exported() {
			continue
		}
		callers, exact := staticCallers(h.fn)
		if !exact || len(callers) == 0 {
			continue
		}
		all := true
		for _, g := range callers {
			if !c.IsKnown(rG, fmt.Sprintf("%s@%s:%s", h.name, p.FuncKey(g), h.kind)) {
				all = false
			}
		}
		if all {
			sort.Slice(callers, func(a, b int) bool { return p.FuncKey(callers[a]) < p.FuncKey(callers[b]) })
			h.detail += " (in helper " + p.FuncKey(h.fn) + ", called only from listed " + p.FuncKey(callers[0]) + ")"
			h.key = fmt.Sprintf("%s@%s:%s", h.name, p.FuncKey(callers[0]), h.kind)
		}
	}
	// A listed access whose function no longer exists under that name, together with exactly one unlisted access of
	// the same field and kind, is that function renamed: the listed key is kept. (If the listed function still
	// exists - e.g. it was repaired - nothing is paired and the new access is reported.)
	{
		allKeys := map[string]bool{}
		for _, f := range p.Funcs {
			allKeys[p.FuncKey(f)] = true
		}
		reported := map[string]bool{}
		for _, h := range hits {
			if !h.ok {
				reported[h.key] = true
			}
		}
		stale := map[string][]string{} // name:kind -> listed keys whose function is gone
		for _, k := range c.KnownConstructs(rG) {
			at := strings.Index(k, "@")
			col := strings.LastIndex(k, ":")
			if at < 0 || col < at || reported[k] {
				continue
			}
			fn := k[at+1 : col]
			if !allKeys[fn] {
				nk := k[:at] + ":" + k[col+1:]
				stale[nk] = append(stale[nk], k)
			}
		}
		fresh := map[string][]int{}
		for i, h := range hits {
			if !h.ok && h.kind != "" && h.fn != nil && !c.IsKnown(rG, h.key) {
				nk := h.name + ":" + h.kind
				fresh[nk] = append(fresh[nk], i)
			}
		}
		for nk, idx := range fresh {
			if len(idx) == 1 && len(stale[nk]) == 1 {
				h := &hits[idx[0]]
				h.detail += " (listed under the former name of " + p.FuncKey(h.fn) + ")"
				h.key = stale[nk][0]
			}
		}
	}
	sort.Slice(hits, func(i, j int) bool { return hits[i].key < hits[j].key })
	for _, h := range hits {
		c.Check(h.ok, rG, h.key, h.pos, "designated lock held", h.detail+" (concurrent API calls / life-cycle events race on it; for maps this is a fatal runtime error)")
	}
	c.Floor(rG, 40, "guarded access sites")

	// aliasing of the log buffer: range queries hand out sub-slices of the live buffer, which their callers read
	// after the buffer lock is released; that is safe only while the elements of the backing array are never
	// overwritten in place (appending and re-slicing leave existing elements alone)
	{
		rAl := c.Rule("log-buffer-append-only", "whenever a method of the log buffer returns a slice of the live buffer (not a copy), no instruction overwrites elements of the buffer's backing array: no copy() or clear() whose destination derives from the buffer field and no store through an index of it")
		fBuf := p.Field("pclog", "ProcessLogBuffer", "buffer")
		fromBuf := func(v ssa.Value) bool {
			for i := 0; i < 6; i++ {
				v = stripConv(v)
				if sl, ok := v.(*ssa.Slice); ok {
					v = sl.X
					continue
				}
				break
			}
			return PathOf(v).LastField() == fBuf
		}
		var leaks []*ssa.Function
		var writes []ssa.Instruction
		for _, f := range p.FuncsOfPkg("pclog") {
			for _, ret := range returnsOf(f) {
				for _, r := range ret.Results {
					if _, isSl := r.Type().Underlying().(*types.Slice); isSl && fromBuf(r) {
						leaks = appendUniq(leaks, f)
					}
					if ph, isPhi := r.(*ssa.Phi); isPhi {
						for _, e := range ph.Edges {
							if _, isSl := e.Type().Underlying().(*types.Slice); isSl && fromBuf(e) {
								leaks = appendUniq(leaks, f)
							}
						}
					}
				}
			}
			AllInstrs(f, func(in ssa.Instruction) {
				switch x := in.(type) {
				case *ssa.Call:
					if b, ok := x.Call.Value.(*ssa.Builtin); ok && (b.Name() == "copy" || b.Name() == "clear") && len(x.Call.Args) > 0 && fromBuf(x.Call.Args[0]) {
						writes = append(writes, in)
					}
					// append to a truncated view of the buffer (buffer[:k]) writes over the elements behind k
					if b, ok := x.Call.Value.(*ssa.Builtin); ok && b.Name() == "append" && len(x.Call.Args) > 0 {
						if sl, isSl := stripConv(x.Call.Args[0]).(*ssa.Slice); isSl && sl.High != nil && fromBuf(sl.X) {
							writes = append(writes, in)
						}
					}
				case *ssa.Store:
					if ia, ok := x.Addr.(*ssa.IndexAddr); ok && fromBuf(ia.X) {
						writes = append(writes, in)
					}
				}
			})
		}
		for _, f := range leaks {
			c.Touch(f)
		}
		if len(leaks) == 0 {
			c.OK(rAl, "no-alias-returned", "", "no method returns a slice of the live buffer")
		} else {
			pos := ""
			if len(writes) > 0 {
				pos = p.InstrPos(writes[0])
			}
			c.Check(len(writes) == 0, rAl, "in-place-writes", pos, fmt.Sprintf("%d method(s) return live sub-slices; the buffer is only appended to and re-sliced", len(leaks)), "elements of the log buffer are overwritten in place while "+p.FuncKey(leaks[0])+" hands out sub-slices of the same backing array that are read after the lock is released: a query in flight sees shifted or cleared lines, and a torn string header crashes the reader")
		}
	}

	s.checkWebsocketWrites(c, ls, "websocket-writes-serialised-per-connection")
	{
		rObs := c.Rule("observers-map-never-nil", "every store to the observer map of a log buffer stores a freshly made map")
		s.checkObserversNeverNil(c, rObs)
	}

	// pointer escape of the live state record
	rEsc := c.Rule("state-pointer-escape", "no exported ProjectRunner method returns a pointer to a live ProcessState record (callers read its fields without any lock)")
	for _, f := range p.FuncsOfPkg("app") {
		if !s.IsRunnerMethod(f) || f.Parent() != nil || f.Object() == nil || !f.Object().Exported() {
			continue
		}
		res := f.Signature.Results()
		for i := 0; i < res.Len(); i++ {
			if isPtrTo(res.At(i).Type(), s.ProcState) {
				// does it return the record itself (not a copy)?
				live := false
				for _, ret := range returnsOf(f) {
					srcs, _ := p.Sources(RetVals(ret)[i])
					for _, l := range srcs {
						switch x := l.(type) {
						case *ssa.Alloc:
							_ = x
						case *ssa.Const:
						default:
							live = true
						}
					}
				}
				c.Check(!live, rEsc, p.FuncKey(f), FirstPos(p, f), "returns a copy", "returns a pointer to the shared ProcessState record; REST handlers, the TUI and GetProcessesState read its fields without stateMtx while the process goroutine writes them")
			}
		}
	}

	// the launch happens inside the stateMtx critical section that publishes the running-class status
	{
		rL := c.Rule("launch-under-state-lock", "the call that launches the command is made with Process.stateMtx held by the function that stores the running-class status (a concurrent stop that sees Running therefore also sees the started command)")
		launch := p.Deep(s.LaunchSite)
		nL := 0
		for _, f := range p.FuncsOfPkg("app") {
			if len(DirectSites(f, StoreTo("Status", s.FStatus))) == 0 || f.Parent() != nil {
				continue
			}
			AllInstrs(f, func(in ssa.Instruction) {
				call, ok := in.(*ssa.Call)
				if !ok || !launch.MayAt(call) {
					return
				}
				nL++
				c.Check(ls.Holds(in, s.FStateMtx, ""), rL, p.FuncKey(f), p.InstrPos(in), "launch under stateMtx", "the command is launched after stateMtx was released")
			})
		}
		if nL == 0 {
			c.Bad(rL, "none", "", "no function both publishes the running-class status and launches the command: the status becomes visible before the command exists, and a stop arriving in between dereferences a nil/unstarted command (crash) or signals a stale pid")
		}
	}
	s.checkConsumerBeforeProducer(c, "consumer-before-subscription")

	// ------------------------------------------------------------------ (2)
	s.checkSendAfterClose(c, ls)
	s.checkLockPairing(c)

	// ------------------------------------------------------------------ (3)
	s.checkLockOrder(c, ls)

	// ------------------------------------------------------------------ (4)
	s.checkBlockingUnderLocks(c, ls, "no-blocking-under-short-locks")
}

// ---------------------------------------------------------------------------
// K12: close/send typestate

func (s *Sel) checkSendAfterClose(c *Ctx, ls *Locksets) {
	p := c.P
	rule := c.Rule("no-send-after-close", "for every channel that has a close site and a send site in different functions: each send is in a select with default, or is dominated inside one critical section of a mutex by a test of a closed-flag; and each close happens in a critical section of the same mutex that also sets the flag")
	type chanID struct {
		key string
	}
	idOf := func(v ssa.Value) string {
		ap := PathOf(v)
		if f := ap.LastField(); f != nil {
			return "field:" + f.Pkg().Name() + "." + f.Name() + "@" + fieldOwner(f)
		}
		// captured local variable / parameter
		switch b := ap.Base.(type) {
		case *ssa.FreeVar:
			return "local:" + p.FuncKey(b.Parent().Parent()) + ":" + b.Name()
		case *ssa.Alloc:
			return "local:" + p.FuncKey(b.Parent()) + ":" + b.Comment
		case *ssa.Parameter:
			// parameter: resolve to the arguments
			srcs, _ := p.Sources(b)
			for _, l := range srcs {
				if mk, ok := l.(*ssa.MakeChan); ok {
					return "make:" + p.InstrPos(mk)
				}
			}
			return "param:" + p.FuncKey(b.Parent()) + ":" + b.Name()
		case *ssa.MakeChan:
			return "make:" + p.InstrPos(b)
		}
		return ""
	}
	makeID := func(mk *ssa.MakeChan) string {
		n := 0
		idx := 0
		AllInstrs(mk.Parent(), func(in ssa.Instruction) {
			if m, ok := in.(*ssa.MakeChan); ok {
				n++
				if m == mk {
					idx = n
				}
			}
		})
		return fmt.Sprintf("chan#%d-of-%s", idx, p.FuncKey(mk.Parent()))
	}
	resolveMake := func(v ssa.Value) string {
		srcs, _ := p.Sources(v)
		for _, l := range srcs {
			if mk, ok := l.(*ssa.MakeChan); ok {
				return makeID(mk)
			}
		}
		return idOf(v)
	}
	type site struct {
		in ssa.Instruction
		f  *ssa.Function
	}
	closes := map[string][]site{}
	sends := map[string][]site{}
	for _, f := range p.Funcs {
		pk := pkgOfFunc(f)
		if pk == nil || (pk.Name() != "app" && pk.Name() != "pclog" && pk.Name() != "api") {
			continue
		}
		AllInstrs(f, func(in ssa.Instruction) {
			if cc, ok := IsBuiltinCall(in, "close"); ok {
				if id := resolveMake(cc.Args[0]); id != "" {
					closes[id] = append(closes[id], site{in, f})
				}
			}
			switch x := in.(type) {
			case *ssa.Send:
				if id := resolveMake(x.Chan); id != "" {
					sends[id] = append(sends[id], site{in, f})
				}
			case *ssa.Select:
				if !x.Blocking {
					return // select with default: never blocks, but a send on a closed channel still panics
				}
			}
		})
	}
	n := 0
	seenPair := map[string]bool{}
	pairPos := map[string]string{}
	pairDetail := map[string]string{}
	for _, id := range SortedKeys(closes) {
		snd := sends[id]
		if len(snd) == 0 {
			continue
		}
		for _, cl := range closes[id] {
			for _, sd := range snd {
				if cl.f == sd.f {
					continue
				}
				n++
				c.Touch(cl.f, sd.f)
				// common mutex held at both
				common := false
				for _, k1 := range ls.HeldAt(cl.in) {
					for _, k2 := range ls.HeldAt(sd.in) {
						if k1.Field == k2.Field && k1.Local == k2.Local {
							common = true
						}
					}
				}
				flagOK := false
				if common {
					// the send is dominated by a branch (flag test)
					flagOK = len(GuardsOf(sd.in)) > 0
				}
				// keyed by channel and sending function (closures by their enclosing function, without their index)
				top := sd.f
				for top.Parent() != nil {
					top = top.Parent()
				}
				sender := p.FuncKey(top)
				if top != sd.f {
					sender += "$closure"
				}
				key := fmt.Sprintf("%s:send@%s", id, sender)
				okPair := common && flagOK
				// an unlisted send in an unexported helper that is only called, directly, from functions listed for
				// the same channel is the listed finding after an "extract function" edit
				if !okPair && !c.IsKnown(rule, key) && top == sd.f && top.Object() != nil && !top.Object().Exported() {
					var callers []string
					exact := true
					for _, cr := range p.Callers(top) {
						if _, isCall := cr.Instr.(*ssa.Call); !isCall {
							exact = false
						}
						ct := cr.Caller
						for ct.Parent() != nil {
							ct = ct.Parent()
						}
						callers = append(callers, fmt.Sprintf("%s:send@%s", id, p.FuncKey(ct)))
					}
					all := exact && len(callers) > 0
					for _, ck := range callers {
						if !c.IsKnown(rule, ck) {
							all = false
						}
					}
					if all {
						sort.Strings(callers)
						key = callers[0]
					}
				}
				if prev, dup := seenPair[key]; dup && (!prev || okPair) {
					continue // keep the worst verdict per key
				}
				seenPair[key] = okPair
				pairPos[key] = p.InstrPos(sd.in)
				pairDetail[key] = "the channel is closed at " + p.InstrPos(cl.in) + " (" + p.FuncKey(cl.f) + ") and sent to here without a common mutex + closed-flag: a send on the closed channel panics (crashes the supervisor)"
			}
		}
	}
	for _, key := range SortedKeys(seenPair) {
		c.Check(seenPair[key], rule, key, pairPos[key], "send and close are serialised by a common mutex with a closed-flag test", pairDetail[key])
	}
	c.Floor(rule, 2, "close/send pairs")
}

func fieldOwner(f *types.Var) string {
	return f.Pkg().Name()
}

// ---------------------------------------------------------------------------
// K13: lock order

func (s *Sel) checkLockOrder(c *Ctx, ls *Locksets) {
	p := c.P
	rule := c.Rule("lock-order-acyclic", "the graph with an edge L1->L2 whenever mutex field L2 is acquired (directly or in a synchronously called function) while L1 is in the must-lockset has no cycle between distinct mutex fields")
	// locks acquired transitively per function
	acq := map[*ssa.Function]map[*types.Var]bool{}
	var compute func(f *ssa.Function, seen map[*ssa.Function]bool) map[*types.Var]bool
	compute = func(f *ssa.Function, seen map[*ssa.Function]bool) map[*types.Var]bool {
		if r, ok := acq[f]; ok {
			return r
		}
		if seen[f] || f.Blocks == nil {
			return nil
		}
		seen[f] = true
		out := map[*types.Var]bool{}
		AllInstrs(f, func(in ssa.Instruction) {
			call, ok := in.(*ssa.Call)
			if !ok {
				return
			}
			if k, a, ok := ls.lockOp(&call.Call); ok && a {
				out[k.Field] = true
				return
			}
			fns, _ := p.Callees(&call.Call, true)
			for _, fn := range fns {
				if p.InRepo(fn) {
					for l := range compute(fn, seen) {
						out[l] = true
					}
				}
			}
		})
		acq[f] = out
		return out
	}
	edges := map[*types.Var]map[*types.Var]string{}
	addEdge := func(a, b *types.Var, pos string) {
		if a == b || a == nil || b == nil {
			return
		}
		if edges[a] == nil {
			edges[a] = map[*types.Var]string{}
		}
		if _, ok := edges[a][b]; !ok {
			edges[a][b] = pos
		}
	}
	for _, f := range p.Funcs {
		AllInstrs(f, func(in ssa.Instruction) {
			call, ok := in.(*ssa.Call)
			if !ok {
				return
			}
			held := ls.HeldAt(in)
			if len(held) == 0 {
				return
			}
			if k, a, ok := ls.lockOp(&call.Call); ok {
				if a {
					for _, h := range held {
						addEdge(h.Field, k.Field, p.InstrPos(in))
					}
				}
				return
			}
			fns, _ := p.Callees(&call.Call, true)
			for _, fn := range fns {
				if !p.InRepo(fn) {
					continue
				}
				for l := range compute(fn, map[*ssa.Function]bool{}) {
					for _, h := range held {
						addEdge(h.Field, l, p.InstrPos(in))
					}
				}
			}
		})
	}
	// cycle detection
	var nodes []*types.Var
	for a := range edges {
		if a != nil {
			nodes = append(nodes, a)
		}
	}
	sort.Slice(nodes, func(i, j int) bool { return nodes[i].Name() < nodes[j].Name() })
	nEdges := 0
	var edgeList []string
	for _, a := range nodes {
		for b, pos := range edges[a] {
			nEdges++
			edgeList = append(edgeList, a.Name()+"->"+b.Name()+"@"+pos)
		}
	}
	sort.Strings(edgeList)
	c.Note("lock-order edges: %s", strings.Join(edgeList, ", "))
	color := map[*types.Var]int{}
	var cyc []string
	var dfs func(a *types.Var, path []string)
	dfs = func(a *types.Var, path []string) {
		color[a] = 1
		var succ []*types.Var
		for b := range edges[a] {
			succ = append(succ, b)
		}
		sort.Slice(succ, func(i, j int) bool { return succ[i].Name() < succ[j].Name() })
		for _, b := range succ {
			if color[b] == 1 {
				cyc = append(cyc, strings.Join(append(path, a.Name(), b.Name()), " -> "))
			} else if color[b] == 0 {
				dfs(b, append(path, a.Name()))
			}
		}
		color[a] = 2
	}
	for _, a := range nodes {
		if color[a] == 0 {
			dfs(a, nil)
		}
	}
	c.Evaluations += nEdges
	if len(cyc) == 0 {
		c.OK(rule, "graph", "", fmt.Sprintf("%d edges over %d mutex fields, no cycle", nEdges, len(nodes)))
	} else {
		for _, cy := range cyc {
			c.Bad(rule, "cycle:"+cy, "", "lock-order cycle (potential deadlock): "+cy)
		}
	}
}

// ---------------------------------------------------------------------------
// K9: may-block under short locks

// blockingSite: operations that may block indefinitely.
func (s *Sel) blockingSite() Site {
	p := s.p
	wgWait := wgMethod(p, "Wait")
	condWait := p.ExtFunc("sync", "Cond", "Wait")
	return Site{Name: "may-block", Instr: func(in ssa.Instruction) bool {
		switch x := in.(type) {
		case *ssa.Send:
			return true
		case *ssa.UnOp:
			if x.Op == token.ARROW {
				// a receive from time.After / ctx with deadline is bounded; a plain channel receive is not
				if call, ok := x.X.(*ssa.Call); ok {
					if o := CalleeObj(&call.Call); o != nil && o.Pkg() != nil && o.Pkg().Path() == "time" {
						return false
					}
				}
				return true
			}
		case *ssa.Select:
			if !x.Blocking {
				return false
			}
			for _, st := range x.States {
				if call, ok := st.Chan.(*ssa.Call); ok {
					if o := CalleeObj(&call.Call); o != nil && o.Pkg() != nil && o.Pkg().Path() == "time" && o.Name() == "After" {
						return false
					}
				}
			}
			return true
		}
		return false
	}, Call: func(cc *ssa.CallCommon) bool {
		o := CalleeObj(cc)
		if sameFunc(o, wgWait) || sameFunc(o, condWait) {
			return true
		}
		if o != nil && o.Pkg() != nil && o.Pkg().Path() == "github.com/gorilla/websocket" && (o.Name() == "WriteJSON" || o.Name() == "WriteMessage" || o.Name() == "ReadMessage" || o.Name() == "ReadJSON") {
			return true
		}
		return false
	}}
}

func (s *Sel) shortLocks() map[*types.Var]bool {
	p := s.p
	return map[*types.Var]bool{
		s.FStatesMutex: true, s.FLogsMutex: true, s.FProcConfMutex: true, s.FDoneProcMutex: true,
		p.Field("pclog", "ProcessLogBuffer", "mx"): true, s.FStateMtx: true, s.FConfMtx: true,
	}
}

func (s *Sel) checkBlockingUnderLocks(c *Ctx, ls *Locksets, ruleID string) {
	s.checkBlockingUnderLocksFiltered(c, ls, ruleID, s.shortLocks())
}

func (s *Sel) checkBlockingUnderLocksFiltered(c *Ctx, ls *Locksets, ruleID string, short map[*types.Var]bool) {
	p := c.P
	rule := c.Rule(ruleID, "while statesMutex, logsMutex, procConfMutex, doneProcMutex, ProcessLogBuffer.mx, Process.stateMtx or Process.confMtx is held, no channel send/receive without default or timer, WaitGroup.Wait, Cond.Wait or websocket I/O is reachable (through static calls, interface calls resolved by CHA and function values resolved by provenance)")
	block := p.Deep(s.blockingSite())
	found := map[string]bool{}
	for _, f := range p.Funcs {
		AllInstrs(f, func(in ssa.Instruction) {
			held := ls.HeldAt(in)
			var hs []string
			for _, h := range held {
				if h.Field != nil && short[h.Field] {
					hs = append(hs, p.CanonName(h.Field))
				}
			}
			if len(hs) == 0 {
				return
			}
			if _, isDefer := in.(*ssa.Defer); isDefer {
				return
			}
			if _, isRun := in.(*ssa.RunDefers); isRun {
				return
			}
			if !block.MayAt(in) {
				return
			}
			// name the blocking operation reached
			what := describeBlocking(p, in, block)
			key := fmt.Sprintf("%s@%s:%s", strings.Join(hs, "+"), p.FuncKey(f), what)
			if found[key] {
				return
			}
			found[key] = true
			c.Touch(f)
			c.Bad(rule, key, p.InstrPos(in), "while "+strings.Join(hs, ",")+" is held a possibly indefinitely blocking operation is reachable: "+what+" (a stalled follower holds up the writer, i.e. the process's output handling, and every other API call needing that lock)")
		})
	}
	if len(found) == 0 {
		c.OK(rule, "all-sites", "", "no blocking operation reachable under a short-section lock")
	}
}

// describeBlocking names the first blocking operation reachable from in.
func describeBlocking(p *Prog, in ssa.Instruction, block *Deep) string {
	if block.site.matchDirect(in, false) {
		return "direct " + strings.SplitN(in.String(), " ", 2)[0] + " in " + p.FuncKey(in.Parent())
	}
	seen := map[*ssa.Function]bool{}
	var find func(f *ssa.Function, d int) string
	find = func(f *ssa.Function, d int) string {
		if f == nil || seen[f] || f.Blocks == nil || d > 8 {
			return ""
		}
		seen[f] = true
		res := ""
		for _, b := range f.Blocks {
			for _, x := range b.Instrs {
				if block.site.matchDirect(x, false) {
					return "blocking operation in " + p.FuncKey(f)
				}
			}
		}
		AllInstrs(f, func(x ssa.Instruction) {
			if res != "" {
				return
			}
			if cc := CallCommonOf(x); cc != nil {
				if _, isGo := x.(*ssa.Go); isGo {
					return
				}
				fns, _ := p.Callees(cc, true)
				for _, fn := range fns {
					if block.May(fn) {
						if r := find(fn, d+1); r != "" {
							res = r
							return
						}
					}
				}
			}
		})
		return res
	}
	if cc := CallCommonOf(in); cc != nil {
		fns, _ := p.Callees(cc, true)
		for _, fn := range fns {
			if r := find(fn, 0); r != "" {
				return r
			}
		}
	}
	return "blocking operation in a callee"
}

// ---------------------------------------------------------------------------
// lock pairing: every acquisition is released on all exits, every release has its acquisition

type mutexOp struct {
	in     ssa.Instruction
	kind   string // Lock, Unlock, RLock, RUnlock
	id     string // field + owner path, or local identity
	defer_ bool
}

func mutexOpOf(in ssa.Instruction) (mutexOp, bool) {
	ci, ok := in.(ssa.CallInstruction)
	if !ok {
		return mutexOp{}, false
	}
	if _, isGo := in.(*ssa.Go); isGo {
		return mutexOp{}, false
	}
	cc := ci.Common()
	o := CalleeObj(cc)
	if o == nil || o.Pkg() == nil || o.Pkg().Path() != "sync" || len(cc.Args) == 0 || cc.IsInvoke() {
		return mutexOp{}, false
	}
	switch o.Name() {
	case "Lock", "Unlock", "RLock", "RUnlock":
	default:
		return mutexOp{}, false
	}
	recv := o.Type().(*types.Signature).Recv()
	if recv == nil {
		return mutexOp{}, false
	}
	rt := recv.Type().String()
	if rt != "*sync.Mutex" && rt != "*sync.RWMutex" {
		return mutexOp{}, false
	}
	id := baseString(cc.Args[0])
	if id == "" {
		id = cc.Args[0].Name()
	}
	_, isDefer := in.(*ssa.Defer)
	return mutexOp{in: in, kind: o.Name(), id: id, defer_: isDefer}, true
}

func (s *Sel) checkLockPairing(c *Ctx) {
	p := c.P
	rule := c.Rule("lock-pairing", "in every function of app, pclog, api and types: from each Lock/RLock every path to a return passes the matching Unlock/RUnlock of the same mutex (directly, or a defer of it is registered), and each Unlock (or deferred Unlock) is preceded by - or, for a defer registered first, followed before the return by - the matching Lock on every path (a leaked lock blocks every later caller for ever; unlocking an unlocked mutex is a fatal runtime error)")
	n := 0
	for _, f := range p.Funcs {
		pk := pkgOfFunc(f)
		if pk == nil {
			continue
		}
		switch pk.Name() {
		case "app", "pclog", "api", "types", "health", "command":
		default:
			continue
		}
		var ops []mutexOp
		AllInstrs(f, func(in ssa.Instruction) {
			if op, ok := mutexOpOf(in); ok {
				ops = append(ops, op)
			}
		})
		if len(ops) == 0 {
			continue
		}
		pair := map[string]string{"Lock": "Unlock", "RLock": "RUnlock"}
		for _, op := range ops {
			un, isAcq := pair[op.kind]
			if isAcq && !op.defer_ {
				n++
				c.Touch(f)
				isRel := func(x ssa.Instruction) bool {
					o2, ok := mutexOpOf(x)
					return ok && o2.kind == un && o2.id == op.id
				}
				// a defer of the release registered before the acquisition covers every return
				deferredBefore := false
				for _, o2 := range ops {
					if o2.defer_ && o2.kind == un && o2.id == op.id && DominatesInstr(o2.in, op.in) {
						deferredBefore = true
					}
				}
				leak := false
				if !deferredBefore {
					for x := range Reach([]Pt{after(op.in)}, isRel, nil) {
						if _, isRet := x.(*ssa.Return); isRet {
							leak = true
						}
					}
				}
				c.Check(!leak, rule, fmt.Sprintf("release:%s:%s", p.FuncKey(f), op.id), p.InstrPos(op.in), "released on every path", "a path from this "+op.kind+" returns without the matching "+un+": the mutex stays locked and the next caller blocks for ever")
			}
			if op.kind == "Unlock" || op.kind == "RUnlock" {
				acq := "Lock"
				if op.kind == "RUnlock" {
					acq = "RLock"
				}
				isAcqI := func(x ssa.Instruction) bool {
					o2, ok := mutexOpOf(x)
					return ok && !o2.defer_ && o2.kind == acq && o2.id == op.id
				}
				n++
				bad := false
				if op.defer_ {
					// the acquisition precedes the defer, or follows it before any return
					pre := true
					for x := range Reach(Entry(f), isAcqI, nil) {
						if x == op.in {
							pre = false
						}
					}
					if !pre {
						for x := range Reach([]Pt{after(op.in)}, isAcqI, nil) {
							if _, isRet := x.(*ssa.Return); isRet {
								bad = true
							}
						}
					}
				} else {
					for x := range Reach(Entry(f), isAcqI, nil) {
						if x == op.in {
							bad = true
						}
					}
				}
				c.Check(!bad, rule, fmt.Sprintf("acquired:%s:%s", p.FuncKey(f), op.id), p.InstrPos(op.in), "the mutex is held when it is released", "this "+op.kind+" can be reached (or, deferred, can run at a return) without the matching "+acq+": unlocking an unlocked mutex is a fatal runtime error that no recover catches - the supervisor crashes")
			}
		}
	}
	c.Floor(rule, 60, "lock/unlock sites")
}

// checkWebsocketWrites (C19, C20): one writer at a time per websocket connection (gorilla/websocket: concurrent
// writers corrupt frames or panic outside gin's recovery - the server stops serving).
func (s *Sel) checkWebsocketWrites(c *Ctx, ls *Locksets, ruleID string) {
	p := c.P
	rWs := c.Rule(ruleID, "every write to a websocket connection (WriteJSON / WriteMessage) is made with a mutex held, and that mutex is shared by all goroutines writing to the same connection: it is a field of the API object, or it is created where the connection is (not once per goroutine started in a loop over one connection)")
	isWsWrite := func(in ssa.Instruction) bool {
		call, ok := in.(*ssa.Call)
		if !ok {
			return false
		}
		o := CalleeObj(&call.Call)
		return o != nil && o.Pkg() != nil && o.Pkg().Path() == "github.com/gorilla/websocket" && (o.Name() == "WriteJSON" || o.Name() == "WriteMessage")
	}
	n := 0
	for _, f := range p.FuncsOfPkg("api") {
		for _, w := range FindInstrs(f, isWsWrite) {
			n++
			c.Touch(f)
			held := ls.HeldAt(w)
			if !c.Check(len(held) > 0, rWs, "locked:"+p.FuncKey(f), p.InstrPos(w), "a mutex is held at the write", "a websocket write is made without any mutex held: two log streams of one connection write concurrently") {
				continue
			}
			// a mutex that is a parameter of the writing function: compare, at the go statements that start the
			// writer, where the mutex and where the connection come from
			okShare := true
			AllInstrs(f, func(x ssa.Instruction) {
				lc, isC := x.(*ssa.Call)
				if !isC {
					return
				}
				o := CalleeObj(&lc.Call)
				if o == nil || o.Name() != "Lock" || o.Pkg() == nil || o.Pkg().Path() != "sync" || len(lc.Call.Args) == 0 {
					return
				}
				prm, isPrm := lc.Call.Args[0].(*ssa.Parameter)
				if !isPrm {
					return
				}
				mi := -1
				for i, q := range f.Params {
					if q == prm {
						mi = i
					}
				}
				ci := -1
				wc := w.(*ssa.Call)
				for i, q := range f.Params {
					if len(wc.Call.Args) > 0 && ssa.Value(q) == wc.Call.Args[0] {
						ci = i
					}
				}
				if mi < 0 || ci < 0 {
					return
				}
				for _, cr := range p.Callers(f) {
					g, isGo := cr.Instr.(*ssa.Go)
					if !isGo {
						continue
					}
					lp := InnermostLoopOf(g)
					if lp == nil {
						continue
					}
					inLoop := func(v ssa.Value) bool {
						if in2, ok := v.(ssa.Instruction); ok {
							return lp.Blocks[in2.Block()]
						}
						return false
					}
					args := g.Call.Args
					if mi < len(args) && ci < len(args) && inLoop(args[mi]) && !inLoop(args[ci]) {
						okShare = false
					}
				}
			})
			c.Check(okShare, rWs, "shared:"+p.FuncKey(f), p.InstrPos(w), "the mutex is shared by all writers of the connection", "the mutex held at the websocket write is created once per writer goroutine while the connection is shared by all writers started in that loop: a request naming several processes makes the writers write concurrently - corrupted frames, an abnormal close and a send on a closed channel in the process's output goroutine (the supervisor crashes)")
		}
	}
	c.Check(n >= 1, rWs, "floor:websocket-writes", "", "websocket write sites found", "no websocket write site found in the api package")
}
