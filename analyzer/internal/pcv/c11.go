package pcv

import (
	"go/token"
	"go/types"

	"golang.org/x/tools/go/ssa"
)

func init() {
	register(&PropCheck{
		ID: "C11",
		Explanation: "Output capture, structural part: (1) between the launch and command.Wait() the run loop waits for both stream readers, each reader closes its done channel on every exit, and the channel handed to a reader is the one the run loop waits on; " +
			"(2) on every path from a ReadString return to the end of the iteration the bytes returned are handed to the line handler unless they were tested empty (library model: ReadString returns the bytes read together with the error); " +
			"(3) the handler is invoked at most once per line, and each of the two handlers writes the line exactly once to the file logger and exactly once to the in-memory buffer; " +
			"(4) no length-bounded reader (bufio.Scanner, ReadLine) is used in the output path; (5) PCLog.Close closes the channel, waits for the collector, flushes and closes the file in this order; the terminal function closes the per-process logger and Run defers closing the project logger.",
		Assumptions: []string{"byte-exact content, interleaving of the two streams and the daemon time-out path are not decided"},
		Run:         runC11,
	})
}

func runC11(c *Ctx) {
	p := c.P
	s := p.Selectors()
	s.checkAddedProcessHasLog(c, "added-process-has-log")
	requireN("RunEntry", s.RunEntries, 1, 1)
	run := s.RunEntries[0]

	// the reader: function started by `go` in the starter closure with a chan parameter
	var readers []*ssa.Function
	type goSite struct {
		g  *ssa.Go
		fn *ssa.Function
	}
	var goSites []goSite
	if s.Starter != nil {
		AllInstrs(s.Starter, func(in ssa.Instruction) {
			if g, ok := in.(*ssa.Go); ok {
				fns, _ := p.Callees(&g.Call, false)
				for _, fn := range fns {
					readers = appendUniq(readers, fn)
					goSites = append(goSites, goSite{g, fn})
				}
			}
		})
	}
	readString := p.ExtFunc("bufio", "Reader", "ReadString")

	// ------------------------------------------------------------------ (1)
	r1 := c.Rule("drain-before-wait", "in the run loop a call of the drain function (which, for each of stdOutDone and stdErrDone that is non-nil, blocks until that channel is closed or its context expires) precedes command.Wait() on every path; every reader closes its done parameter on every path; the starter stores a fresh channel into stdOutDone/stdErrDone and passes that same channel to the reader before the launch")
	// a receive from the field, directly or in a helper that gets the field's channel as an argument and
	// receives from that parameter
	isDoneRecv := func(fld *types.Var) Site {
		return Site{Name: "<-" + fld.Name(), Instr: func(in ssa.Instruction) bool {
			if IsRecvFrom(in, func(ch ssa.Value) bool { return PathOf(ch).LastField() == fld }) {
				return true
			}
			ci, ok := in.(ssa.CallInstruction)
			if !ok {
				return false
			}
			if _, isGo := in.(*ssa.Go); isGo {
				return false
			}
			callee := ci.Common().StaticCallee()
			if callee == nil || len(callee.Blocks) == 0 {
				return false
			}
			for i, a := range ci.Common().Args {
				if PathOf(a).LastField() != fld || i >= len(callee.Params) {
					continue
				}
				prm := callee.Params[i]
				found := false
				AllInstrs(callee, func(x ssa.Instruction) {
					if IsRecvFrom(x, func(ch ssa.Value) bool { return ch == ssa.Value(prm) }) {
						found = true
					}
				})
				if found {
					return true
				}
			}
			return false
		}}
	}
	var drains []*ssa.Function
	for _, f := range p.FuncsOfPkg("app") {
		if s.IsProcessMethod(f) && f.Parent() == nil && len(DirectSites(f, isDoneRecv(s.FStdOutDone))) > 0 && len(DirectSites(f, isDoneRecv(s.FStdErrDone))) > 0 {
			drains = append(drains, f)
		}
	}
	if !c.Check(len(drains) >= 1, r1, "drain-fn", "", "drain function found", "no function waits for both stdOutDone and stdErrDone") {
		return
	}
	waitSite := MethodOnField("command.Wait", s.FCommand, s.MWait)
	waits := DirectSites(run, waitSite)
	rr := MustPrecede(run, p.Deep(CallOfFn("drain", drains...)), func(in ssa.Instruction) bool { return isOneOf(in, waits) }, nil)
	c.PathCheck(rr, r1, "run:drain-before-wait", FirstPos(p, run), "the drain precedes command.Wait()", "command.Wait() can be reached without waiting for the output readers: exec closes the pipes in Wait, so output written right before exit is lost")
	c.Check(len(waits) >= 1, r1, "run:wait-present", FirstPos(p, run), "command.Wait() present", "the run loop never waits for the command")
	for _, d := range drains {
		c.Touch(d)
		for _, fld := range []*types.Var{s.FStdOutDone, s.FStdErrDone} {
			// on the non-nil edge the receive follows
			ok := false
			for _, b := range d.Blocks {
				ifi := IfOf(b)
				if ifi == nil {
					continue
				}
				cmp, okc := CondCmp(ifi.Cond)
				if !okc || (cmp.Op != token.NEQ && cmp.Op != token.EQL) {
					continue
				}
				var isFld bool
				if PathOf(cmp.X).LastField() == fld && IsNilConst(cmp.Y) || PathOf(cmp.Y).LastField() == fld && IsNilConst(cmp.X) {
					isFld = true
				}
				if !isFld {
					continue
				}
				succ := 0
				if cmp.Op == token.EQL {
					succ = 1
				}
				res := MustFollow([]Pt{{b.Succs[succ], 0}}, p.Deep(isDoneRecv(fld)), nil)
				ok = res.OK
			}
			c.Check(ok, r1, p.FuncKey(d)+":waits:"+fld.Name(), FirstPos(p, d), "blocks on the channel when it is set", "the drain function does not block on "+fld.Name()+" on every path on which it is set")
		}
	}
	for _, rd := range readers {
		c.Touch(rd)
		var doneParam *ssa.Parameter
		for _, prm := range rd.Params {
			if _, ok := prm.Type().Underlying().(*types.Chan); ok {
				doneParam = prm
			}
		}
		if !c.Check(doneParam != nil, r1, p.FuncKey(rd)+":done-param", FirstPos(p, rd), "reader has a done channel", "a stream reader has no done channel") {
			continue
		}
		closeDone := p.Deep(Site{Name: "close(done)", Call: func(cc *ssa.CallCommon) bool {
			b, ok := cc.Value.(*ssa.Builtin)
			return ok && b.Name() == "close" && len(cc.Args) == 1 && cc.Args[0] == ssa.Value(doneParam)
		}})
		c.Check(closeDone.Always(rd), r1, p.FuncKey(rd)+":closes-done", FirstPos(p, rd), "done closed on every exit", "a path of the stream reader returns without closing its done channel: the run loop waits forever (or, for daemons, until the launch timeout)")
	}
	for _, gs := range goSites {
		// the chan argument is a value that was stored into stdOutDone / stdErrDone before
		var chArg ssa.Value
		for _, a := range gs.g.Call.Args {
			if _, ok := a.Type().Underlying().(*types.Chan); ok {
				chArg = a
			}
		}
		ok := false
		if chArg != nil {
			for _, fld := range []*types.Var{s.FStdOutDone, s.FStdErrDone} {
				if PathOf(chArg).LastField() == fld {
					// a store of a fresh channel to that field dominates the go statement
					for _, st := range DirectSites(s.Starter, StoreTo("w", fld)) {
						v, _ := StoredValue(st, fld)
						if _, isMk := v.(*ssa.MakeChan); isMk && DominatesInstr(st, gs.g) {
							ok = true
						}
					}
				}
			}
		}
		c.Check(ok, r1, "starter:reader-channel", p.InstrPos(gs.g), "the reader gets the freshly stored done channel", "the channel handed to a stream reader is not the fresh channel stored in stdOutDone/stdErrDone (the drain would wait on a different channel)")
	}
	c.Floor(r1, 8, "drain obligations")

	// ------------------------------------------------------------------ (2) (3)
	r2 := c.Rule("partial-line-delivered", "in every stream reader, on each path from a ReadString return to the next read or to the exit of the reader, the returned string is passed (possibly through strings.TrimSuffix) to the handler parameter, unless the path goes through the edge on which the string was found empty")
	r3 := c.Rule("once-per-line", "after the handler was invoked with a line no second handler invocation is reachable before the next read; each handler writes the message once to the file logger (Info/Error) and once to the in-memory buffer on every path")
	for _, rd := range readers {
		var handlerParam *ssa.Parameter
		for _, prm := range rd.Params {
			if sig, ok := prm.Type().Underlying().(*types.Signature); ok && sig.Params().Len() == 1 {
				handlerParam = prm
			}
		}
		reads := FindInstrs(rd, func(in ssa.Instruction) bool {
			call, ok := in.(*ssa.Call)
			return ok && sameFunc(CalleeObj(&call.Call), readString)
		})
		if !c.Check(handlerParam != nil && len(reads) > 0, r2, p.FuncKey(rd)+":shape", FirstPos(p, rd), "reader reads lines and has a handler", "the stream reader does not read with ReadString or has no handler") {
			continue
		}
		for _, rdc := range reads {
			call := rdc.(*ssa.Call)
			derives := func(v ssa.Value) bool { return derivesFromExtract(v, call, 0, 0) }
			isHandler := func(in ssa.Instruction) bool {
				hc, ok := in.(*ssa.Call)
				if !ok || hc.Call.Value != ssa.Value(handlerParam) {
					return false
				}
				return len(hc.Call.Args) == 1 && derives(hc.Call.Args[0])
			}
			// edges on which the line is known to be empty
			emptyEdge := func(from *ssa.BasicBlock, succ int) bool {
				ifi := IfOf(from)
				if ifi == nil {
					return true
				}
				cmp, ok := CondCmp(ifi.Cond)
				if !ok {
					return true
				}
				// len(line) > 0 / len(line) == 0 / line != ""
				isLen := func(v ssa.Value) bool {
					lc, ok := stripConv(v).(*ssa.Call)
					if !ok {
						return false
					}
					b, isB := lc.Call.Value.(*ssa.Builtin)
					return isB && b.Name() == "len" && derives(lc.Call.Args[0])
				}
				var emptyOnTrue, known bool
				switch {
				case isLen(cmp.X):
					if z, okz := ConstInt(cmp.Y); okz && z == 0 {
						known = true
						emptyOnTrue = cmp.Op == token.EQL || cmp.Op == token.LEQ
						if cmp.Op == token.LSS || cmp.Op == token.GEQ {
							known = false
						}
					}
				case derives(cmp.X):
					if sv, oks := ConstString(cmp.Y); oks && sv == "" {
						known = true
						emptyOnTrue = cmp.Op == token.EQL
					}
				}
				if !known {
					return true
				}
				isEmptyEdge := emptyOnTrue == (succ == 0)
				return !isEmptyEdge // block the empty edge: nothing to deliver there
			}
			vis := Reach([]Pt{after(call)}, isHandler, emptyEdge)
			var bad ssa.Instruction
			for in := range vis {
				if isHandler(in) {
					continue
				}
				if in != ssa.Instruction(call) && isOneOf(in, reads) {
					bad = in
				}
				if _, isRet := in.(*ssa.Return); isRet {
					bad = in
				}
				if _, isClose := IsBuiltinCall(in, "close"); isClose {
					bad = in
				}
			}
			if bad == nil {
				c.OK(r2, p.FuncKey(rd), p.InstrPos(call), "the bytes returned by ReadString always reach the handler")
			} else {
				c.Bad(r2, p.FuncKey(rd), p.InstrPos(bad), "a path from ReadString to "+p.InstrPos(bad)+" drops the returned bytes without delivering them: a final line without trailing newline (returned together with io.EOF) is lost")
			}
			// once per line
			for _, h := range FindInstrs(rd, isHandler) {
				vis := Reach([]Pt{after(h)}, func(in ssa.Instruction) bool { return isOneOf(in, reads) }, nil)
				twice := false
				for in := range vis {
					if isHandler(in) {
						twice = true
					}
				}
				c.Check(!twice, r3, p.FuncKey(rd)+":handler-once", p.InstrPos(h), "at most one handler invocation per read", "the handler can be invoked twice for one line (duplicate log line)")
			}
		}
	}
	// the handlers
	var handlers []*ssa.Function
	for _, gs := range goSites {
		for _, a := range gs.g.Call.Args {
			if _, ok := a.Type().Underlying().(*types.Signature); ok {
				fns, _ := p.FuncValues(a)
				for _, fn := range fns {
					handlers = appendUniq(handlers, p.unwrap(fn))
				}
			}
		}
	}
	logInfo, logErr := p.IfaceMethod("pclog", "PcLogger", "Info"), p.IfaceMethod("pclog", "PcLogger", "Error")
	bufWrite := p.TryMethod("pclog", "ProcessLogBuffer", "Write")
	for _, h := range handlers {
		c.Touch(h)
		fileSite := MethodOnField("logger.Info|Error", s.FLogger, logInfo, logErr)
		bufSite := Site{Name: "logBuffer.Write", Call: func(cc *ssa.CallCommon) bool {
			return cc.StaticCallee() == bufWrite && len(cc.Args) > 0 && PathOf(cc.Args[0]).LastField() == s.FLogBuffer
		}}
		for _, st := range []Site{fileSite, bufSite} {
			d := p.Deep(st)
			ok := d.Always(h)
			// not twice
			for _, in := range DirectSites(h, st) {
				vis := Reach([]Pt{after(in)}, nil, nil)
				for x := range vis {
					if st.matchDirect(x, true) {
						ok = false
					}
				}
			}
			c.Check(ok, r3, p.FuncKey(h)+":"+st.Name, FirstPos(p, h), "written exactly once on every path", "the handler does not write the line exactly once to "+st.Name)
		}
		// the message written is the handler's parameter
		okArg := true
		for _, in := range DirectSites(h, bufSite) {
			args := ArgsOf(CallCommonOf(in))
			if len(args) != 1 || len(h.Params) < 2 || args[0] != ssa.Value(h.Params[1]) {
				okArg = false
			}
		}
		c.Check(okArg, r3, p.FuncKey(h)+":message", FirstPos(p, h), "the buffer receives the handler's message unchanged", "the in-memory log does not receive the line unchanged")
	}
	c.Floor(r3, 6, "handler obligations")

	s.checkTrimKeepsNewest(c, "trim-keeps-newest")

	// ------------------------------------------------------------------ (4)
	r4 := c.Rule("no-bounded-reader", "the stream readers use no bufio.Scanner and no ReadLine (both truncate or fail on very long lines)")
	for _, rd := range readers {
		bad := false
		AllInstrs(rd, func(in ssa.Instruction) {
			if cc := CallCommonOf(in); cc != nil {
				if o := CalleeObj(cc); o != nil && o.Pkg() != nil && o.Pkg().Path() == "bufio" {
					switch o.Name() {
					case "NewScanner", "Scan", "ReadLine":
						bad = true
					}
				}
			}
		})
		c.Check(!bad, r4, p.FuncKey(rd), FirstPos(p, rd), "no length-bounded reader", "the stream reader uses a length-bounded reader (bufio.Scanner / ReadLine): very long lines are truncated or stop the capture")
	}

	// ------------------------------------------------------------------ (5)
	r5 := c.Rule("logger-close-order", "PCLog.Close performs close(logEventChan) -> WaitGroup.Wait -> writer.Flush -> file.Close in this order; the terminal function reaches PcLogger.Close; the joining function defers Close of the project logger it opened")
	pclogT := p.Named("pclog", "PCLog")
	closeFn := p.TryMethod("pclog", "PCLog", "Close")
	if closeFn == nil {
		c.Bad(r5, "close-fn", "", "PCLog.Close not found")
	} else {
		// the steps are performed by Close itself or by the function it hands to sync.Once.Do
		var body *ssa.Function = closeFn
		onceDo := p.ExtFunc("sync", "Once", "Do")
		AllInstrs(closeFn, func(in ssa.Instruction) {
			if call, ok := in.(*ssa.Call); ok && sameFunc(CalleeObj(&call.Call), onceDo) && len(call.Call.Args) == 2 {
				if fns, _ := p.FuncValues(call.Call.Args[1]); len(fns) == 1 {
					if u := p.unwrap(fns[0]); u != nil && len(u.Blocks) > 0 {
						body = u
					}
				}
			}
		})
		c.Touch(body)
		fChan := p.Field("pclog", "PCLog", "logEventChan")
		fWriter := p.Field("pclog", "PCLog", "writer")
		fFile := p.Field("pclog", "PCLog", "file")
		fWg := p.Field("pclog", "PCLog", "wg")
		steps := []Site{
			CloseOf("close(logEventChan)", fChan),
			MethodOnField("wg.Wait", fWg, wgMethod(p, "Wait")),
			MethodOnField("writer.Flush", fWriter, p.ExtFunc("bufio", "Writer", "Flush")),
			Site{Name: "file.Close", Call: func(cc *ssa.CallCommon) bool {
				return cc.IsInvoke() && cc.Method.Name() == "Close" && PathOf(cc.Value).LastField() == fFile
			}},
		}
		for i := 0; i+1 < len(steps); i++ {
			later := DirectSites(body, steps[i+1])
			r := MustPrecede(body, p.Deep(steps[i]), func(in ssa.Instruction) bool { return isOneOf(in, later) }, nil)
			c.Check(r.OK && len(later) > 0, r5, "order:"+steps[i].Name+"<"+steps[i+1].Name, FirstPos(p, body), "ordered", steps[i].Name+" does not precede "+steps[i+1].Name+" in PCLog.Close (events still queued when the file is flushed/closed are lost)")
		}
		_ = pclogT
		// the collector drains until the channel is closed
		// the collector: the function that consumes the event channel
		var coll *ssa.Function
		for _, f := range p.FuncsOfPkg("pclog") {
			AllInstrs(f, func(in ssa.Instruction) {
				switch x := in.(type) {
				case *ssa.Range:
					if PathOf(x.X).LastField() == fChan {
						coll = f
					}
				case *ssa.UnOp:
					if x.Op == token.ARROW && PathOf(x.X).LastField() == fChan {
						coll = f
					}
				}
			})
		}
		if c.Check(coll != nil, r5, "collector-found", "", "collector found", "no function consumes the log event channel") {
			c.Check(p.Deep(MethodOnField("wg.Done", fWg, wgMethod(p, "Done"))).Always(coll), r5, "collector-done", FirstPos(p, coll), "the collector signals completion", "the collector does not signal the WaitGroup on every exit")
		}
	}
	loggerClose := p.IfaceMethod("pclog", "PcLogger", "Close")
	for _, t := range s.Terminals {
		c.Check(p.Deep(MethodOnField("logger.Close", s.FLogger, loggerClose)).May(t), r5, "terminal-closes-logger", FirstPos(p, t), "the terminal function closes the per-process logger", "the terminal function does not close the per-process log file (its tail is never flushed)")
	}
	fRunnerLogger := p.Field("app", "ProjectRunner", "logger")
	for _, j := range p.FuncsWith(MethodOnField("waitGroup.Wait", s.FWaitGroup, wgMethod(p, "Wait"))) {
		if len(DirectSites(j, CallOfFn("Spawn", s.Spawns...))) == 0 {
			continue
		}
		hasDefer := false
		AllInstrs(j, func(in ssa.Instruction) {
			if d, ok := in.(*ssa.Defer); ok {
				if d.Call.IsInvoke() && d.Call.Method.Name() == "Close" && PathOf(d.Call.Value).LastField() == fRunnerLogger {
					hasDefer = true
				}
			}
		})
		c.Check(hasDefer, r5, "run-defers-logger-close", FirstPos(p, j), "Run defers closing the project logger", "Run() does not close (flush) the project log file when it returns")
	}
}

// derivesFromExtract: v is Extract #idx of call, possibly passed through
// string functions (TrimSuffix, TrimSpace, TrimRight) or conversions.
func derivesFromExtract(v ssa.Value, call *ssa.Call, idx int, depth int) bool {
	if depth > 4 {
		return false
	}
	v = stripConv(v)
	if ex, ok := v.(*ssa.Extract); ok {
		return ex.Tuple == ssa.Value(call) && ex.Index == idx
	}
	if cc, ok := v.(*ssa.Call); ok {
		if o := CalleeObj(&cc.Call); o != nil && o.Pkg() != nil && o.Pkg().Path() == "strings" {
			if len(cc.Call.Args) > 0 {
				return derivesFromExtract(cc.Call.Args[0], call, idx, depth+1)
			}
		}
	}
	if ph, ok := v.(*ssa.Phi); ok {
		for _, e := range ph.Edges {
			if derivesFromExtract(e, call, idx, depth+1) {
				return true
			}
		}
	}
	return false
}

// checkAddedProcessHasLog (C11): every function that adds a process to the project at run time registers its log buffer
// on every path - a process without a registered buffer writes into an unreachable fallback buffer.
func (s *Sel) checkAddedProcessHasLog(c *Ctx, ruleID string) {
	p := c.P
	rule := c.Rule(ruleID, "every runner function that inserts a new key into project.Processes (not the rename) passes, on every path through that insertion, a call that inserts into processLogs - whatever the flags of the new process")
	d := p.Deep(MapUpdateOn("logs", s.FLogs))
	ctor := p.Func("app", "NewProjectRunner")
	n := 0
	for _, f := range p.FuncsOfPkg("app") {
		if !s.IsRunnerMethod(f) || f == ctor || p.onlyReachedFrom(f, []*ssa.Function{ctor}, 0) {
			continue
		}
		if len(DirectSites(f, MapDeleteOn("d", s.FProcesses))) > 0 {
			continue
		}
		for _, in := range DirectSites(f, MapUpdateOn("w", s.FProcesses)) {
			mu := in.(*ssa.MapUpdate)
			if isRangeKeyOver(mu.Key, s.FProcesses) || (PathOf(mu.Key).LastField() == s.FReplicaName && isRangeValueBase(mu.Key, s.FProcesses)) {
				continue
			}
			n++
			c.Touch(f)
			barrier := func(x ssa.Instruction) bool {
				switch x.(type) {
				case *ssa.Go, *ssa.Defer:
					return false
				}
				return d.MayAt(x)
			}
			before := !Reach(Entry(f), barrier, nil)[in]
			after1 := true
			for x := range Reach([]Pt{after(in)}, barrier, nil) {
				if _, isRet := x.(*ssa.Return); isRet {
					after1 = false
				}
			}
			c.Check(before || after1, rule, p.FuncKey(f), p.InstrPos(in), "the log buffer is registered on every path", "a process can be added to the project without a log buffer (e.g. only when it starts right away): when it is started later its output goes to an unreachable fallback buffer and log queries for it fail")
		}
	}
	if n == 0 {
		c.Bad(rule, "none", "", "no function adds a process to project.Processes at run time")
	}
}
