// pcverif: static checker for the process-compose properties C01..C20.
package main

import (
	"encoding/json"
	"flag"
	"fmt"
	"os"
	"strconv"
	"time"

	"pcverif/internal/pcv"
)

func usage() {
	fmt.Fprintln(os.Stderr, `usage:
  pcverif check <Cxx> [--tier quick|thorough] [--repo DIR] [--verif DIR] [--only RULE]
  pcverif selectors [--repo DIR]
  pcverif explain <replay.json>`)
	os.Exit(2)
}

func main() {
	if len(os.Args) < 2 {
		usage()
	}
	cmd := os.Args[1]
	fs := flag.NewFlagSet(cmd, flag.ExitOnError)
	repo := fs.String("repo", envOr("PCVERIF_REPO", "/repo"), "repository root")
	verif := fs.String("verif", envOr("PCVERIF_DIR", "/verif"), "verification directory")
	tier := fs.String("tier", envOr("VERIF_TIER", "quick"), "quick|thorough")
	only := fs.String("only", "", "run only rules with this prefix")
	args := os.Args[2:]
	var pos []string
	for len(args) > 0 && len(args[0]) > 0 && args[0][0] != '-' {
		pos = append(pos, args[0])
		args = args[1:]
	}
	_ = fs.Parse(args)
	pos = append(pos, fs.Args()...)
	seed := 0
	if s := os.Getenv("VERIF_SEED"); s != "" {
		seed, _ = strconv.Atoi(s)
	}
	start := time.Now()
	defer func() {
		if r := recover(); r != nil {
			if be, ok := r.(*pcv.BrokenError); ok {
				fmt.Printf("CHECK-BROKEN %s\n", be.Msg)
				os.Exit(2)
			}
			panic(r)
		}
	}()
	switch cmd {
	case "selectors":
		p, err := pcv.Load(*repo, nil)
		if err != nil {
			fmt.Println("CHECK-BROKEN", err)
			os.Exit(2)
		}
		fmt.Print(p.Selectors().Describe())
		fmt.Println("loaded in", time.Since(start))
	case "check":
		if len(pos) < 1 {
			usage()
		}
		os.Exit(pcv.RunCheck(pos[0], *repo, *verif, *tier, *only, seed, start))
	case "checkall":
		os.Exit(pcv.RunAll(*repo, *verif))
	case "witness":
		if len(pos) < 1 {
			usage()
		}
		idx, _ := strconv.Atoi(pos[0])
		prop := ""
		if len(pos) > 1 {
			prop = pos[1]
		}
		r := pcv.RunWitness(*repo, *verif, idx, prop)
		data, _ := json.Marshal(r)
		fmt.Println(string(data))
	case "explain":
		if len(pos) < 1 {
			usage()
		}
		os.Exit(pcv.Explain(pos[0], *repo, *verif))
	default:
		usage()
	}
}

func envOr(k, d string) string {
	if v := os.Getenv(k); v != "" {
		return v
	}
	return d
}
