package main

import (
	"fmt"
	"os"

	"pcverif/internal/pcv"
)

func main() {
	p, err := pcv.Load("/repo", nil)
	if err != nil {
		panic(err)
	}
	for _, f := range p.Funcs {
		if p.FuncKey(f) == os.Args[1] {
			f.WriteTo(os.Stdout)
			a := &pcv.LinAnalysis{P: p, Fn: f, Assume: []pcv.Lin{pcv.LE(pcv.TConst(0), pcv.TVar(pcv.CellLen("p0.buffer")))}}
			a.Run()
			for _, o := range a.Obligations {
				fmt.Println(p.InstrPos(o.Instr), o.What, o.OK)
				for _, c := range o.Cons {
					fmt.Println("   need", c, o.State.Entails(c))
				}
				for _, c := range o.State.Cons {
					fmt.Println("   have", c)
				}
			}
		}
	}
}
