package main

import (
	"fmt"
	"os"

	"pcverif/internal/pcv"
)

func main() {
	p, err := pcv.Load("/repo", nil)
	if err != nil {
		panic(err)
	}
	s := p.Selectors()
	ls := p.Locksets(s.Runner)
	for _, f := range p.Funcs {
		if p.FuncKey(f) == os.Args[1] {
			fmt.Println("root:", ls.IsRoot(f), "entry:", ls.EntryOf(f))
			fmt.Print(ls.Dump(f))
		}
	}
}
