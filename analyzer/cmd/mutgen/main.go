// mutgen enumerates small syntactic mutations of the repository's non-test sources (developer tool used to
// measure what the checks report on changes that the test-suite does not notice; see DESIGN.md 12.8).
// Output: one JSON object per line {id, file, start, end, repl, kind, func, line}.
package main

import (
	"encoding/json"
	"fmt"
	"go/ast"
	"go/parser"
	"go/token"
	"os"
	"path/filepath"
	"strings"
)

type mut struct {
	ID    int    `json:"id"`
	File  string `json:"file"`
	Start int    `json:"start"`
	End   int    `json:"end"`
	Repl  string `json:"repl"`
	Kind  string `json:"kind"`
	Func  string `json:"func"`
	Line  int    `json:"line"`
}

func main() {
	root := os.Args[1]
	dirs := os.Args[2:]
	id := 0
	enc := json.NewEncoder(os.Stdout)
	for _, d := range dirs {
		files, _ := filepath.Glob(filepath.Join(root, d, "*.go"))
		for _, f := range files {
			if strings.HasSuffix(f, "_test.go") {
				continue
			}
			src, err := os.ReadFile(f)
			if err != nil {
				continue
			}
			fset := token.NewFileSet()
			af, err := parser.ParseFile(fset, f, src, 0)
			if err != nil {
				continue
			}
			rel, _ := filepath.Rel(root, f)
			off := func(p token.Pos) int { return fset.Position(p).Offset }
			emit := func(fn string, s, e token.Pos, repl, kind string) {
				id++
				_ = enc.Encode(mut{ID: id, File: rel, Start: off(s), End: off(e), Repl: repl, Kind: kind, Func: fn, Line: fset.Position(s).Line})
			}
			for _, decl := range af.Decls {
				fd, ok := decl.(*ast.FuncDecl)
				if !ok || fd.Body == nil {
					continue
				}
				name := fd.Name.Name
				if fd.Recv != nil && len(fd.Recv.List) > 0 {
					name = fmt.Sprintf("%s.%s", exprString(fd.Recv.List[0].Type), fd.Name.Name)
				}
				ast.Inspect(fd.Body, func(n ast.Node) bool {
					switch x := n.(type) {
					case *ast.IfStmt:
						emit(name, x.Cond.Pos(), x.Cond.End(), "!("+string(src[off(x.Cond.Pos()):off(x.Cond.End())])+")", "negate-if")
					case *ast.BinaryExpr:
						var r string
						switch x.Op {
						case token.LAND:
							r = "||"
						case token.LOR:
							r = "&&"
						case token.EQL:
							r = "!="
						case token.NEQ:
							r = "=="
						case token.LSS:
							r = "<="
						case token.LEQ:
							r = "<"
						case token.GTR:
							r = ">="
						case token.GEQ:
							r = ">"
						}
						if r != "" {
							emit(name, x.OpPos, x.OpPos+token.Pos(len(x.Op.String())), r, "binop")
						}
					case *ast.ExprStmt:
						if call, ok := x.X.(*ast.CallExpr); ok {
							s := exprString(call.Fun)
							if strings.HasPrefix(s, "log.") || strings.Contains(s, ".Msg") || strings.HasPrefix(s, "fmt.Print") {
								return true
							}
							emit(name, x.Pos(), x.End(), "", "drop-call")
						}
					case *ast.DeferStmt:
						emit(name, x.Pos(), x.End(), "", "drop-defer")
					case *ast.AssignStmt:
						if x.Tok == token.ASSIGN && len(x.Lhs) == 1 {
							if _, isSel := x.Lhs[0].(*ast.SelectorExpr); isSel {
								emit(name, x.Pos(), x.End(), "", "drop-field-assign")
							}
						}
					case *ast.BranchStmt:
						if x.Tok == token.CONTINUE && x.Label == nil {
							emit(name, x.Pos(), x.End(), "break", "continue-to-break")
						}
					case *ast.ReturnStmt:
						// return err -> return nil on error paths
						if len(x.Results) >= 1 {
							last := x.Results[len(x.Results)-1]
							if id, ok := last.(*ast.Ident); ok && id.Name == "err" {
								emit(name, last.Pos(), last.End(), "nil", "swallow-error")
							}
						}
					case *ast.GoStmt:
						_ = x
					}
					return true
				})
			}
		}
	}
}

func exprString(e ast.Expr) string {
	switch x := e.(type) {
	case *ast.Ident:
		return x.Name
	case *ast.SelectorExpr:
		return exprString(x.X) + "." + x.Sel.Name
	case *ast.StarExpr:
		return "*" + exprString(x.X)
	case *ast.CallExpr:
		return exprString(x.Fun) + "()"
	case *ast.IndexExpr:
		return exprString(x.X)
	}
	return "?"
}
