#!/bin/sh
# Usage: ./check.sh --build | ./check.sh <Cxx> [quick|thorough]
# Builds the analyzer (offline, vendored x/tools) when its sources changed and
# runs the static check of one property against /repo's current working tree.
set -u
HERE="$(cd "$(dirname "$0")" && pwd)"
export GOFLAGS=-mod=vendor GOPROXY=off GOSUMDB=off GOTOOLCHAIN=local GOWORK=off CGO_ENABLED=0
unset GOOS GOARCH 2>/dev/null || true
BIN="$HERE/bin/pcverif"
build() {
    mkdir -p "$HERE/bin"
    stamp="$HERE/bin/.stamp"
    cur="$(cd "$HERE/analyzer" && find . -name '*.go' -not -path './vendor/*' -newer "$stamp" 2>/dev/null | head -1)"
    if [ ! -x "$BIN" ] || [ ! -f "$stamp" ] || [ -n "$cur" ]; then
        (cd "$HERE/analyzer" && go build -o "$BIN" ./cmd/pcverif) || { echo "CHECK-BROKEN analyzer build failed"; exit 2; }
        touch "$stamp"
    fi
}
if [ "${1:-}" = "--build" ]; then
    rm -f "$HERE/bin/.stamp"
    build
    # warm the build cache for /repo's dependencies (export data), offline
    (cd "${PCVERIF_REPO:-/repo}" && GOFLAGS=-mod=mod go build ./... >/dev/null 2>&1 || true)
    exit 0
fi
[ $# -ge 1 ] || { echo "usage: $0 <Cxx> [quick|thorough]"; exit 2; }
build
PROP="$1"; TIER="${2:-${VERIF_TIER:-quick}}"
exec "$BIN" check "$PROP" --tier "$TIER" --repo "${PCVERIF_REPO:-/repo}" --verif "$HERE"
